//! Streams `jser` / `jde`: the REAL JSON text layer of gluon on exactly-shaped inputs.
//!
//! * `jser <V>`   — a `std.json.Value` with exactly the requested std.map tree shapes (built inside the VM
//!                  by the interpreter `json_build` of driver.glu) goes through `std.json.ser.to_string`;
//!                  payload = the text.
//! * `jde "text"` — `std.json.de.deserialize_with std.json.de.value text`; the `Result String Value` is
//!                  walked through `ValueRef` (objects with their real tree shape); payload `(ok V)` or
//!                  `(err "msg")` (position suffix removed).
//!
//! Value encoding: `n` `t` `f` `(i N)` `(d BITS)` `(s "…")` `(a V…)` `(o M)`, `M ::= _ | (b "key" V M M)`;
//! in requests also `(oi ("key" V)…)` = `std.map.insert` of the pairs, in order, into `std.map.empty`.
use super::Drv;
use gluon::vm::api::{FunctionRef, Hole, OpaqueValue, ValueRef};
use gluon::vm::Variants;
use gluon::RootedThread;
use gv::rng::Rng;
use gv::{quote, Out};
use serde_json::json;
use std::collections::BTreeMap;
use std::fmt::Write as _;

#[derive(Clone, Debug, PartialEq)]
pub enum JV {
    Null,
    Bool(bool),
    Int(i64),
    /// bit pattern
    Float(u64),
    Str(String),
    Arr(Vec<JV>),
    /// raw std.map tree
    Obj(Tree),
    /// `map.insert` of the pairs, left to right, from `map.empty` (requests only)
    ObjIns(Vec<(String, JV)>),
}

#[derive(Clone, Debug, PartialEq)]
pub enum Tree {
    Tip,
    Bin(String, Box<JV>, Box<Tree>, Box<Tree>),
}

pub fn enc(v: &JV, o: &mut String) {
    match v {
        JV::Null => o.push('n'),
        JV::Bool(true) => o.push('t'),
        JV::Bool(false) => o.push('f'),
        JV::Int(i) => {
            let _ = write!(o, "(i {})", i);
        }
        JV::Float(b) => {
            let _ = write!(o, "(d {})", b);
        }
        JV::Str(s) => {
            let _ = write!(o, "(s {})", quote(s));
        }
        JV::Arr(xs) => {
            o.push_str("(a");
            for x in xs {
                o.push(' ');
                enc(x, o);
            }
            o.push(')');
        }
        JV::Obj(t) => {
            o.push_str("(o ");
            enc_tree(t, o);
            o.push(')');
        }
        JV::ObjIns(kvs) => {
            o.push_str("(oi");
            for (k, v) in kvs {
                o.push_str(" (");
                o.push_str(&quote(k));
                o.push(' ');
                enc(v, o);
                o.push(')');
            }
            o.push(')');
        }
    }
}

fn enc_tree(t: &Tree, o: &mut String) {
    match t {
        Tree::Tip => o.push('_'),
        Tree::Bin(k, v, l, r) => {
            o.push_str("(b ");
            o.push_str(&quote(k));
            o.push(' ');
            enc(v, o);
            o.push(' ');
            enc_tree(l, o);
            o.push(' ');
            enc_tree(r, o);
            o.push(')');
        }
    }
}

// ------------------------------------------------------------------------------- builder program

#[derive(Default, Clone, Debug)]
pub struct Prog {
    pub prog: Vec<i64>,
    pub ints: Vec<i64>,
    pub floats: Vec<u64>,
    pub strs: Vec<String>,
}

impl Prog {
    fn s(&mut self, s: &str) -> i64 {
        self.strs.push(s.to_string());
        self.strs.len() as i64 - 1
    }
}

fn compile(v: &JV, p: &mut Prog) {
    match v {
        JV::Null => p.prog.push(0),
        JV::Bool(true) => p.prog.push(1),
        JV::Bool(false) => p.prog.push(2),
        JV::Int(i) => {
            p.ints.push(*i);
            p.prog.extend_from_slice(&[3, p.ints.len() as i64 - 1]);
        }
        JV::Float(b) => {
            p.floats.push(*b);
            p.prog.extend_from_slice(&[4, p.floats.len() as i64 - 1]);
        }
        JV::Str(s) => {
            let i = p.s(s);
            p.prog.extend_from_slice(&[5, i]);
        }
        JV::Arr(xs) => {
            p.prog.extend_from_slice(&[6, xs.len() as i64]);
            for x in xs {
                compile(x, p);
            }
        }
        JV::Obj(t) => {
            p.prog.push(7);
            compile_tree(t, p);
        }
        JV::ObjIns(kvs) => {
            p.prog.extend_from_slice(&[8, kvs.len() as i64]);
            for (k, v) in kvs {
                let i = p.s(k);
                p.prog.push(i);
                compile(v, p);
            }
        }
    }
}

fn compile_tree(t: &Tree, p: &mut Prog) {
    match t {
        Tree::Tip => p.prog.push(0),
        Tree::Bin(k, v, l, r) => {
            let i = p.s(k);
            p.prog.extend_from_slice(&[1, i]);
            compile(v, p);
            compile_tree(l, p);
            compile_tree(r, p);
        }
    }
}

/// the inverse of `compile` (replay files carry the program)
fn decompile(p: &Prog) -> Option<JV> {
    fn val(p: &Prog, i: &mut usize) -> Option<JV> {
        let c = *p.prog.get(*i)?;
        *i += 1;
        let arg = |i: &mut usize| -> Option<usize> {
            let a = *p.prog.get(*i)?;
            *i += 1;
            usize::try_from(a).ok()
        };
        Some(match c {
            0 => JV::Null,
            1 => JV::Bool(true),
            2 => JV::Bool(false),
            3 => JV::Int(*p.ints.get(arg(i)?)?),
            4 => JV::Float(*p.floats.get(arg(i)?)?),
            5 => JV::Str(p.strs.get(arg(i)?)?.clone()),
            6 => {
                let n = arg(i)?;
                let mut xs = vec![];
                for _ in 0..n {
                    xs.push(val(p, i)?);
                }
                JV::Arr(xs)
            }
            7 => JV::Obj(tree(p, i)?),
            8 => {
                let n = arg(i)?;
                let mut kvs = vec![];
                for _ in 0..n {
                    let k = p.strs.get(arg(i)?)?.clone();
                    kvs.push((k, val(p, i)?));
                }
                JV::ObjIns(kvs)
            }
            _ => return None,
        })
    }
    fn tree(p: &Prog, i: &mut usize) -> Option<Tree> {
        let c = *p.prog.get(*i)?;
        *i += 1;
        if c == 0 {
            return Some(Tree::Tip);
        }
        let k = p.strs.get(usize::try_from(*p.prog.get(*i)?).ok()?)?.clone();
        *i += 1;
        let v = val(p, i)?;
        let l = tree(p, i)?;
        let r = tree(p, i)?;
        Some(Tree::Bin(k, Box::new(v), Box::new(l), Box::new(r)))
    }
    let mut i = 0;
    val(p, &mut i)
}

// --------------------------------------------------------------------------------- jser oracle

/// node, then left, then right; a later visit of the same key wins
fn tree_entries<'a>(t: &'a Tree, m: &mut BTreeMap<&'a str, &'a JV>) {
    if let Tree::Bin(k, v, l, r) = t {
        m.insert(k.as_str(), v);
        tree_entries(l, m);
        tree_entries(r, m);
    }
}

fn inorder<'a>(t: &'a Tree, ks: &mut Vec<&'a str>) {
    if let Tree::Bin(k, _, l, r) = t {
        inorder(l, ks);
        ks.push(k.as_str());
        inorder(r, ks);
    }
}

/// in-order keys strictly ascending (byte order)
pub fn is_search_tree(t: &Tree) -> bool {
    let mut ks = vec![];
    inorder(t, &mut ks);
    ks.windows(2).all(|w| w[0].as_bytes() < w[1].as_bytes())
}

fn any_obj(v: &JV, f: &mut dyn FnMut(&JV)) {
    match v {
        JV::Arr(xs) => xs.iter().for_each(|x| any_obj(x, f)),
        JV::Obj(t) => {
            f(v);
            fn go(t: &Tree, f: &mut dyn FnMut(&JV)) {
                if let Tree::Bin(_, v, l, r) = t {
                    any_obj(v, f);
                    go(l, f);
                    go(r, f);
                }
            }
            go(t, f);
        }
        JV::ObjIns(kvs) => {
            f(v);
            kvs.iter().for_each(|(_, x)| any_obj(x, f));
        }
        _ => {}
    }
}

fn leaves(v: &JV, f: &mut dyn FnMut(&JV)) {
    match v {
        JV::Arr(xs) => xs.iter().for_each(|x| leaves(x, f)),
        JV::Obj(t) => {
            fn go(t: &Tree, f: &mut dyn FnMut(&JV)) {
                if let Tree::Bin(_, v, l, r) = t {
                    leaves(v, f);
                    go(l, f);
                    go(r, f);
                }
            }
            go(t, f);
        }
        JV::ObjIns(kvs) => kvs.iter().for_each(|(_, x)| leaves(x, f)),
        x => f(x),
    }
}

fn float_text(bits: u64) -> String {
    let f = f64::from_bits(bits);
    if f.is_finite() {
        serde_json::to_string(&f).unwrap()
    } else {
        "null".to_string()
    }
}

/// the compact JSON text of the value: every key once, ascending
fn expected_text(v: &JV, o: &mut String) {
    match v {
        JV::Null => o.push_str("null"),
        JV::Bool(b) => o.push_str(if *b { "true" } else { "false" }),
        JV::Int(i) => o.push_str(&serde_json::to_string(i).unwrap()),
        JV::Float(b) => o.push_str(&float_text(*b)),
        JV::Str(s) => o.push_str(&serde_json::to_string(s).unwrap()),
        JV::Arr(xs) => {
            o.push('[');
            for (i, x) in xs.iter().enumerate() {
                if i > 0 {
                    o.push(',');
                }
                expected_text(x, o);
            }
            o.push(']');
        }
        JV::Obj(_) | JV::ObjIns(_) => {
            let mut m: BTreeMap<&str, &JV> = BTreeMap::new();
            match v {
                JV::Obj(t) => tree_entries(t, &mut m),
                JV::ObjIns(kvs) => {
                    for (k, x) in kvs {
                        m.insert(k.as_str(), x);
                    }
                }
                _ => {}
            }
            o.push('{');
            for (i, (k, x)) in m.iter().enumerate() {
                if i > 0 {
                    o.push(',');
                }
                o.push_str(&serde_json::to_string(k).unwrap());
                o.push(':');
                expected_text(x, o);
            }
            o.push('}');
        }
    }
}

fn kind(v: &JV) -> String {
    match v {
        JV::Null => "n".into(),
        JV::Bool(_) => "b".into(),
        JV::Int(_) => "i".into(),
        JV::Float(b) => {
            let f = f64::from_bits(*b);
            if f.is_nan() { "N".into() } else if f.is_infinite() { "I".into() } else { "d".into() }
        }
        JV::Str(_) => "s".into(),
        JV::Arr(a) => format!("[{}]", a.iter().take(3).map(kind).collect::<String>()),
        JV::Obj(t) => {
            let mut n = vec![];
            inorder(t, &mut n);
            format!("{{{}{}}}", if is_search_tree(t) { "T" } else { "R" }, n.len())
        }
        JV::ObjIns(kvs) => format!("{{{}}}", kvs.iter().take(3).map(|(_, v)| kind(v)).collect::<String>()),
    }
}

pub fn run_jser(drv: &mut Drv, out: &mut Out, v: &JV, verbose: bool) {
    let mut p = Prog::default();
    compile(v, &mut p);
    let replay = json!({"area": "jser", "prog": p.prog, "ints": p.ints,
        "floats": p.floats.iter().map(|b| b.to_string()).collect::<Vec<_>>(), "strs": p.strs});
    let mut req = String::from("jser ");
    enc(v, &mut req);
    let floats: Vec<f64> = p.floats.iter().map(|b| f64::from_bits(*b)).collect();
    let res = call!(drv, "json_build_ser", fn(Vec<i64>, Vec<i64>, Vec<f64>, Vec<String>) -> String,
        p.prog.clone(), p.ints.clone(), floats, p.strs.clone());
    let mut expect = String::new();
    expected_text(v, &mut expect);
    if verbose {
        println!("request  {}\ngluon    {:?}\nexpected {:?}", req, res, expect);
    }
    // distribution
    let mut raw_bad = false;
    any_obj(v, &mut |o| match o {
        JV::Obj(t) => {
            if is_search_tree(t) {
                out.count("jser:obj:raw-search-tree");
            } else {
                raw_bad = true;
                out.count("jser:obj:raw-not-a-search-tree");
            }
        }
        JV::ObjIns(kvs) => {
            let mut ks: Vec<&str> = kvs.iter().map(|(k, _)| k.as_str()).collect();
            let n = ks.len();
            ks.sort();
            ks.dedup();
            out.count(if ks.len() < n { "jser:obj:insert-with-duplicate-keys" } else { "jser:obj:insert" });
        }
        _ => {}
    });
    leaves(v, &mut |l| {
        out.count(match l {
            JV::Null => "jser:leaf:null",
            JV::Bool(_) => "jser:leaf:bool",
            JV::Int(_) => "jser:leaf:int",
            JV::Float(b) if f64::from_bits(*b).is_finite() => "jser:leaf:float",
            JV::Float(_) => "jser:leaf:float-non-finite",
            JV::Str(_) => "jser:leaf:string",
            _ => "jser:leaf:empty-container",
        })
    });
    let payload = match &res {
        Ok(t) if t.starts_with('O') => {
            let text = &t[1..];
            if text != expect {
                let fp = if raw_bad { "json:ser-text-rawtree" } else { "json:ser-text-tree" };
                out.oracle_fail(fp, "std.json.ser text of a Value whose Object is a std.map tree differs from the compact JSON of its entries (every key once, ascending)", replay.clone());
            }
            out.count("jser:ok");
            quote(text)
        }
        Ok(t) => {
            let e = t.get(1..).unwrap_or("");
            out.oracle_fail("json:ser-error", &format!("std.json.ser.to_string of a Value failed: {}", e.lines().next().unwrap_or("")), replay.clone());
            out.count("jser:err");
            format!("(err {})", quote(e))
        }
        Err(e) => {
            let l = e.lines().next().unwrap_or("");
            out.oracle_fail("json:ser-vm-error", &format!("building / serialising a Value failed in the VM: {}", l), replay.clone());
            out.count("jser:vm-error");
            format!("(unexpected {})", quote(l))
        }
    };
    out.class(format!("jser:{}", kind(v)));
    if out.stats.get("jser:ok").and_then(|x| x.as_u64()).unwrap_or(0) % 300 == 20 {
        out.sample(json!({"request": req.chars().take(240).collect::<String>(), "text": payload.chars().take(160).collect::<String>()}));
    }
    out.case(&req, &payload);
}

pub fn replay_jser(drv: &mut Drv, out: &mut Out, case: &serde_json::Value) {
    let geti = |k: &str| -> Vec<i64> { case[k].as_array().map(|a| a.iter().filter_map(|x| x.as_i64()).collect()).unwrap_or_default() };
    let p = Prog {
        prog: geti("prog"),
        ints: geti("ints"),
        floats: case["floats"].as_array().map(|a| a.iter().filter_map(|x| x.as_str().and_then(|s| s.parse().ok())).collect()).unwrap_or_default(),
        strs: case["strs"].as_array().map(|a| a.iter().filter_map(|x| x.as_str().map(|s| s.to_string())).collect()).unwrap_or_default(),
    };
    match decompile(&p) {
        Some(v) => run_jser(drv, out, &v, true),
        None => println!("jser replay: the program does not decode"),
    }
}

// ------------------------------------------------------------------------------- jser generator

const JCHARS: &[char] = &[
    'a', 'b', 'z', 'A', '0', '9', ' ', '_', '"', '\\', '/', '"', '\\',
    '\u{0}', '\u{1}', '\u{8}', '\t', '\n', '\u{b}', '\u{c}', '\r', '\u{1f}', '\u{7f}',
    'é', '\u{80}', '\u{7ff}', '€', '\u{800}', '\u{2028}', '\u{d7ff}', '\u{e000}', '\u{fffd}', '\u{ffff}',
    '😀', '\u{10000}', '\u{10ffff}',
];

pub fn gen_jstring(rng: &mut Rng) -> String {
    let n = match rng.below(8) {
        0 => 0,
        1 => 1,
        _ => rng.below(9),
    };
    let plain = rng.chance(1, 4);
    (0..n).map(|_| if plain { JCHARS[rng.below(8) as usize] } else { *rng.pick(JCHARS) }).collect()
}

fn gen_int(rng: &mut Rng) -> i64 {
    match rng.below(9) {
        0 => 0,
        1 => -1,
        2 => i64::MIN,
        3 => i64::MAX,
        4 => rng.next() as i64,
        _ => rng.range(-1000, 1000),
    }
}

fn gen_float_bits(rng: &mut Rng) -> u64 {
    let f: f64 = match rng.below(20) {
        0 => 0.0,
        1 => -0.0,
        2 => rng.range(-20, 20) as f64,
        3 => rng.range(-1000, 1000) as f64 / 8.0,
        4 => 0.1,
        5 => 1e21,
        6 => 1e-7,
        7 => 5e-324,
        8 => f64::MAX,
        9 => return if rng.chance(1, 2) { f64::NAN.to_bits() } else { 0x7ff0_0000_0000_0001 | (rng.next() & 0x800f_ffff_ffff_ffff) },
        10 => f64::INFINITY,
        11 => f64::NEG_INFINITY,
        12 => *rng.pick(&[1e15, 1e16, 1e17, 123456789012345680.0, 1e-5, 1e-6, 0.3, 1e20, 1e22, -1e-7, 2.2250738585072014e-308]),
        _ => return rng.next(),
    };
    f.to_bits()
}

fn gen_leaf(rng: &mut Rng) -> JV {
    if rng.chance(15, 100) {
        return JV::Float(gen_float_bits(rng));
    }
    match rng.below(7) {
        0 => JV::Null,
        1 => JV::Bool(rng.chance(1, 2)),
        2 | 3 => JV::Int(gen_int(rng)),
        _ => JV::Str(gen_jstring(rng)),
    }
}

const KEYPOOL: &[&str] = &["a", "b", "c", "d", "e", "f", "g", "h"];

fn gen_key(rng: &mut Rng) -> String {
    if rng.chance(1, 2) {
        rng.pick(KEYPOOL).to_string()
    } else {
        gen_jstring(rng)
    }
}

fn gen_raw_tree(rng: &mut Rng, n: u64, depth: u32) -> Tree {
    if n == 0 {
        return Tree::Tip;
    }
    let k = gen_key(rng);
    let v = gen_val(rng, depth);
    let nl = match rng.below(4) {
        0 => 0,
        1 => n - 1,
        _ => rng.below(n),
    };
    let l = gen_raw_tree(rng, nl, depth);
    let r = gen_raw_tree(rng, n - 1 - nl, depth);
    Tree::Bin(k, Box::new(v), Box::new(l), Box::new(r))
}

/// a search tree of arbitrary shape over sorted distinct keys
fn gen_bst(rng: &mut Rng, keys: &[String], depth: u32) -> Tree {
    if keys.is_empty() {
        return Tree::Tip;
    }
    let i = match rng.below(4) {
        0 => 0,
        1 => keys.len() - 1,
        _ => rng.below(keys.len() as u64) as usize,
    };
    let v = gen_val(rng, depth);
    let l = gen_bst(rng, &keys[..i], depth);
    let r = gen_bst(rng, &keys[i + 1..], depth);
    Tree::Bin(keys[i].clone(), Box::new(v), Box::new(l), Box::new(r))
}

fn gen_obj(rng: &mut Rng, depth: u32) -> JV {
    let n = rng.below(7);
    if rng.chance(1, 10) {
        // raw tree; one third of them proper search trees of a shape `insert` need not produce
        if rng.chance(1, 3) {
            let mut keys: Vec<String> = (0..n).map(|_| gen_key(rng)).collect();
            keys.sort();
            keys.dedup();
            return JV::Obj(gen_bst(rng, &keys, depth));
        }
        return JV::Obj(gen_raw_tree(rng, n, depth));
    }
    let mut keys: Vec<String> = if rng.chance(3, 5) {
        (0..n).map(|_| rng.pick(KEYPOOL).to_string()).collect()
    } else {
        // random strings, some of them prefixes / extensions of each other
        let mut ks: Vec<String> = vec![];
        for _ in 0..n {
            let k = match rng.below(4) {
                0 if !ks.is_empty() => {
                    let b: Vec<char> = rng.pick(&ks).chars().collect();
                    b[..rng.below(b.len() as u64 + 1) as usize].iter().collect()
                }
                1 if !ks.is_empty() => {
                    let mut b = rng.pick(&ks).clone();
                    b.push(*rng.pick(JCHARS));
                    b
                }
                _ => gen_jstring(rng),
            };
            ks.push(k);
        }
        ks
    };
    match rng.below(4) {
        0 => keys.sort(),
        1 => {
            keys.sort();
            keys.reverse();
        }
        _ => {}
    }
    JV::ObjIns(keys.into_iter().map(|k| (k, gen_val(rng, depth))).collect())
}

pub fn gen_val(rng: &mut Rng, depth: u32) -> JV {
    if depth == 0 || rng.chance(1, 2) {
        return gen_leaf(rng);
    }
    if rng.chance(1, 2) {
        JV::Arr((0..rng.below(5)).map(|_| gen_val(rng, depth - 1)).collect())
    } else {
        gen_obj(rng, depth - 1)
    }
}

fn bin(k: &str, v: JV, l: Tree, r: Tree) -> Tree {
    Tree::Bin(k.to_string(), Box::new(v), Box::new(l), Box::new(r))
}

pub fn run_ser(drv: &mut Drv, out: &mut Out, seed: u64, big: bool) {
    use JV::*;
    let leaf = |k: &str, i: i64| bin(k, Int(i), Tree::Tip, Tree::Tip);
    let mut deep = Arr(vec![]);
    for _ in 0..129 {
        deep = Arr(vec![deep]);
    }
    let fixed = vec![
        Arr(vec![]),
        ObjIns(vec![]),
        Obj(Tree::Tip),
        deep,
        ObjIns(vec![("c".into(), Int(3)), ("b".into(), Int(2)), ("a".into(), Int(1))]),
        ObjIns(vec![("a".into(), Int(1)), ("b".into(), Int(2)), ("c".into(), Int(3))]),
        ObjIns(vec![("a".into(), Int(1)), ("a".into(), Int(2))]),
        Obj(bin("c", Int(3), bin("b", Int(2), leaf("a", 1), Tree::Tip), Tree::Tip)),
        Obj(bin("a", Int(1), Tree::Tip, bin("b", Int(2), Tree::Tip, leaf("c", 3)))),
        // the same key twice; not search trees
        Obj(bin("a", Int(1), leaf("a", 2), Tree::Tip)),
        Obj(bin("a", Int(1), Tree::Tip, leaf("a", 2))),
        Obj(bin("b", Int(2), leaf("c", 3), leaf("a", 1))),
        Obj(bin("b", Int(2), leaf("a", 1), bin("c", Int(3), leaf("a", 9), Tree::Tip))),
        Obj(bin("", Null, Tree::Tip, leaf("\u{0}", 0))),
        Arr(vec![Float(f64::NAN.to_bits()), Float(f64::INFINITY.to_bits()), Float(f64::NEG_INFINITY.to_bits()), Float((-0.0f64).to_bits()), Float(0)]),
        Arr(vec![Float(1e21f64.to_bits()), Float(1e-7f64.to_bits()), Float(5e-324f64.to_bits()), Float(f64::MAX.to_bits()), Float(1e16f64.to_bits()), Float(0.1f64.to_bits())]),
        Arr(vec![Int(i64::MIN), Int(i64::MAX), Int(0), Int(-1)]),
        Str("\"\\/\u{0}\u{8}\t\n\u{c}\r\u{1f}\u{7f}é€😀\u{ffff}\u{10ffff}".into()),
        ObjIns(vec![("é".into(), Null), ("e".into(), Null), ("\u{10ffff}".into(), Null), ("\u{ffff}".into(), Null), ("".into(), Null), ("\"".into(), Null)]),
    ];
    for v in &fixed {
        run_jser(drv, out, v, false);
    }
    let mut rng = Rng::new(seed, 1911);
    for _ in 0..(if big { 8000 } else { 700 }) {
        let v = match rng.below(8) {
            0 => gen_obj(&mut rng, 3),
            1 => gen_leaf(&mut rng),
            _ => gen_val(&mut rng, 4),
        };
        run_jser(drv, out, &v, false);
    }
}

// ------------------------------------------------------------------------------------------ jde

fn walk_value(v: Variants) -> Result<JV, String> {
    let d = match v.as_ref() {
        ValueRef::Data(d) => d,
        other => return Err(format!("Value is not data: {:?}", other)),
    };
    let arg = || d.get_variant(0).ok_or_else(|| format!("Value tag {} without a field", d.tag()));
    Ok(match d.tag() {
        0 => JV::Null,
        1 => match arg()?.as_ref() {
            ValueRef::Data(b) => JV::Bool(b.tag() == 1),
            other => return Err(format!("Bool payload {:?}", other)),
        },
        2 => match arg()?.as_ref() {
            ValueRef::Int(i) => JV::Int(i),
            other => return Err(format!("Int payload {:?}", other)),
        },
        3 => match arg()?.as_ref() {
            ValueRef::Float(f) => JV::Float(f.to_bits()),
            other => return Err(format!("Float payload {:?}", other)),
        },
        4 => match arg()?.as_ref() {
            ValueRef::String(s) => JV::Str(s.to_string()),
            other => return Err(format!("String payload {:?}", other)),
        },
        5 => match arg()?.as_ref() {
            ValueRef::Array(a) => {
                let mut xs = Vec::with_capacity(a.len());
                for x in a.iter() {
                    xs.push(walk_value(x)?);
                }
                JV::Arr(xs)
            }
            other => return Err(format!("Array payload {:?}", other)),
        },
        6 => JV::Obj(walk_map(arg()?)?),
        t => return Err(format!("Value tag {}", t)),
    })
}

fn walk_map(v: Variants) -> Result<Tree, String> {
    let d = match v.as_ref() {
        ValueRef::Data(d) => d,
        other => return Err(format!("Map is not data: {:?}", other)),
    };
    match d.tag() {
        0 => Ok(Tree::Tip),
        1 => {
            let f = |i: usize| d.get_variant(i).ok_or_else(|| format!("Bin without field {}", i));
            let k = match f(0)?.as_ref() {
                ValueRef::String(s) => s.to_string(),
                other => return Err(format!("Bin key {:?}", other)),
            };
            Ok(Tree::Bin(k, Box::new(walk_value(f(1)?)?), Box::new(walk_map(f(2)?)?), Box::new(walk_map(f(3)?)?)))
        }
        t => Err(format!("Map tag {}", t)),
    }
}

/// `Result String Value`: Err tag 0, Ok tag 1
fn walk_result(v: Variants) -> Result<Result<JV, String>, String> {
    let d = match v.as_ref() {
        ValueRef::Data(d) => d,
        other => return Err(format!("Result is not data: {:?}", other)),
    };
    let a = d.get_variant(0).ok_or("Result without a field")?;
    match d.tag() {
        0 => match a.as_ref() {
            ValueRef::String(s) => Ok(Err(s.to_string())),
            other => Err(format!("Err payload {:?}", other)),
        },
        1 => Ok(Ok(walk_value(a)?)),
        t => Err(format!("Result tag {}", t)),
    }
}

/// remove ` at line <n> column <m>`
fn strip_pos(msg: &str) -> &str {
    if let Some(i) = msg.rfind(" at line ") {
        let rest = &msg[i + 9..];
        let mut it = rest.splitn(2, " column ");
        if let (Some(a), Some(b)) = (it.next(), it.next()) {
            let dig = |s: &str| !s.is_empty() && s.bytes().all(|c| c.is_ascii_digit());
            if dig(a) && dig(b) {
                return &msg[..i];
            }
        }
    }
    msg
}

/// What the generator knows about a number literal it wrote.
#[derive(Clone, Debug, PartialEq)]
pub enum NumExp {
    /// an integer literal inside the i64 range
    Int(i64),
    /// shortest round-trip spelling of this f64
    Bits(u64),
    /// a literal with fraction / exponent whose value is finite: must come back as a Float
    Float,
    /// a number (integer literal outside i64, `-0`): Int or Float
    AnyNum,
    /// may be rejected (overflow)
    MaybeErr,
}

#[derive(Clone, Debug)]
pub enum TV {
    Null,
    Bool(bool),
    Num(String, NumExp),
    Str(String),
    Arr(Vec<TV>),
    Obj(Vec<(String, TV)>),
}

/// (has an object with a duplicate key, has a literal that may be rejected)
fn tv_flags(v: &TV) -> (bool, bool) {
    match v {
        TV::Num(_, NumExp::MaybeErr) => (false, true),
        TV::Arr(xs) => xs.iter().map(tv_flags).fold((false, false), |a, b| (a.0 || b.0, a.1 || b.1)),
        TV::Obj(kvs) => {
            let mut ks: Vec<&str> = kvs.iter().map(|(k, _)| k.as_str()).collect();
            let n = ks.len();
            ks.sort();
            ks.dedup();
            kvs.iter().map(|(_, v)| tv_flags(v)).fold((ks.len() < n, false), |a, b| (a.0 || b.0, a.1 || b.1))
        }
        _ => (false, false),
    }
}

/// 0 = as generated; 1 = only floats with a shortest-round-trip spelling differ; 2 = different
fn tv_diff(t: &TV, r: &JV) -> u8 {
    match (t, r) {
        (TV::Null, JV::Null) => 0,
        (TV::Bool(a), JV::Bool(b)) if a == b => 0,
        (TV::Num(_, NumExp::Int(a)), JV::Int(b)) if a == b => 0,
        (TV::Num(_, NumExp::Bits(a)), JV::Float(b)) => if a == b { 0 } else { 1 },
        (TV::Num(_, NumExp::Float), JV::Float(_)) => 0,
        (TV::Num(_, NumExp::AnyNum), JV::Float(_)) | (TV::Num(_, NumExp::AnyNum), JV::Int(_)) => 0,
        (TV::Num(_, NumExp::MaybeErr), JV::Float(_)) => 0,
        (TV::Str(a), JV::Str(b)) if a == b => 0,
        (TV::Arr(a), JV::Arr(b)) if a.len() == b.len() => a.iter().zip(b).map(|(x, y)| tv_diff(x, y)).max().unwrap_or(0),
        (TV::Obj(kvs), JV::Obj(tree)) => {
            let mut got: BTreeMap<&str, &JV> = BTreeMap::new();
            tree_entries(tree, &mut got);
            let mut n = vec![];
            inorder(tree, &mut n);
            if n.len() != kvs.len() || got.len() != kvs.len() {
                return 2;
            }
            kvs.iter().map(|(k, v)| got.get(k.as_str()).map(|g| tv_diff(v, g)).unwrap_or(2)).max().unwrap_or(0)
        }
        _ => 2,
    }
}

fn jv_kind(v: &JV) -> String {
    match v {
        JV::Arr(a) => format!("[{}]", a.iter().take(3).map(jv_kind).collect::<String>()),
        JV::Obj(t) => {
            let mut n = vec![];
            inorder(t, &mut n);
            format!("{{{}}}", n.len().min(9))
        }
        other => kind(other),
    }
}

pub fn run_jde(drv: &mut Drv, out: &mut Out, text: &str, expect: Option<&TV>, verbose: bool) {
    let replay = json!({"area": "jde", "text": text});
    let req = format!("jde {}", quote(text));
    let res = call!(drv, "json_de_result", fn(String) -> OpaqueValue<RootedThread, Hole>, text.to_string());
    let res: Result<Result<JV, String>, String> = match res {
        Ok(v) => Ok(walk_result(v.get_variant()).unwrap_or_else(|e| panic!("jde: unexpected value layout: {}", e))),
        Err(e) => Err(e),
    };
    let strict = serde_json::from_str::<serde_json::Value>(text);
    let payload = match &res {
        Ok(Ok(v)) => {
            let mut s = String::from("(ok ");
            enc(v, &mut s);
            s.push(')');
            s
        }
        Ok(Err(msg)) => format!("(err {})", quote(strip_pos(msg))),
        Err(e) => format!("(unexpected {})", quote(e.lines().next().unwrap_or(""))),
    };
    if verbose {
        println!("text    {:?}\nrequest {}\ngluon   {}\nraw     {:?}\nstrict serde_json: {}", text, req, payload,
            res.as_ref().map(|r| r.as_ref().map(|_| "Ok").map_err(|e| e.clone())),
            match &strict { Ok(_) => "accepts".to_string(), Err(e) => format!("rejects ({})", e) });
    }
    match &res {
        Ok(Ok(v)) => {
            out.count("jde:ok");
            let mut sorted = true;
            any_obj(v, &mut |o| {
                if let JV::Obj(t) = o {
                    sorted &= is_search_tree(t);
                }
            });
            if !sorted {
                out.oracle_fail("json:de-map-not-search-tree", "an Object produced by std.json.de is not a strict search tree (in-order keys not strictly ascending)", replay.clone());
            }
            if let Err(e) = &strict {
                let m = e.to_string();
                if m.starts_with("trailing characters") {
                    out.count("jde:trailing-text-accepted");
                } else {
                    out.count(&format!("jde:accepted-but-strict-json-rejects:{}", strip_pos(&m)));
                }
            }
            out.class(format!("jde:ok:{}{}", jv_kind(v), if strict.is_err() { ":trailing" } else { "" }));
        }
        Ok(Err(msg)) => {
            let m = strip_pos(msg);
            out.count(&format!("jde:err:{}", m));
            out.class(format!("jde:err:{}", m));
            if strict.is_ok() {
                out.oracle_fail("json:de-rejects-valid-json", &format!("std.json.de rejects a text that is valid JSON: {}", m), replay.clone());
            }
        }
        Err(e) => {
            out.count("jde:vm-error");
            out.oracle_fail("json:de-vm-error", &format!("std.json.de failed in the VM: {}", e.lines().next().unwrap_or("")), replay.clone());
        }
    }
    if let Some(t) = expect {
        out.count("jde:valid-text-of-known-value");
        match &res {
            Ok(Ok(v)) => match tv_diff(t, v) {
                0 => {}
                1 => out.oracle_fail(super::FLOAT_FP, super::FLOAT_WHAT, replay.clone()),
                _ => out.oracle_fail("json:de-valid-text", "std.json.de of a valid JSON text is not the value the text denotes", replay.clone()),
            },
            _ => out.oracle_fail("json:de-valid-text", "std.json.de does not accept a valid JSON text", replay.clone()),
        }
    }
    if out.stats.get("jde:ok").and_then(|x| x.as_u64()).unwrap_or(0) % 400 == 150 && matches!(res, Ok(Ok(_))) {
        out.sample(json!({"request": req.chars().take(200).collect::<String>(), "result": payload.chars().take(200).collect::<String>()}));
    }
    out.case(&req, &payload);
}

pub fn replay_jde(drv: &mut Drv, out: &mut Out, case: &serde_json::Value) {
    run_jde(drv, out, case["text"].as_str().unwrap_or(""), None, true);
}

// -------------------------------------------------------------------------------- jde generator

/// number spellings with what is known about them
const NUMS: &[(&str, u8)] = &[
    // 0 = Int (value parsed below), 1 = Float, 2 = AnyNum, 3 = MaybeErr
    ("0", 0), ("-0", 2), ("-0.0", 1), ("0.0", 1), ("0e5", 1), ("1E+2", 1), ("1e-2", 1), ("123.456", 1), ("-1", 0), ("7", 0), ("10", 0), ("-123", 0),
    ("9223372036854775807", 0), ("9223372036854775808", 2), ("18446744073709551615", 2), ("18446744073709551616", 2),
    ("-9223372036854775808", 0), ("-9223372036854775809", 2), ("1234567890123456789012345", 2), ("-9999999999999999999999999", 2),
    ("100000000000000000000", 2), ("0.1000000000000000055511151231257827", 1), ("0.30000000000000004", 1),
    ("3.141592653589793238462643383279502884197", 1), ("123456789012345678901234567890.5", 1),
    ("1e308", 1), ("1.7976931348623157e308", 1), ("1.7976931348623159e308", 3), ("1e309", 3), ("-1e309", 3), ("1e400", 3),
    ("1e-320", 1), ("4.9e-324", 1), ("2.4e-324", 1), ("2.5e-324", 1), ("2.4703282292062327e-324", 1), ("2.4703282292062328e-324", 1), ("1e-400", 1), ("-1e-400", 1),
    ("0e999999999999", 3), ("1e99999999999", 3), ("1e-99999999999", 3), ("0.0e-99999999999", 3), ("0e-999999999999", 3), ("-0e3000000000", 3),
    ("1e3000000000", 3), ("1e-3000000000", 3), ("0.000e+4000000000", 3),
    ("1.0", 1), ("1.5", 1), ("-2.5e-3", 1), ("1e0", 1), ("1E0", 1), ("1e+0", 1), ("1e-0", 1), ("1.0e00", 1), ("1e05", 1), ("0E-0", 1), ("-0e-0", 1),
    ("9007199254740993", 0), ("9007199254740993.0", 1), ("0.000001", 1), ("1e21", 1), ("1e22", 1), ("1e23", 1), ("8.5e-5", 1),
];

fn digits(rng: &mut Rng, n: u64, first_nonzero: bool) -> String {
    (0..n)
        .map(|i| {
            let d = if i == 0 && first_nonzero { 1 + rng.below(9) } else { rng.below(10) };
            (b'0' + d as u8) as char
        })
        .collect()
}

fn gen_num(rng: &mut Rng) -> (String, NumExp) {
    match rng.below(10) {
        0 | 1 | 2 => {
            let (s, k) = rng.pick(NUMS);
            let e = match k {
                0 => NumExp::Int(s.parse::<i64>().expect("NUMS int")),
                1 => NumExp::Float,
                2 => NumExp::AnyNum,
                _ => NumExp::MaybeErr,
            };
            (s.to_string(), e)
        }
        3 => {
            let i = rng.range(-1000, 1000);
            (i.to_string(), NumExp::Int(i))
        }
        4 => {
            let i = rng.next() as i64;
            (i.to_string(), NumExp::Int(i))
        }
        5 | 6 => {
            // <digits>.<digits>e<±exp>
            let mut s = String::new();
            if rng.chance(1, 3) {
                s.push('-');
            }
            if rng.chance(1, 4) {
                s.push('0');
            } else {
                let m = if rng.chance(1, 5) { 30 } else { 6 };
                let n = 1 + rng.below(m);
                s.push_str(&digits(rng, n, true));
            }
            let mut floaty = false;
            if rng.chance(2, 3) {
                floaty = true;
                s.push('.');
                let m = if rng.chance(1, 5) { 40 } else { 8 };
                let n = 1 + rng.below(m);
                s.push_str(&digits(rng, n, false));
            }
            if rng.chance(2, 3) || !floaty {
                s.push(if rng.chance(1, 2) { 'e' } else { 'E' });
                match rng.below(3) {
                    0 => s.push('+'),
                    1 => s.push('-'),
                    _ => {}
                }
                if rng.chance(1, 6) {
                    s.push('0');
                }
                let m = if rng.chance(1, 3) { 331 } else { 25 };
                let e = rng.below(m);
                s.push_str(&e.to_string());
            }
            let f: f64 = s.parse().expect("generated literal");
            let e = if f.is_finite() { NumExp::Float } else { NumExp::MaybeErr };
            (s, e)
        }
        _ => {
            // shortest round-trip spellings of an f64
            let f = loop {
                let bits = match rng.below(6) {
                    0 => (rng.range(-1000, 1000) as f64 / 8.0).to_bits(),
                    1 => rng.next() & 0x800f_ffff_ffff_ffff,
                    2 => (rng.next() & 0x800f_ffff_ffff_ffff) | (0x7fe << 52),
                    _ => rng.next(),
                };
                let f = f64::from_bits(bits);
                if f.is_finite() {
                    break f;
                }
            };
            let s = if rng.chance(1, 2) { format!("{:e}", f) } else { serde_json::to_string(&f).unwrap() };
            (s, NumExp::Bits(f.to_bits()))
        }
    }
}

fn gen_tv(rng: &mut Rng, depth: u32) -> TV {
    if depth == 0 || rng.chance(1, 2) {
        return match rng.below(8) {
            0 => TV::Null,
            1 => TV::Bool(rng.chance(1, 2)),
            2 | 3 | 4 => {
                let (s, e) = gen_num(rng);
                TV::Num(s, e)
            }
            _ => TV::Str(gen_jstring(rng)),
        };
    }
    if rng.chance(1, 2) {
        TV::Arr((0..rng.below(5)).map(|_| gen_tv(rng, depth - 1)).collect())
    } else {
        let n = rng.below(7);
        let dups = rng.chance(1, 5);
        let pool = rng.chance(1, 2);
        let mut kvs: Vec<(String, TV)> = vec![];
        for _ in 0..n {
            let k = if pool { rng.pick(KEYPOOL).to_string() } else { gen_jstring(rng) };
            if !dups && kvs.iter().any(|(x, _)| *x == k) {
                continue;
            }
            kvs.push((k, gen_tv(rng, depth - 1)));
        }
        TV::Obj(kvs)
    }
}

fn ws(rng: &mut Rng, o: &mut String) {
    let n = match rng.below(10) {
        0..=6 => 0,
        7 | 8 => 1,
        _ => 1 + rng.below(3),
    };
    for _ in 0..n {
        o.push(*rng.pick(&[' ', ' ', '\t', '\n', '\r']));
    }
}

fn hex4(rng: &mut Rng, u: u32, o: &mut String) {
    o.push_str("\\u");
    let mode = rng.below(3);
    for sh in [12u32, 8, 4, 0] {
        let d = std::char::from_digit((u >> sh) & 0xf, 16).unwrap();
        let up = match mode {
            0 => false,
            1 => true,
            _ => rng.chance(1, 2),
        };
        o.push(if up { d.to_ascii_uppercase() } else { d });
    }
}

fn print_str(rng: &mut Rng, s: &str, o: &mut String) {
    o.push('"');
    for c in s.chars() {
        let u = c as u32;
        match c {
            '"' => {
                if rng.chance(2, 3) { o.push_str("\\\"") } else { hex4(rng, u, o) }
            }
            '\\' => {
                if rng.chance(2, 3) { o.push_str("\\\\") } else { hex4(rng, u, o) }
            }
            '/' => match rng.below(3) {
                0 => o.push('/'),
                1 => o.push_str("\\/"),
                _ => hex4(rng, u, o),
            },
            _ if u < 0x20 => {
                let short = match u {
                    8 => Some("\\b"),
                    9 => Some("\\t"),
                    10 => Some("\\n"),
                    12 => Some("\\f"),
                    13 => Some("\\r"),
                    _ => None,
                };
                match short {
                    Some(e) if rng.chance(1, 2) => o.push_str(e),
                    _ => hex4(rng, u, o),
                }
            }
            _ => {
                if rng.chance(1, 8) {
                    if u >= 0x10000 {
                        let v = u - 0x10000;
                        hex4(rng, 0xd800 + (v >> 10), o);
                        hex4(rng, 0xdc00 + (v & 0x3ff), o);
                    } else {
                        hex4(rng, u, o);
                    }
                } else {
                    o.push(c);
                }
            }
        }
    }
    o.push('"');
}

fn print_tv(rng: &mut Rng, v: &TV, o: &mut String) {
    match v {
        TV::Null => o.push_str("null"),
        TV::Bool(b) => o.push_str(if *b { "true" } else { "false" }),
        TV::Num(s, _) => o.push_str(s),
        TV::Str(s) => print_str(rng, s, o),
        TV::Arr(xs) => {
            o.push('[');
            ws(rng, o);
            for (i, x) in xs.iter().enumerate() {
                if i > 0 {
                    o.push(',');
                    ws(rng, o);
                }
                print_tv(rng, x, o);
                ws(rng, o);
            }
            o.push(']');
        }
        TV::Obj(kvs) => {
            o.push('{');
            ws(rng, o);
            for (i, (k, x)) in kvs.iter().enumerate() {
                if i > 0 {
                    o.push(',');
                    ws(rng, o);
                }
                print_str(rng, k, o);
                ws(rng, o);
                o.push(':');
                ws(rng, o);
                print_tv(rng, x, o);
                ws(rng, o);
            }
            o.push('}');
        }
    }
}

fn print_text(rng: &mut Rng, v: &TV) -> String {
    let mut o = String::new();
    ws(rng, &mut o);
    print_tv(rng, v, &mut o);
    ws(rng, &mut o);
    o
}

const REPL: &[char] = &[',', ':', '[', ']', '{', '}', '"', '\\', '0', 'x', 'e', '.', '-', '+', ' ', '\u{1}'];

fn mutate(rng: &mut Rng, text: &str) -> String {
    let mut cs: Vec<char> = text.chars().collect();
    if cs.is_empty() {
        return rng.pick(REPL).to_string();
    }
    let i = rng.below(cs.len() as u64) as usize;
    match rng.below(7) {
        0 | 1 => cs.truncate(rng.below(cs.len() as u64 + 1) as usize),
        2 => {
            cs.remove(i);
        }
        3 => cs.insert(i, cs[i]),
        4 | 5 => cs[i] = *rng.pick(REPL),
        _ => cs.insert(i, *rng.pick(REPL)),
    }
    cs.into_iter().collect()
}

const FIXED_TEXTS: &[&str] = &[
    // commas, colons, keys
    "[1,]", "{\"a\":1,}", "[,1]", "[,]", "{,\"a\":1}", "{,}", "{\"a\" 1}", "{\"a\"}", "{1:2}", "{null:1}", "{true:1}", "{[]:1}", "{\"a\":1 \"b\":2}",
    "{\"a\":1:2}", "{\"a\",1}", "[\"a\":1]", "[1 2]", "[1:2]", "]", "}", ",", ":", "[}", "{]", "[1}", "{\"a\":1]",
    // idents
    "nul", "nulL", "truee", "falsy", "tru", "fals", "n", "t", "f", "Null", "TRUE", "null", "true", "false", "nullnull", "[nul]", "[truee]",
    // numbers
    "01", "-01", "00", "-00", "1.", "1.e5", ".5", "-", "+1", "1e", "1e+", "1e-", "1ee5", "1e5.5", "-.5", "0x10", "1_000", "- 1", "1 .5", "1e 5", "1 e5",
    "1.5.5", "1..5", "1.5e", "1.5e+", "1.5E-", "0.", "0.e1", "-0.", "0e", "0e+", "00.5", "0.00", "100", "1e+05", "1e-005", "-\"a\"", "-[1]", "-null", "--1",
    "[01]", "[1.]", "[-]", "[1e]", "{\"a\":01}", "1a", "1.5x", "0e1x", "12345678901234567890123x",
    // escapes
    "\"\\x\"", "\"\\u12\"", "\"\\u12G4\"", "\"\\u00é\"", "\"\\u0é\"", "\"\\u000é\"", "\"\\ud800\"", "\"\\ud800x\"", "\"\\ud800\\n\"", "\"\\ud800A\"", "\"\\udc00\"",
    "\"\\ud800\\ud800\"", "\"\\ud800\\udc00\"", "\"\\udbff\\udfff\"", "\"\\uDBFF\\uDFFF\"", "\"\\ud800\\u0041\"", "\"\\ud800\\ue000\"", "\"\\ud83d\\ude00\"", "\"\\uD83D\\uDE00\"",
    "\"\\udfff\"", "\"\\udbff\"", "\"\\ud7ff\"", "\"\\ue000\"", "\"\\u0000\"", "\"\\uffff\"", "\"\\ufffe\"", "\"\\u+123\"", "\"\\u-123\"", "\"\\U0041\"", "\"\\a\"", "\"\\'\"", "\"\\0\"",
    "\"\\\n\"", "\"\\ \"", "\"\\", "\"\\u", "\"\\u0", "\"\\u00", "\"\\u004", "\"\\u0041", "\"\\ud800\\", "\"\\ud800\\u", "\"\\ud800\\udc0", "\"\\ud800\\uDC00", "\"\\ud800\\udc0\"", "\"\\ud800\\ud\"",
    "\"\\b\\f\\n\\r\\t\\/\\\\\\\"\"", "\"\\u0022\\u005C\\u002f\"",
    // raw characters inside strings
    "\"a\u{1}b\"", "\"a\nb\"", "\"a\tb\"", "\"\u{0}\"", "\"\u{1f}\"", "\"\u{7f}\"", "\"\u{80}\"", "\"\u{ffff}\"", "\"\u{10ffff}\"", "\"é€😀\"", "\"\r\"",
    // unterminated
    "\"abc", "\"abc\\\"", "\"", "[1", "[1,", "[", "{", "{\"a\"", "{\"a\":", "{\"a\":1", "{\"a\":1,", "{\"a", "[\"a", "[[]", "[{}", "{\"a\":[}",
    // empty / whitespace
    "", " ", " \t\n\r ", "\n", "\n\n\n", "\r\n1", " 1 ", "\t[\n]\r",
    // text after the first value (the real code ignores it)
    "1 2", "[1]]", "nullx", "{} x", "[] []", "1,", "\"a\"\"b\"", "true false", "0 ", "[]]", "{}}", "null,", "1]", "\"a\" :", "[1] \u{1}", "1\u{0}", "{}\"",
    "0 0", "00 ", "-0 1", "1.5 x", "1e5 x", "truex", "falsetrue", "[1]x", "\"a\"x", "1 \"", "1 \\", "1\n]", "1 é", "1é",
    // not JSON
    "NaN", "Infinity", "-Infinity", "-NaN", "nan", "inf", "'a'", "{'a':1}", "// c\n1", "/* c */ 1", "1 // c", "[1 /* c */]", "[1,//\n2]", "undefined", "None", "#", "@1",
    "\u{feff}1", "\u{a0}1", "1\u{a0}", "\u{2028}1", "\u{b}1", "\u{c}1", "1\u{c}", "1\u{b}", "[\u{c}]", "\u{3000}1", "é", "\"", "\\", "\\u0031",
    // small valid ones, duplicate keys
    "[[]]", "{{}}", "{\"a\":{}}", "{\"a\":[]}", "[{}]", "[{},[]]", "{\"\":0}", "{\"\":0,\"\":1}", "{\"a\":1,\"a\":2}", "{\"b\":1,\"a\":2,\"b\":3}",
    "{\"a\":1,\"\\u0061\":2}", "{\"c\":1,\"b\":2,\"a\":3}", "{\"a\":1,\"b\":2,\"c\":3}", "{\"é\":1,\"e\":2,\"\\u00e9\":3,\"z\":4}", "{\"a\":{\"a\":{\"a\":1}}}",
    "{\"\u{10ffff}\":1,\"\u{ffff}\":2}", "{\"aa\":1,\"a\":2,\"\":3,\"ab\":4,\"b\":5}",
];

pub fn run_de(drv: &mut Drv, out: &mut Out, seed: u64, big: bool) {
    for t in FIXED_TEXTS {
        run_jde(drv, out, t, None, false);
    }
    // every number spelling on its own, bare and inside an array
    for (s, k) in NUMS {
        let e = match k {
            0 => NumExp::Int(s.parse::<i64>().expect("NUMS int")),
            1 => NumExp::Float,
            2 => NumExp::AnyNum,
            _ => NumExp::MaybeErr,
        };
        let tv = TV::Num(s.to_string(), e.clone());
        run_jde(drv, out, s, if e == NumExp::MaybeErr { None } else { Some(&tv) }, false);
        let neg = format!("[-{}]", s.trim_start_matches('-'));
        run_jde(drv, out, &neg, None, false);
    }
    // nesting depth
    for d in [1usize, 2, 126, 127, 128, 129, 200] {
        let texts = [
            format!("{}{}", "[".repeat(d), "]".repeat(d)),
            "[".repeat(d),
            format!("{}1{}", "{\"a\":".repeat(d), "}".repeat(d)),
            "{\"a\":".repeat(d),
            format!("{}{}{}", "[".repeat(d - 1), "{}", "]".repeat(d - 1)),
            format!("{}\"x\"{}", "[{\"a\":".repeat(d / 2), "}]".repeat(d / 2)),
            format!("{}0", "[".repeat(d)),
            format!("{}{} x", "[".repeat(d), "]".repeat(d)),
        ];
        for t in &texts {
            run_jde(drv, out, t, None, false);
        }
    }
    // integers of 309 / 310 digits: the largest finite value, and overflow
    for t in [format!("17976931348623157{}", "0".repeat(292)), format!("17976931348623159{}", "0".repeat(292)), format!("1{}", "0".repeat(308)),
        format!("1{}", "0".repeat(309)), format!("-1{}", "0".repeat(309)), format!("0.{}1", "0".repeat(330)), format!("[1{}.5e-300]", "0".repeat(400))] {
        run_jde(drv, out, &t, None, false);
    }
    let mut rng = Rng::new(seed, 1912);
    for _ in 0..(if big { 14400 } else { 950 }) {
        out.count("jde:generated");
        let valid = rng.chance(11, 20);
        let depth = if valid { *rng.pick(&[0u32, 1, 2, 3, 4]) } else { *rng.pick(&[0u32, 1, 1, 2, 2, 3]) };
        let tv = gen_tv(&mut rng, depth);
        let text = print_text(&mut rng, &tv);
        if valid {
            let (dup, maybe_err) = tv_flags(&tv);
            if dup {
                out.count("jde:valid-text-with-duplicate-keys");
            }
            run_jde(drv, out, &text, if dup || maybe_err { None } else { Some(&tv) }, false);
        } else {
            let mut t = mutate(&mut rng, &text);
            if rng.chance(1, 6) {
                t = mutate(&mut rng, &t);
            }
            out.count("jde:mutated-text");
            run_jde(drv, out, &t, None, false);
        }
    }
}
