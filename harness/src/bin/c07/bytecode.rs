//! Dump of the real compiled bytecode (`CompiledFunction`) + the `Split` arity annotation taken
//! from the core IR in emission order + an independent (Rust) frame-height interpreter.
use gluon::compiler_pipeline::Compileable;
use gluon::vm::compiler::CompiledFunction;
use gluon::vm::core::{Expr, Named, Pattern};
use gluon::vm::types::Instruction;
use gluon::vm::types::Instruction::*;
use gluon::{Thread, ThreadExt};
use gluon_base::types::{ArcType, Type, TypeExt};

/// One function of the dump. `path` = indices through `inner_functions` from the module function.
#[derive(Clone, Debug)]
pub struct FnDump {
    pub path: Vec<usize>,
    pub name: String,
    pub args: u32,
    pub max_stack_size: u32,
    pub instrs: Vec<Instruction>,
    /// arity of the k-th `Split` instruction (in pc order); `None` = annotation unavailable
    pub splits: Option<Vec<u32>>,
    pub n_inner: usize,
    /// shape of the core expression of this function for the `TailPos` model and, per emitted call
    /// in emission order, (the property says it is in tail position, innermost tail context)
    pub tail: Option<(String, Vec<(bool, String)>)>,
}

/// Annotation tree mirroring the compiler's traversal (vm/src/compiler.rs `compile_`): one node per
/// compiled function, its Split arities in emission order and its inner functions in
/// `inner_functions` order.
#[derive(Default, Debug)]
struct Ann {
    splits: Vec<u32>,
    ok: bool,
    inner: Vec<Ann>,
    shape: String,
    calls: Vec<(bool, String)>,
}

fn record_fields(t: &ArcType) -> Option<(usize, bool)> {
    let t = t.remove_forall();
    match &**t {
        Type::Record(_) => {
            let mut it = t.row_iter();
            let n = it.by_ref().count();
            let poly = **it.current_type() != Type::EmptyRow;
            Some((n, poly))
        }
        _ => None,
    }
}

/// compiler.rs:1035-1114 `compile_let_pattern` for a record pattern: `Some(Some(k))` a `Split` of
/// k fields is emitted, `Some(None)` the GetOffset path (no Split), `None` cannot tell (alias).
fn record_split(typ: &ArcType, nfields_pat: usize) -> Option<Option<u32>> {
    let (n, poly) = record_fields(typ)?;
    if nfields_pat == 0 || (n > 4 && n / nfields_pat >= 4) || poly {
        Some(None)
    } else {
        Some(Some(n as u32))
    }
}

const BINOPS: &[&str] = &[
    "#Int+", "#Int-", "#Int*", "#Int/", "#Int<", "#Char<", "#Int==", "#Char==", "#Byte+", "#Byte-", "#Byte*",
    "#Byte/", "#Byte<", "#Byte==", "#Float+", "#Float-", "#Float*", "#Float/", "#Float<", "#Float==",
];

/// Mirrors the traversal of vm/src/compiler.rs `compile_` / `compile_primitive` (emission order).
/// Returns the shape of `e` for the `TailPos` model; records Split arities and, for every call
/// instruction that will be emitted, whether the PROPERTY puts it in tail position: a call is a tail
/// call iff its value is the value of the function body — body of `let`, alternative of `match`
/// (`if`), right operand of `&&` / `||`, all the way up.
fn walk(e: &Expr, a: &mut Ann, tail: bool, ctx: &str) -> String {
    match e {
        Expr::Const(..) | Expr::Ident(..) => "a".into(),
        Expr::Let(lb, body) => match &lb.expr {
            Named::Expr(b) => {
                let sb = walk(b, a, false, "let-bind");
                let sbody = walk(body, a, tail, if tail { "let-body" } else { ctx });
                format!("(let {} {})", sb, sbody)
            }
            Named::Recursive(cs) => {
                let mut vals = vec![];
                for c in cs {
                    if c.args.is_empty() {
                        vals.push(walk(c.expr, a, false, "rec-value"));
                    } else {
                        let mut inner = Ann { ok: true, ..Default::default() };
                        inner.shape = walk(c.expr, &mut inner, true, "lambda-body");
                        a.inner.push(inner);
                    }
                }
                let sbody = walk(body, a, tail, if tail { "let-body" } else { ctx });
                format!("(rec ({}) {})", vals.join(" "), sbody)
            }
        },
        Expr::Call(f, args) => {
            if let Expr::Ident(id, _) = f {
                let full = id.name.as_str();
                let decl = id.name.declared_name();
                let prim = full == "&&" || full == "||" || full.starts_with('#');
                if prim && decl != "#error" && args.len() == 2 {
                    if decl == "&&" || decl == "||" {
                        let l = walk(&args[0], a, false, "bool-lhs");
                        let lab = if decl == "&&" { "and-rhs" } else { "or-rhs" };
                        let r = walk(&args[1], a, tail, if tail { lab } else { ctx });
                        return format!("({} {} {})", if decl == "&&" { "and" } else { "or" }, l, r);
                    }
                    let l = walk(&args[0], a, false, "operand");
                    let r = walk(&args[1], a, false, "operand");
                    if BINOPS.contains(&decl) {
                        return format!("(bin {} {})", l, r);
                    }
                    a.calls.push((false, "primitive".into()));
                    return format!("(prim {} {})", l, r);
                }
                if !prim && decl.chars().next().map_or(false, |c| c.is_uppercase()) {
                    let xs: Vec<String> = args.iter().map(|x| walk(x, a, false, "ctor-arg")).collect();
                    return format!("(ctor ({}))", xs.join(" "));
                }
            }
            let sf = walk(f, a, false, "callee");
            let xs: Vec<String> = args.iter().map(|x| walk(x, a, false, "argument")).collect();
            a.calls.push((tail, ctx.to_string()));
            format!("(call {} ({}))", sf, xs.join(" "))
        }
        Expr::Match(scrut, alts) => {
            let ss = walk(scrut, a, false, "scrutinee");
            let mut lits = vec![];
            for alt in alts.iter() {
                let is_str = matches!(&alt.pattern, Pattern::Literal(gluon::vm::core::Literal::String(_)));
                if is_str {
                    a.calls.push((false, "string-pattern-test".into()));
                }
                lits.push(is_str);
            }
            let mut out = vec![];
            for (alt, is_str) in alts.iter().zip(lits) {
                let kind = match &alt.pattern {
                    Pattern::Constructor(_, args) => {
                        a.splits.push(args.len() as u32);
                        "match-alt:constructor"
                    }
                    Pattern::Record { typ, fields } => {
                        match record_split(typ, fields.len()) {
                            Some(Some(k)) => a.splits.push(k),
                            Some(None) => (),
                            None => a.ok = false,
                        }
                        "match-alt:record"
                    }
                    Pattern::Ident(_) => "match-alt:variable",
                    Pattern::Literal(_) => "match-alt:literal",
                };
                let sb = walk(alt.expr, a, tail, if tail { kind } else { ctx });
                out.push(format!("({} {})", if is_str { 1 } else { 0 }, sb));
            }
            format!("(match {} ({}))", ss, out.join(" "))
        }
        Expr::Data(_, xs, _) => {
            let v: Vec<String> = xs.iter().map(|x| walk(x, a, false, "data-field")).collect();
            format!("(data ({}))", v.join(" "))
        }
        Expr::Cast(x, _) => format!("(cast {})", walk(x, a, tail, ctx)),
    }
}

fn flatten(f: &CompiledFunction, ann: Option<&Ann>, path: Vec<usize>, out: &mut Vec<FnDump>) {
    let n_split = f.instructions.iter().filter(|i| matches!(i, Split)).count();
    let splits = match ann {
        Some(a) if a.ok && a.splits.len() == n_split && a.inner.len() == f.inner_functions.len() => {
            Some(a.splits.clone())
        }
        _ => None,
    };
    let inner_ok = matches!(ann, Some(a) if a.inner.len() == f.inner_functions.len());
    let n_calls = f.instructions.iter().filter(|i| matches!(i, Call(_) | TailCall(_))).count();
    let tail = match ann {
        Some(a) if inner_ok && a.calls.len() == n_calls => Some((a.shape.clone(), a.calls.clone())),
        _ => None,
    };
    out.push(FnDump {
        path: path.clone(),
        name: f.id.declared_name().to_string(),
        args: f.args,
        max_stack_size: f.max_stack_size,
        instrs: f.instructions.clone(),
        splits,
        n_inner: f.inner_functions.len(),
        tail,
    });
    for (i, g) in f.inner_functions.iter().enumerate() {
        let mut p = path.clone();
        p.push(i);
        let sub = if inner_ok { ann.map(|a| &a.inner[i]) } else { None };
        flatten(g, sub, p, out);
    }
}

pub struct Compiled {
    pub fns: Vec<FnDump>,
    pub value: gluon::compiler_pipeline::CompileValue<()>,
}

/// Compile `src` with the real pipeline (the VM's current settings) and dump every function.
pub fn compile(vm: &Thread, name: &str, src: &str) -> Result<Compiled, String> {
    let r = gv::catch(|| {
        futures::executor::block_on(src.compile(
            &mut vm.module_compiler(&mut vm.get_database()),
            vm,
            name,
            src,
            None,
        ))
        .map_err(|e| e.to_string())
    });
    let cv = match r {
        Err(p) => return Err(format!("PANIC {}", p)),
        Ok(Err(e)) => return Err(e),
        Ok(Ok(cv)) => cv,
    };
    let mut ann = Ann { ok: true, ..Default::default() };
    ann.shape = walk(cv.core_expr.value.expr(), &mut ann, true, "module-body");
    let mut fns = vec![];
    flatten(&cv.module.function, Some(&ann), vec![], &mut fns);
    Ok(Compiled { fns, value: cv.map(|_| ()) })
}

/// Canonical instruction text for the protocol: `(<name> <n>*)`.
pub fn instr_sexp(i: &Instruction) -> String {
    match *i {
        PushInt(_) => "(pushc)".into(),
        PushByte(_) => "(pushc)".into(),
        PushFloat(_) => "(pushc)".into(),
        PushString(_) => "(pushc)".into(),
        PushUpVar(_) => "(pushc)".into(),
        Push(i) => format!("(push {})", i),
        Call(n) => format!("(call {})", n),
        TailCall(n) => format!("(tailcall {})", n),
        ConstructVariant { args, .. } => format!("(construct {})", args),
        ConstructPolyVariant { args, .. } => format!("(construct {})", args),
        ConstructRecord { args, .. } => format!("(construct {})", args),
        ConstructArray(args) => format!("(construct {})", args),
        NewVariant { .. } | NewRecord { .. } | NewClosure { .. } => "(new)".into(),
        CloseData { index } => format!("(closedata {})", index),
        GetOffset(_) | GetField(_) => "(get)".into(),
        Split => "(split)".into(),
        TestTag(_) | TestPolyTag(_) => "(test)".into(),
        Jump(t) => format!("(jump {})", t),
        CJump(t) => format!("(cjump {})", t),
        Pop(n) => format!("(pop {})", n),
        Slide(n) => format!("(slide {})", n),
        MakeClosure { upvars, .. } => format!("(makeclosure {})", upvars),
        CloseClosure(n) => format!("(closeclosure {})", n),
        AddInt | SubtractInt | MultiplyInt | DivideInt | IntLT | IntEQ | AddByte | SubtractByte
        | MultiplyByte | DivideByte | ByteLT | ByteEQ | AddFloat | SubtractFloat | MultiplyFloat
        | DivideFloat | FloatLT | FloatEQ => "(binop)".into(),
        Return => "(ret)".into(),
    }
}

pub fn fn_sexp(f: &FnDump) -> String {
    let ins: Vec<String> = f.instrs.iter().map(instr_sexp).collect();
    let sp: Vec<String> = f.splits.clone().unwrap_or_default().iter().map(|k| k.to_string()).collect();
    format!("(fn {} {} ({}) ({}))", f.args, f.max_stack_size, ins.join(" "), sp.join(" "))
}

/// What one instruction does to the frame height in the running VM, read off the arms of
/// vm/src/thread.rs `execute_` (2157-2525), NOT off `Instruction::adjust`:
/// `(operands needed, pushed after popping, successors)`; `None` = not supported here.
pub enum Flow {
    /// falls through to pc+1
    Next,
    Jump(usize),
    Branch(usize),
    /// leaves the function
    Stop,
}

pub fn effect(i: &Instruction, height: u32, split_arity: Option<u32>) -> Option<(u32, i64, Flow)> {
    Some(match *i {
        PushInt(_) | PushByte(_) | PushFloat(_) | PushString(_) | PushUpVar(_) => (0, 1, Flow::Next),
        // thread.rs:2158-2170: `self.stack.get(i)` must exist
        Push(i) => (if i < height { 0 } else { u32::MAX }, 1, Flow::Next),
        // function + n arguments are replaced by the result (thread.rs:2183, 2549 slide)
        Call(n) => (n + 1, -(n as i64), Flow::Next),
        TailCall(n) => (n + 1, -(n as i64), Flow::Stop),
        ConstructVariant { args, .. }
        | ConstructPolyVariant { args, .. }
        | ConstructRecord { args, .. }
        | ConstructArray(args) => (args, 1 - args as i64, Flow::Next),
        NewVariant { .. } | NewRecord { .. } | NewClosure { .. } => (0, 1, Flow::Next),
        // pops `data.fields.len()`: not carried by the instruction
        CloseData { .. } => return None,
        GetOffset(_) | GetField(_) => (1, 0, Flow::Next),
        Split => {
            let k = split_arity?;
            (1, k as i64 - 1, Flow::Next)
        }
        TestTag(_) | TestPolyTag(_) => (1, 1, Flow::Next),
        Jump(t) => (0, 0, Flow::Jump(t as usize)),
        CJump(t) => (1, -1, Flow::Branch(t as usize)),
        Pop(n) => (n, -(n as i64), Flow::Next),
        Slide(n) => (n + 1, -(n as i64), Flow::Next),
        MakeClosure { upvars, .. } => (upvars, 1 - upvars as i64, Flow::Next),
        // thread.rs:2474-2495: pops the upvars and the pushed copy of the closure
        CloseClosure(n) => (n + 1, -(n as i64) - 1, Flow::Next),
        AddInt | SubtractInt | MultiplyInt | DivideInt | IntLT | IntEQ | AddByte | SubtractByte
        | MultiplyByte | DivideByte | ByteLT | ByteEQ | AddFloat | SubtractFloat | MultiplyFloat
        | DivideFloat | FloatLT | FloatEQ => (2, -1, Flow::Next),
        Return => (1, 0, Flow::Stop),
    })
}

#[derive(Debug, Clone, PartialEq)]
pub enum Heights {
    /// height before every reachable pc (None = unreachable), peak height
    Ok(Vec<Option<u32>>, u32),
    Unsupported(String),
    /// (pc, what)
    Bad(usize, String),
}

/// Independent abstract interpretation of the frame height (entry height = `args`).
pub fn heights(f: &FnDump) -> Heights {
    let splits = match &f.splits {
        Some(s) => s.clone(),
        None => {
            if f.instrs.iter().any(|i| matches!(i, Split)) {
                return Heights::Unsupported("split-annotation".into());
            }
            vec![]
        }
    };
    let mut split_ix = vec![None; f.instrs.len()];
    let mut k = 0;
    for (pc, i) in f.instrs.iter().enumerate() {
        if matches!(i, Split) {
            split_ix[pc] = Some(splits[k]);
            k += 1;
        }
    }
    let n = f.instrs.len();
    let mut h: Vec<Option<u32>> = vec![None; n];
    let mut todo = vec![(0usize, f.args)];
    let mut peak = f.args;
    while let Some((pc, height)) = todo.pop() {
        if pc >= n {
            return Heights::Bad(pc, "pc-out-of-range".into());
        }
        match h[pc] {
            Some(x) if x == height => continue,
            Some(x) => return Heights::Bad(pc, format!("join-mismatch {} vs {}", x, height)),
            None => h[pc] = Some(height),
        }
        let (need, delta, flow) = match effect(&f.instrs[pc], height, split_ix[pc]) {
            Some(x) => x,
            None => return Heights::Unsupported(format!("{:?}", f.instrs[pc]).split(|c| c == ' ' || c == '(').next().unwrap().to_string()),
        };
        if need > height {
            return Heights::Bad(pc, format!("underflow need {} have {}", need, height));
        }
        let after = (height as i64 + delta) as u32;
        peak = peak.max(after);
        match flow {
            Flow::Next => todo.push((pc + 1, after)),
            Flow::Jump(t) => todo.push((t, after)),
            Flow::Branch(t) => {
                todo.push((pc + 1, after));
                todo.push((t, after));
            }
            Flow::Stop => (),
        }
    }
    Heights::Ok(h, peak)
}
