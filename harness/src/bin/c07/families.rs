//! Recursion-heavy / allocation-heavy program families and the event scripts that describe what
//! they do to the frame stack (for the `CallStack` model).
use crate::bytecode::{heights, FnDump, Heights};
use gluon::vm::types::Instruction;

pub const L_TYPE: &str = "type L = | Nil | Cons Int L\n";

#[derive(Clone, Debug)]
pub struct Family {
    pub name: String,
    /// tail = must run in constant stack
    pub tail: bool,
    /// fewer small sizes (the context families: the interesting part is constancy at large n)
    pub light: bool,
}

const BASE_FAMILIES: &[(&str, bool)] = &[
    ("nontail-direct", false),
    ("nontail-mutual", false),
    ("nontail-closure", false),
    ("tail-direct", true),
    ("tail-mutual", true),
    ("tail-closure", true),
    ("tail-overapply", true),
    ("tail-partial", true),
];

/// One family per tail context of the language (vm/src/compiler.rs: every place where
/// `tail_position` is handed on), plus mutual recursion through several of them.
pub const CONTEXT_FAMILIES: &[&str] = &[
    "tail-or-rhs",
    "tail-and-rhs",
    "tail-if-then",
    "tail-match-literal",
    "tail-match-constructor",
    "tail-match-record",
    "tail-match-variable",
    "tail-let-body",
    "tail-block-last",
    "tail-lambda-body",
    "tail-nested-bool",
    "tail-mutual-contexts",
    "tail-mutual-bool",
];

/// All stack families of a run: the fixed ones and `n_random` random compositions of tail contexts.
pub fn stack_families(seed: u64, n_random: u64) -> Vec<Family> {
    let mut v: Vec<Family> = BASE_FAMILIES.iter().map(|(n, t)| Family { name: n.to_string(), tail: *t, light: false }).collect();
    for n in CONTEXT_FAMILIES {
        v.push(Family { name: n.to_string(), tail: true, light: true });
    }
    for i in 0..n_random {
        v.push(Family { name: format!("tail-random:{}", seed.wrapping_mul(7919).wrapping_add(i)), tail: true, light: true });
    }
    v
}

pub fn is_tail(name: &str) -> bool {
    name.starts_with("tail-")
}

fn pad(k: usize) -> String {
    " ".repeat(k)
}

/// Expression whose value is that of the recursive call `loop (n #Int- 1)` (for n > 0), nested in
/// `d` random tail contexts. The text starts right after an opening parenthesis at column `ind`;
/// continuation lines are indented to `ind`.
fn nest(rng: &mut gv::rng::Rng, d: u64, ind: usize, used: &mut Vec<&'static str>) -> String {
    if d == 0 {
        return "loop (n #Int- 1)".into();
    }
    let k = rng.below(11);
    let inner_ind = ind + 4;
    let mut sub = |rng: &mut gv::rng::Rng, used: &mut Vec<&'static str>| format!("\n{}({})", pad(inner_ind), nest(rng, d - 1, inner_ind, used));
    let t = "(0 #Int< 1)";
    let f = "(1 #Int< 0)";
    let _ = t;
    match k {
        0 => {
            used.push("or-rhs");
            format!("(n #Int< 0) ||{}", sub(rng, used))
        }
        1 => {
            used.push("and-rhs");
            format!("(0 #Int< n) &&{}", sub(rng, used))
        }
        2 => {
            used.push("if-then");
            format!("if 0 #Int< n then{}\n{}else {}", sub(rng, used), pad(ind), f)
        }
        3 => {
            used.push("if-else");
            format!("if n #Int< 0 then {} else{}", f, sub(rng, used))
        }
        4 => {
            used.push("match-literal");
            format!("match n with\n{p}| 0 -> {f}\n{p}| _ ->{}", sub(rng, used), p = pad(ind), f = f)
        }
        5 => {
            used.push("match-constructor");
            format!("match Cons n Nil with\n{p}| Cons h t ->{}\n{p}| Nil -> {f}", sub(rng, used), p = pad(ind), f = f)
        }
        6 => {
            used.push("match-record");
            format!("match {{ a = n, b = 1 }} with\n{p}| {{ a, b }} ->{}", sub(rng, used), p = pad(ind))
        }
        7 => {
            used.push("let-body");
            format!("let m = n #Int+ 1 in{}", sub(rng, used))
        }
        8 => {
            used.push("lambda-body");
            format!("(\\u ->{}) n", sub(rng, used))
        }
        9 => {
            used.push("match-variable");
            format!("match n with\n{p}| k ->{}", sub(rng, used), p = pad(ind))
        }
        _ => {
            used.push("or-and");
            let inner2 = ind + 8;
            format!(
                "(n #Int== (0 #Int- 1)) ||\n{}((0 #Int< n) &&\n{}({}))",
                pad(inner_ind),
                pad(inner2),
                nest(rng, d - 1, inner2, used)
            )
        }
    }
}

/// A random nest (depth 1..5) of tail contexts around the recursive call of a Bool-valued loop:
/// every wrapper keeps the value of the inner expression (for n > 0), so the program yields True.
pub fn random_source(seed: u64, n: u64) -> (String, Vec<&'static str>) {
    let mut rng = gv::rng::Rng::new(seed, 0xC07F);
    let depth = 1 + rng.below(5);
    let mut used = vec![];
    let e = nest(&mut rng, depth, 8, &mut used);
    (
        format!("{}rec let loop n =\n    if n #Int< 1 then (0 #Int< 1) else\n        ({})\nloop {}\n", L_TYPE, e, n),
        used,
    )
}

pub fn source(name: &str, n: u64) -> String {
    match name {
        "nontail-direct" => format!(
            "rec let f n = if n #Int== 0 then 0 else 1 #Int+ f (n #Int- 1)\nf {}\n", n),
        "nontail-mutual" => format!(
            "rec\nlet ping n = if n #Int== 0 then 0 else 1 #Int+ pong (n #Int- 1)\nlet pong n = if n #Int== 0 then 0 else 2 #Int+ ping (n #Int- 1)\nin\nping {}\n", n),
        // the recursive call goes through a closure argument that captures `go`
        "nontail-closure" => format!(
            "rec let go k n = if n #Int== 0 then 0 else 1 #Int+ k (n #Int- 1)\nrec let self n = go self n\nself {}\n", n),
        "tail-direct" => format!(
            "rec let loop n acc = if n #Int== 0 then acc else loop (n #Int- 1) (acc #Int+ 1)\nloop {} 0\n", n),
        "tail-mutual" => format!(
            "rec\nlet even n = if n #Int== 0 then 1 else odd (n #Int- 1)\nlet odd n = if n #Int== 0 then 0 else even (n #Int- 1)\nin\neven {}\n", n),
        // tail call of an unknown closure taken from an argument
        "tail-closure" => format!(
            "rec let go k n acc = if n #Int== 0 then acc else k (n #Int- 1) (acc #Int+ 1)\nrec let self n acc = go self n acc\nself {} 0\n", n),
        // `h` takes one argument and returns a function: every call `h a b` is an over-application
        "tail-overapply" => format!(
            "rec let h n =\n    let g acc = if n #Int== 0 then acc else h (n #Int- 1) (acc #Int+ 1)\n    g\nh {} 0\n", n),
        // the loop continues through a partial application of itself
        "tail-partial" => format!(
            "rec let loop k n acc = if n #Int== 0 then acc else (loop k) (n #Int- 1) (acc #Int+ k)\nloop 1 {} 0\n", n),
        "tail-or-rhs" => format!("rec let loop i n = i #Int== n || loop (i #Int+ 1) n\nloop 0 {}\n", n),
        "tail-and-rhs" => format!("rec let loop i n = i #Int< n && loop (i #Int+ 1) n\nloop 0 {}\n", n),
        "tail-if-then" => format!(
            "rec let loop n acc = if 0 #Int< n then loop (n #Int- 1) (acc #Int+ 1) else acc\nloop {} 0\n", n),
        "tail-match-literal" => format!(
            "rec let loop n acc =\n    match n with\n    | 0 -> acc\n    | _ -> loop (n #Int- 1) (acc #Int+ 1)\nloop {} 0\n", n),
        "tail-match-constructor" => format!(
            "type St = | Stop | Go Int\nrec let loop x acc =\n    match x with\n    | Stop -> acc\n    | Go k -> loop (if k #Int< 2 then Stop else Go (k #Int- 1)) (acc #Int+ 1)\nloop (if {n} #Int< 1 then Stop else Go {n}) 0\n", n = n),
        "tail-match-record" => format!(
            "rec let loop r =\n    match r with\n    | {{ n, acc }} -> if n #Int== 0 then acc else loop {{ n = n #Int- 1, acc = acc #Int+ 1 }}\nloop {{ n = {}, acc = 0 }}\n", n),
        "tail-match-variable" => format!(
            "rec let loop n acc =\n    match n #Int- 1 with\n    | m -> if n #Int== 0 then acc else loop m (acc #Int+ 1)\nloop {} 0\n", n),
        "tail-let-body" => format!(
            "rec let loop n acc =\n    if n #Int== 0 then acc else\n        let m = n #Int- 1\n        let a = acc #Int+ 1\n        loop m a\nloop {} 0\n", n),
        "tail-block-last" => format!(
            "rec let loop n acc =\n    if n #Int== 0 then acc else\n        let _ = ()\n        let _ = acc\n        loop (n #Int- 1) (acc #Int+ 1)\nloop {} 0\n", n),
        "tail-lambda-body" => format!(
            "rec let loop n acc = if n #Int== 0 then acc else (\\m a -> loop m a) (n #Int- 1) (acc #Int+ 1)\nloop {} 0\n", n),
        "tail-nested-bool" => format!(
            "rec let loop i n = (i #Int== n) || ((i #Int< n) && ((n #Int< i) || loop (i #Int+ 1) n))\nloop 0 {}\n", n),
        "tail-mutual-contexts" => format!(
            "rec\nlet a n = n #Int== 0 || b (n #Int- 1)\nlet b n =\n    match n with\n    | 0 -> (0 #Int< 1)\n    | _ -> c (n #Int- 1)\nlet c n = n #Int== 0 || ((0 #Int< n) && (let m = n #Int- 1 in a m))\nin\na {}\n", n),
        "tail-mutual-bool" => format!(
            "rec\nlet p n = n #Int< 1 || q (n #Int- 1)\nlet q n = 0 #Int< n && p (n #Int- 1)\nin\np {}\n", n),
        r if r.starts_with("tail-random:") => random_source(r["tail-random:".len()..].parse().unwrap(), n).0,
        _ => panic!("unknown family {}", name),
    }
}

/// The value the family must produce (None: whatever the run without a limit produced).
pub fn expected_value(name: &str, n: u64) -> Option<String> {
    let v = match name {
        "nontail-direct" | "nontail-closure" => n,
        "nontail-mutual" => n / 2 * 3 + (n % 2),
        "tail-direct" | "tail-closure" | "tail-overapply" | "tail-partial" | "tail-if-then" | "tail-match-literal"
        | "tail-match-constructor" | "tail-match-record" | "tail-match-variable" | "tail-let-body" | "tail-block-last"
        | "tail-lambda-body" => n,
        "tail-mutual" => if n % 2 == 0 { 1 } else { 0 },
        _ => return None,
    };
    Some(format!("(int {})", v))
}

/// Script builder: tracks the height of every active frame so that body segments become
/// `(p k)` / `(q k)` events; emits the protocol text.
pub struct Sim<'a> {
    pub fns: &'a [FnDump],
    hs: Vec<Vec<Option<u32>>>,
    /// (fn index in `fns`, current height, caller height after this frame returns)
    frames: Vec<(usize, u32, u32)>,
    host_h: u32,
    pub out: Vec<String>,
    pub emit: bool,
}

#[derive(Debug)]
pub struct SimError(pub String);

impl<'a> Sim<'a> {
    pub fn new(fns: &'a [FnDump]) -> Result<Sim<'a>, SimError> {
        let mut hs = vec![];
        for f in fns {
            match heights(f) {
                Heights::Ok(h, _) => hs.push(h),
                x => return Err(SimError(format!("heights of {}: {:?}", f.name, x))),
            }
        }
        Ok(Sim { fns, hs, frames: vec![], host_h: 0, out: vec![], emit: true })
    }
    /// table for the model: index 0 = host frame, i+1 = fns[i]
    pub fn tbl(&self) -> String {
        let mut s = String::from("(0 1)");
        for f in self.fns {
            s.push_str(&format!(" ({} {})", f.args, f.max_stack_size));
        }
        s
    }
    fn e(&mut self, s: String) {
        if self.emit {
            self.out.push(s);
        }
    }
    pub fn fn_named(&self, name: &str) -> usize {
        self.fns.iter().position(|f| f.name == name).unwrap_or_else(|| panic!("no function {}", name))
    }
    /// the host pushes the module closure and calls it (thread.rs:1204-1216)
    pub fn start(&mut self) {
        self.e("(p 1)".into());
        self.e("(c 1 0 0)".into());
        self.host_h = 1;
        self.frames.push((0, self.fns[0].args, 0));
    }
    /// exits (Call / TailCall / Return) of function `fi` in pc order
    fn exits(&self, fi: usize) -> Vec<usize> {
        self.fns[fi]
            .instrs
            .iter()
            .enumerate()
            .filter(|(_, i)| matches!(i, Instruction::Call(_) | Instruction::TailCall(_) | Instruction::Return))
            .map(|(pc, _)| pc)
            .collect()
    }
    /// move the current frame to the height before its k-th exit instruction; returns it
    pub fn at(&mut self, k: usize) -> Instruction {
        let (fi, h, _) = *self.frames.last().unwrap();
        let pc = self.exits(fi)[k];
        let target = self.hs[fi][pc].unwrap_or_else(|| panic!("exit {} of {} unreachable", k, self.fns[fi].name));
        if target > h {
            self.e(format!("(p {})", target - h));
        } else if target < h {
            self.e(format!("(q {})", h - target));
        }
        self.frames.last_mut().unwrap().1 = target;
        self.fns[fi].instrs[pc].clone()
    }
    fn n_of(i: &Instruction) -> u32 {
        match i {
            Instruction::Call(n) | Instruction::TailCall(n) => *n,
            _ => panic!("not a call: {:?}", i),
        }
    }
    /// at exit k (a `Call`): call closure `g` (held arguments `held`), entering its frame
    /// (exact arity) or not (partial application result)
    pub fn call(&mut self, k: usize, g: usize, held: u32) {
        let i = self.at(k);
        assert!(matches!(i, Instruction::Call(_)), "exit {} is {:?}", k, i);
        let n = Self::n_of(&i);
        self.e(format!("(c {} {} {})", g + 1, held, n));
        let h = self.frames.last().unwrap().1;
        let after = h - n;
        self.dispatch(g, held + n, after);
    }
    fn dispatch(&mut self, g: usize, total: u32, after: u32) {
        let args = self.fns[g].args;
        if total < args {
            // partial application built in place: no frame
            match self.frames.last_mut() {
                Some(f) => f.1 = after,
                None => self.host_h = after,
            }
        } else {
            self.frames.push((g, args, after));
        }
    }
    pub fn tailcall(&mut self, k: usize, g: usize, held: u32, extra_excess: u32) {
        let i = self.at(k);
        assert!(matches!(i, Instruction::TailCall(_)), "exit {} is {:?}", k, i);
        let n = Self::n_of(&i);
        self.e(format!("(t {} {} {})", g + 1, held, n));
        let (_, _, after) = self.frames.pop().unwrap();
        self.dispatch(g, held + n + extra_excess, after);
    }
    /// return; `then` = the returned value is called with the frame's excess arguments
    pub fn ret(&mut self, k: usize, then: Option<(usize, u32, u32)>) {
        let i = self.at(k);
        assert!(matches!(i, Instruction::Return), "exit {} is {:?}", k, i);
        let (_, _, after) = self.frames.pop().unwrap();
        match then {
            None => {
                self.e("(r)".into());
                match self.frames.last_mut() {
                    Some(f) => f.1 = after,
                    None => self.host_h = after,
                }
            }
            Some((g, held, excess)) => {
                self.e(format!("(r {} {})", g + 1, held));
                self.dispatch(g, held + excess, after);
            }
        }
    }
    /// the host pops the result (thread.rs:1227-1228)
    pub fn finish(&mut self) {
        assert!(self.frames.is_empty(), "frames left: {:?}", self.frames);
        self.e("(q 1)".into());
    }
    /// run `body` `n` times, emitting it once inside `(rep n …)`
    pub fn rep(&mut self, n: u64, mut body: impl FnMut(&mut Sim<'a>)) {
        if n == 0 {
            return;
        }
        let mark = self.out.len();
        body(self);
        let text: Vec<String> = self.out.drain(mark..).collect();
        let was = self.emit;
        self.emit = false;
        for _ in 1..n {
            body(self);
        }
        self.emit = was;
        self.e(format!("(rep {} {})", n, text.join(" ")));
    }
}

/// The event script of family `name` with parameter `n`, derived from the real bytecode.
pub fn script(name: &str, n: u64, fns: &[FnDump]) -> Result<(String, String), SimError> {
    let mut s = Sim::new(fns)?;
    s.start();
    match name {
        "nontail-direct" => {
            let f = s.fn_named("f");
            s.tailcall(0, f, 0, 0); // top: `f n` in tail position
            s.rep(n, |s| s.call(0, f, 0));
            s.ret(1, None);
            s.rep(n, |s| s.ret(1, None));
        }
        "nontail-mutual" => {
            let ping = s.fn_named("ping");
            let pong = s.fn_named("pong");
            s.tailcall(0, ping, 0, 0);
            for i in 0..n {
                if i % 2 == 0 { s.call(0, pong, 0) } else { s.call(0, ping, 0) }
            }
            s.ret(1, None);
            for _ in 0..n {
                s.ret(1, None);
            }
        }
        "nontail-closure" => {
            // self n = go self n (tail) ; go k n = … 1 + k (n-1) (non tail call of `self`)
            let go = s.fn_named("go");
            let slf = s.fn_named("self");
            s.tailcall(0, slf, 0, 0);
            s.tailcall(0, go, 0, 0);
            s.rep(n, |s| {
                s.call(0, slf, 0);
                s.tailcall(0, go, 0, 0);
            });
            s.ret(1, None);
            s.rep(n, |s| s.ret(1, None));
        }
        "tail-direct" => {
            let f = s.fn_named("loop");
            s.tailcall(0, f, 0, 0);
            s.rep(n, |s| s.tailcall(0, f, 0, 0));
            s.ret(1, None);
        }
        "tail-mutual" => {
            let even = s.fn_named("even");
            let odd = s.fn_named("odd");
            s.tailcall(0, even, 0, 0);
            s.rep(n / 2, |s| {
                s.tailcall(0, odd, 0, 0);
                s.tailcall(0, even, 0, 0);
            });
            if n % 2 == 1 {
                s.tailcall(0, odd, 0, 0);
            }
            s.ret(1, None);
        }
        "tail-closure" => {
            let go = s.fn_named("go");
            let slf = s.fn_named("self");
            s.tailcall(0, slf, 0, 0);
            s.tailcall(0, go, 0, 0);
            s.rep(n, |s| {
                s.tailcall(0, slf, 0, 0);
                s.tailcall(0, go, 0, 0);
            });
            s.ret(1, None);
        }
        "tail-overapply" => {
            // top: `h n 0` tail call with 2 arguments of the 1-argument `h` (excess 1);
            // h returns the closure g, which is then called with the excess argument;
            // g: `h (n-1) (acc+1)` tail call with 2 arguments again
            let h = s.fn_named("h");
            let g = s.fn_named("g");
            s.tailcall(0, h, 0, 0);
            s.rep(n, |s| {
                s.ret(0, Some((g, 0, 1)));
                s.tailcall(0, h, 0, 0);
            });
            s.ret(0, Some((g, 0, 1)));
            s.ret(1, None);
        }
        "tail-partial" => {
            // loop k n acc: `(loop k)` is a non-tail call with 1 of 3 arguments (partial
            // application built in place), then a tail call of that value with 2 arguments
            let f = s.fn_named("loop");
            s.tailcall(0, f, 0, 0);
            s.rep(n, |s| {
                s.call(0, f, 0);
                s.tailcall(1, f, 1, 0);
            });
            s.ret(2, None);
        }
        "tail-mutual-bool" | "tail-mutual-contexts" => {
            // a cycle of functions, each with exactly one tail call (to the next) and the final return
            let names: &[&str] = if name == "tail-mutual-bool" { &["p", "q"] } else { &["a", "b", "c"] };
            let ids: Vec<usize> = names.iter().map(|x| s.fn_named(x)).collect();
            let mut tc = vec![];
            let mut last = vec![];
            for &f in &ids {
                let exits: Vec<&Instruction> = fns[f]
                    .instrs
                    .iter()
                    .filter(|i| matches!(i, Instruction::Call(_) | Instruction::TailCall(_) | Instruction::Return))
                    .collect();
                let t: Vec<usize> = exits.iter().enumerate().filter(|(_, i)| matches!(i, Instruction::TailCall(_))).map(|(k, _)| k).collect();
                if t.len() != 1 || exits.iter().any(|i| matches!(i, Instruction::Call(_))) || !matches!(exits.last(), Some(Instruction::Return)) {
                    return Err(SimError(format!("no cycle script for {}", name)));
                }
                tc.push(t[0]);
                last.push(exits.len() - 1);
            }
            let k = ids.len() as u64;
            s.tailcall(0, ids[0], 0, 0);
            s.rep(n / k, |s| {
                for j in 0..ids.len() {
                    s.tailcall(tc[j], ids[(j + 1) % ids.len()], 0, 0);
                }
            });
            let rem = (n % k) as usize;
            for j in 0..rem {
                s.tailcall(tc[j], ids[(j + 1) % ids.len()], 0, 0);
            }
            s.ret(last[rem % ids.len()], None);
        }
        "tail-lambda-body" => {
            let f = s.fn_named("loop");
            let lam = (0..fns.len()).find(|&i| fns[i].path.len() == 2).ok_or_else(|| SimError("no lambda".into()))?;
            s.tailcall(0, f, 0, 0);
            s.rep(n, |s| {
                s.tailcall(0, lam, 0, 0);
                s.tailcall(0, f, 0, 0);
            });
            s.ret(1, None);
        }
        _ => {
            // generic self loop: one function `loop` whose only exits are one TailCall (to itself)
            // and the final Return
            let f = fns.iter().position(|f| f.name == "loop").ok_or_else(|| SimError(format!("no script for {}", name)))?;
            let exits: Vec<&Instruction> = fns[f]
                .instrs
                .iter()
                .filter(|i| matches!(i, Instruction::Call(_) | Instruction::TailCall(_) | Instruction::Return))
                .collect();
            let tcs: Vec<usize> = exits.iter().enumerate().filter(|(_, i)| matches!(i, Instruction::TailCall(_))).map(|(k, _)| k).collect();
            let calls = exits.iter().filter(|i| matches!(i, Instruction::Call(_))).count();
            if tcs.len() != 1 || calls != 0 || fns.len() != 2 || !matches!(exits.last(), Some(Instruction::Return)) {
                return Err(SimError(format!("no generic script for {} ({} tail calls, {} calls, {} functions)", name, tcs.len(), calls, fns.len())));
            }
            let last = exits.len() - 1;
            s.tailcall(0, f, 0, 0);
            s.rep(n, |s| s.tailcall(tcs[0], f, 0, 0));
            s.ret(last, None);
        }
    }
    s.finish();
    Ok((s.tbl(), s.out.join(" ")))
}

/// Allocation-heavy programs for the memory-limit sweeps: (name, source).
pub fn mem_programs(rng: &mut gv::rng::Rng, count: usize) -> Vec<(String, String)> {
    let mut v = vec![];
    for i in 0..count {
        let n = 1 + rng.below(40);
        let k = rng.below(9);
        let (name, src) = match k {
            0 => ("list-nontail", format!(
                "{}rec let build n = if n #Int== 0 then Nil else Cons n (build (n #Int- 1))\nrec let sum l =\n    match l with\n    | Nil -> 0\n    | Cons x t -> x #Int+ sum t\nsum (build {})\n", L_TYPE, n)),
            1 => ("list-tail", format!(
                "{}rec let build n acc = if n #Int== 0 then acc else build (n #Int- 1) (Cons n acc)\nrec let len l acc =\n    match l with\n    | Nil -> acc\n    | Cons _ t -> len t (acc #Int+ 1)\nlen (build {} Nil) 0\n", L_TYPE, n)),
            2 => {
                let elems: Vec<String> = (0..n).map(|x| x.to_string()).collect();
                ("array-literal", format!("let a = [{}]\nlet b = [a, a]\n{}\n", elems.join(", "), n))
            }
            3 => ("records-loop", format!(
                "rec let go n r = if n #Int== 0 then r.a else go (n #Int- 1) {{ a = r.a #Int+ 1, b = {{ a = n }}, c = \"x\" }}\ngo {} {{ a = 0, b = {{ a = 0 }}, c = \"\" }}\n", n)),
            4 => ("closures", format!(
                "rec let mk n f = if n #Int== 0 then f 0 else mk (n #Int- 1) (\\x -> f (x #Int+ n))\nmk {} (\\x -> x)\n", n)),
            5 => ("partial-apps", format!(
                "let add a b c = a #Int+ b #Int+ c\nrec let go n p = if n #Int== 0 then p 1 else go (n #Int- 1) (add n n)\ngo {} (add 0 0)\n", n)),
            6 => ("garbage-loop", format!(
                "{}rec let go n acc =\n    if n #Int== 0 then acc else\n        let tmp = Cons n (Cons n Nil)\n        go (n #Int- 1) (acc #Int+ 1)\ngo {} 0\n", L_TYPE, n * 8)),
            7 => ("string-append", format!(
                "let s = import! std.string.prim\nrec let go n acc = if n #Int== 0 then s.len acc else go (n #Int- 1) (s.append acc \"ab\")\ngo {} \"\"\n", n)),
            _ => ("tree", format!(
                "type T = | Leaf | Node T Int T\nrec let build d = if d #Int== 0 then Leaf else Node (build (d #Int- 1)) d (build (d #Int- 1))\nrec let size t =\n    match t with\n    | Leaf -> 0\n    | Node l _ r -> size l #Int+ 1 #Int+ size r\nsize (build {})\n", 1 + n % 6)),
        };
        v.push((format!("{}#{}", name, i), src));
    }
    v
}
