//! Recursion-heavy / allocation-heavy program families and the event scripts that describe what
//! they do to the frame stack (for the `CallStack` model).
use crate::bytecode::{heights, FnDump, Heights};
use gluon::vm::types::Instruction;

pub const L_TYPE: &str = "type L = | Nil | Cons Int L\n";

#[derive(Clone, Debug)]
pub struct Family {
    pub name: &'static str,
    /// tail = must run in constant stack
    pub tail: bool,
}

pub const STACK_FAMILIES: &[Family] = &[
    Family { name: "nontail-direct", tail: false },
    Family { name: "nontail-mutual", tail: false },
    Family { name: "nontail-closure", tail: false },
    Family { name: "tail-direct", tail: true },
    Family { name: "tail-mutual", tail: true },
    Family { name: "tail-closure", tail: true },
    Family { name: "tail-overapply", tail: true },
    Family { name: "tail-partial", tail: true },
];

pub fn source(name: &str, n: u64) -> String {
    match name {
        "nontail-direct" => format!(
            "rec let f n = if n #Int== 0 then 0 else 1 #Int+ f (n #Int- 1)\nf {}\n", n),
        "nontail-mutual" => format!(
            "rec\nlet ping n = if n #Int== 0 then 0 else 1 #Int+ pong (n #Int- 1)\nlet pong n = if n #Int== 0 then 0 else 2 #Int+ ping (n #Int- 1)\nin\nping {}\n", n),
        // the recursive call goes through a closure argument that captures `go`
        "nontail-closure" => format!(
            "rec let go k n = if n #Int== 0 then 0 else 1 #Int+ k (n #Int- 1)\nrec let self n = go self n\nself {}\n", n),
        "tail-direct" => format!(
            "rec let loop n acc = if n #Int== 0 then acc else loop (n #Int- 1) (acc #Int+ 1)\nloop {} 0\n", n),
        "tail-mutual" => format!(
            "rec\nlet even n = if n #Int== 0 then 1 else odd (n #Int- 1)\nlet odd n = if n #Int== 0 then 0 else even (n #Int- 1)\nin\neven {}\n", n),
        // tail call of an unknown closure taken from an argument
        "tail-closure" => format!(
            "rec let go k n acc = if n #Int== 0 then acc else k (n #Int- 1) (acc #Int+ 1)\nrec let self n acc = go self n acc\nself {} 0\n", n),
        // `h` takes one argument and returns a function: every call `h a b` is an over-application
        "tail-overapply" => format!(
            "rec let h n =\n    let g acc = if n #Int== 0 then acc else h (n #Int- 1) (acc #Int+ 1)\n    g\nh {} 0\n", n),
        // the loop continues through a partial application of itself
        "tail-partial" => format!(
            "rec let loop k n acc = if n #Int== 0 then acc else (loop k) (n #Int- 1) (acc #Int+ k)\nloop 1 {} 0\n", n),
        _ => panic!("unknown family {}", name),
    }
}

pub fn expected_value(name: &str, n: u64) -> String {
    let v = match name {
        "nontail-direct" | "nontail-closure" => n,
        "nontail-mutual" => n / 2 * 3 + (n % 2),
        "tail-direct" | "tail-closure" | "tail-overapply" | "tail-partial" => n,
        "tail-mutual" => if n % 2 == 0 { 1 } else { 0 },
        _ => unreachable!(),
    };
    format!("(int {})", v)
}

/// Script builder: tracks the height of every active frame so that body segments become
/// `(p k)` / `(q k)` events; emits the protocol text.
pub struct Sim<'a> {
    pub fns: &'a [FnDump],
    hs: Vec<Vec<Option<u32>>>,
    /// (fn index in `fns`, current height, caller height after this frame returns)
    frames: Vec<(usize, u32, u32)>,
    host_h: u32,
    pub out: Vec<String>,
    pub emit: bool,
}

#[derive(Debug)]
pub struct SimError(pub String);

impl<'a> Sim<'a> {
    pub fn new(fns: &'a [FnDump]) -> Result<Sim<'a>, SimError> {
        let mut hs = vec![];
        for f in fns {
            match heights(f) {
                Heights::Ok(h, _) => hs.push(h),
                x => return Err(SimError(format!("heights of {}: {:?}", f.name, x))),
            }
        }
        Ok(Sim { fns, hs, frames: vec![], host_h: 0, out: vec![], emit: true })
    }
    /// table for the model: index 0 = host frame, i+1 = fns[i]
    pub fn tbl(&self) -> String {
        let mut s = String::from("(0 1)");
        for f in self.fns {
            s.push_str(&format!(" ({} {})", f.args, f.max_stack_size));
        }
        s
    }
    fn e(&mut self, s: String) {
        if self.emit {
            self.out.push(s);
        }
    }
    pub fn fn_named(&self, name: &str) -> usize {
        self.fns.iter().position(|f| f.name == name).unwrap_or_else(|| panic!("no function {}", name))
    }
    /// the host pushes the module closure and calls it (thread.rs:1204-1216)
    pub fn start(&mut self) {
        self.e("(p 1)".into());
        self.e("(c 1 0 0)".into());
        self.host_h = 1;
        self.frames.push((0, self.fns[0].args, 0));
    }
    /// exits (Call / TailCall / Return) of function `fi` in pc order
    fn exits(&self, fi: usize) -> Vec<usize> {
        self.fns[fi]
            .instrs
            .iter()
            .enumerate()
            .filter(|(_, i)| matches!(i, Instruction::Call(_) | Instruction::TailCall(_) | Instruction::Return))
            .map(|(pc, _)| pc)
            .collect()
    }
    /// move the current frame to the height before its k-th exit instruction; returns it
    pub fn at(&mut self, k: usize) -> Instruction {
        let (fi, h, _) = *self.frames.last().unwrap();
        let pc = self.exits(fi)[k];
        let target = self.hs[fi][pc].unwrap_or_else(|| panic!("exit {} of {} unreachable", k, self.fns[fi].name));
        if target > h {
            self.e(format!("(p {})", target - h));
        } else if target < h {
            self.e(format!("(q {})", h - target));
        }
        self.frames.last_mut().unwrap().1 = target;
        self.fns[fi].instrs[pc].clone()
    }
    fn n_of(i: &Instruction) -> u32 {
        match i {
            Instruction::Call(n) | Instruction::TailCall(n) => *n,
            _ => panic!("not a call: {:?}", i),
        }
    }
    /// at exit k (a `Call`): call closure `g` (held arguments `held`), entering its frame
    /// (exact arity) or not (partial application result)
    pub fn call(&mut self, k: usize, g: usize, held: u32) {
        let i = self.at(k);
        assert!(matches!(i, Instruction::Call(_)), "exit {} is {:?}", k, i);
        let n = Self::n_of(&i);
        self.e(format!("(c {} {} {})", g + 1, held, n));
        let h = self.frames.last().unwrap().1;
        let after = h - n;
        self.dispatch(g, held + n, after);
    }
    fn dispatch(&mut self, g: usize, total: u32, after: u32) {
        let args = self.fns[g].args;
        if total < args {
            // partial application built in place: no frame
            match self.frames.last_mut() {
                Some(f) => f.1 = after,
                None => self.host_h = after,
            }
        } else {
            self.frames.push((g, args, after));
        }
    }
    pub fn tailcall(&mut self, k: usize, g: usize, held: u32, extra_excess: u32) {
        let i = self.at(k);
        assert!(matches!(i, Instruction::TailCall(_)), "exit {} is {:?}", k, i);
        let n = Self::n_of(&i);
        self.e(format!("(t {} {} {})", g + 1, held, n));
        let (_, _, after) = self.frames.pop().unwrap();
        self.dispatch(g, held + n + extra_excess, after);
    }
    /// return; `then` = the returned value is called with the frame's excess arguments
    pub fn ret(&mut self, k: usize, then: Option<(usize, u32, u32)>) {
        let i = self.at(k);
        assert!(matches!(i, Instruction::Return), "exit {} is {:?}", k, i);
        let (_, _, after) = self.frames.pop().unwrap();
        match then {
            None => {
                self.e("(r)".into());
                match self.frames.last_mut() {
                    Some(f) => f.1 = after,
                    None => self.host_h = after,
                }
            }
            Some((g, held, excess)) => {
                self.e(format!("(r {} {})", g + 1, held));
                self.dispatch(g, held + excess, after);
            }
        }
    }
    /// the host pops the result (thread.rs:1227-1228)
    pub fn finish(&mut self) {
        assert!(self.frames.is_empty(), "frames left: {:?}", self.frames);
        self.e("(q 1)".into());
    }
    /// run `body` `n` times, emitting it once inside `(rep n …)`
    pub fn rep(&mut self, n: u64, mut body: impl FnMut(&mut Sim<'a>)) {
        if n == 0 {
            return;
        }
        let mark = self.out.len();
        body(self);
        let text: Vec<String> = self.out.drain(mark..).collect();
        let was = self.emit;
        self.emit = false;
        for _ in 1..n {
            body(self);
        }
        self.emit = was;
        self.e(format!("(rep {} {})", n, text.join(" ")));
    }
}

/// The event script of family `name` with parameter `n`, derived from the real bytecode.
pub fn script(name: &str, n: u64, fns: &[FnDump]) -> Result<(String, String), SimError> {
    let mut s = Sim::new(fns)?;
    s.start();
    match name {
        "nontail-direct" => {
            let f = s.fn_named("f");
            s.tailcall(0, f, 0, 0); // top: `f n` in tail position
            s.rep(n, |s| s.call(0, f, 0));
            s.ret(1, None);
            s.rep(n, |s| s.ret(1, None));
        }
        "nontail-mutual" => {
            let ping = s.fn_named("ping");
            let pong = s.fn_named("pong");
            s.tailcall(0, ping, 0, 0);
            for i in 0..n {
                if i % 2 == 0 { s.call(0, pong, 0) } else { s.call(0, ping, 0) }
            }
            s.ret(1, None);
            for _ in 0..n {
                s.ret(1, None);
            }
        }
        "nontail-closure" => {
            // self n = go self n (tail) ; go k n = … 1 + k (n-1) (non tail call of `self`)
            let go = s.fn_named("go");
            let slf = s.fn_named("self");
            s.tailcall(0, slf, 0, 0);
            s.tailcall(0, go, 0, 0);
            s.rep(n, |s| {
                s.call(0, slf, 0);
                s.tailcall(0, go, 0, 0);
            });
            s.ret(1, None);
            s.rep(n, |s| s.ret(1, None));
        }
        "tail-direct" => {
            let f = s.fn_named("loop");
            s.tailcall(0, f, 0, 0);
            s.rep(n, |s| s.tailcall(0, f, 0, 0));
            s.ret(1, None);
        }
        "tail-mutual" => {
            let even = s.fn_named("even");
            let odd = s.fn_named("odd");
            s.tailcall(0, even, 0, 0);
            s.rep(n / 2, |s| {
                s.tailcall(0, odd, 0, 0);
                s.tailcall(0, even, 0, 0);
            });
            if n % 2 == 1 {
                s.tailcall(0, odd, 0, 0);
            }
            s.ret(1, None);
        }
        "tail-closure" => {
            let go = s.fn_named("go");
            let slf = s.fn_named("self");
            s.tailcall(0, slf, 0, 0);
            s.tailcall(0, go, 0, 0);
            s.rep(n, |s| {
                s.tailcall(0, slf, 0, 0);
                s.tailcall(0, go, 0, 0);
            });
            s.ret(1, None);
        }
        "tail-overapply" => {
            // top: `h n 0` tail call with 2 arguments of the 1-argument `h` (excess 1);
            // h returns the closure g, which is then called with the excess argument;
            // g: `h (n-1) (acc+1)` tail call with 2 arguments again
            let h = s.fn_named("h");
            let g = s.fn_named("g");
            s.tailcall(0, h, 0, 0);
            s.rep(n, |s| {
                s.ret(0, Some((g, 0, 1)));
                s.tailcall(0, h, 0, 0);
            });
            s.ret(0, Some((g, 0, 1)));
            s.ret(1, None);
        }
        "tail-partial" => {
            // loop k n acc: `(loop k)` is a non-tail call with 1 of 3 arguments (partial
            // application built in place), then a tail call of that value with 2 arguments
            let f = s.fn_named("loop");
            s.tailcall(0, f, 0, 0);
            s.rep(n, |s| {
                s.call(0, f, 0);
                s.tailcall(1, f, 1, 0);
            });
            s.ret(2, None);
        }
        _ => return Err(SimError(format!("no script for {}", name))),
    }
    s.finish();
    Ok((s.tbl(), s.out.join(" ")))
}

/// Allocation-heavy programs for the memory-limit sweeps: (name, source).
pub fn mem_programs(rng: &mut gv::rng::Rng, count: usize) -> Vec<(String, String)> {
    let mut v = vec![];
    for i in 0..count {
        let n = 1 + rng.below(40);
        let k = rng.below(9);
        let (name, src) = match k {
            0 => ("list-nontail", format!(
                "{}rec let build n = if n #Int== 0 then Nil else Cons n (build (n #Int- 1))\nrec let sum l =\n    match l with\n    | Nil -> 0\n    | Cons x t -> x #Int+ sum t\nsum (build {})\n", L_TYPE, n)),
            1 => ("list-tail", format!(
                "{}rec let build n acc = if n #Int== 0 then acc else build (n #Int- 1) (Cons n acc)\nrec let len l acc =\n    match l with\n    | Nil -> acc\n    | Cons _ t -> len t (acc #Int+ 1)\nlen (build {} Nil) 0\n", L_TYPE, n)),
            2 => {
                let elems: Vec<String> = (0..n).map(|x| x.to_string()).collect();
                ("array-literal", format!("let a = [{}]\nlet b = [a, a]\n{}\n", elems.join(", "), n))
            }
            3 => ("records-loop", format!(
                "rec let go n r = if n #Int== 0 then r.a else go (n #Int- 1) {{ a = r.a #Int+ 1, b = {{ a = n }}, c = \"x\" }}\ngo {} {{ a = 0, b = {{ a = 0 }}, c = \"\" }}\n", n)),
            4 => ("closures", format!(
                "rec let mk n f = if n #Int== 0 then f 0 else mk (n #Int- 1) (\\x -> f (x #Int+ n))\nmk {} (\\x -> x)\n", n)),
            5 => ("partial-apps", format!(
                "let add a b c = a #Int+ b #Int+ c\nrec let go n p = if n #Int== 0 then p 1 else go (n #Int- 1) (add n n)\ngo {} (add 0 0)\n", n)),
            6 => ("garbage-loop", format!(
                "{}rec let go n acc =\n    if n #Int== 0 then acc else\n        let tmp = Cons n (Cons n Nil)\n        go (n #Int- 1) (acc #Int+ 1)\ngo {} 0\n", L_TYPE, n * 8)),
            7 => ("string-append", format!(
                "let s = import! std.string.prim\nrec let go n acc = if n #Int== 0 then s.len acc else go (n #Int- 1) (s.append acc \"ab\")\ngo {} \"\"\n", n)),
            _ => ("tree", format!(
                "type T = | Leaf | Node T Int T\nrec let build d = if d #Int== 0 then Leaf else Node (build (d #Int- 1)) d (build (d #Int- 1))\nrec let size t =\n    match t with\n    | Leaf -> 0\n    | Node l _ r -> size l #Int+ 1 #Int+ size r\nsize (build {})\n", 1 + n % 6)),
        };
        v.push((format!("{}#{}", name, i), src));
    }
    v
}
