//! C03 — type inference is complete and principal on the ML fragment.
//!
//! * generator of closed ML-fragment terms (var, lam, app, let, int/string literals, `#Int<`, if,
//!   ordered record literals, tuples, field projection, arrays, the constructors of
//!   `type T a = | A a | B`), typable and untypable;
//! * the REAL checker (`Thread::typecheck_str`, implicit prelude off) is run on the printed Gluon
//!   text; the reported type is re-parsed from its rendering and canonicalised (foralls floated
//!   out, module prefixes stripped, variables numbered by first occurrence);
//! * correspondence: `(infer <mode> <ast>)` answered by the Lean model (`GluonModel.HM`);
//! * model-independent oracle: an independent algorithm W written here (level-based
//!   generalisation, mutable union-find, Remy-style rows) gives the principal type; the real
//!   checker must accept every program W accepts and report W's type; and the three metamorphic
//!   transformations of the property statement (alpha-renaming, self-annotation, unused binding)
//!   must not change acceptance or the canonical type.
use gluon::ThreadExt;
use gv::{quote, Args, Out};
use std::collections::HashMap;

#[path = "c03/refw.rs"]
mod refw;
#[path = "c03/typarse.rs"]
mod typarse;

use refw::Ty;

#[derive(Clone, Debug, PartialEq)]
pub enum E {
    Var(String),
    Lam(String, Box<E>),
    App(Box<E>, Box<E>),
    Let(String, Box<E>, Box<E>),
    Int(i64),
    Str(String),
    If(Box<E>, Box<E>, Box<E>),
    Lt(Box<E>, Box<E>),
    Rec(Vec<(String, E)>),
    Tup(Vec<E>),
    Proj(Box<E>, String),
    Arr(Vec<E>),
    Con(&'static str),
}

impl E {
    fn size(&self) -> usize {
        match self {
            E::Var(_) | E::Int(_) | E::Str(_) | E::Con(_) => 1,
            E::Lam(_, b) => 1 + b.size(),
            E::App(a, b) | E::Lt(a, b) => 1 + a.size() + b.size(),
            E::Let(_, a, b) => 1 + a.size() + b.size(),
            E::If(a, b, c) => 1 + a.size() + b.size() + c.size(),
            E::Rec(fs) => 1 + fs.iter().map(|f| f.1.size()).sum::<usize>(),
            E::Tup(es) | E::Arr(es) => 1 + es.iter().map(|e| e.size()).sum::<usize>(),
            E::Proj(e, _) => 1 + e.size(),
        }
    }
    fn features(&self, f: &mut std::collections::BTreeSet<&'static str>) {
        match self {
            E::Var(_) => {
                f.insert("var");
            }
            E::Int(_) | E::Str(_) => {
                f.insert("lit");
            }
            E::Con(_) => {
                f.insert("con");
            }
            E::Lam(_, b) => {
                f.insert("lam");
                b.features(f)
            }
            E::App(a, b) => {
                f.insert("app");
                a.features(f);
                b.features(f)
            }
            E::Lt(a, b) => {
                f.insert("lt");
                a.features(f);
                b.features(f)
            }
            E::Let(_, a, b) => {
                f.insert("let");
                a.features(f);
                b.features(f)
            }
            E::If(a, b, c) => {
                f.insert("if");
                a.features(f);
                b.features(f);
                c.features(f)
            }
            E::Rec(fs) => {
                f.insert("rec");
                for x in fs {
                    x.1.features(f)
                }
            }
            E::Tup(es) => {
                f.insert("tup");
                for x in es {
                    x.features(f)
                }
            }
            E::Arr(es) => {
                f.insert("arr");
                for x in es {
                    x.features(f)
                }
            }
            E::Proj(e, _) => {
                f.insert("proj");
                e.features(f)
            }
        }
    }
    fn uses_con(&self) -> bool {
        let mut f = Default::default();
        self.features(&mut f);
        f.contains("con")
    }
    /// shape with names and literals erased (for `distinct_nontrivial`)
    fn shape(&self) -> String {
        match self {
            E::Var(_) => "v".into(),
            E::Int(_) => "i".into(),
            E::Str(_) => "s".into(),
            E::Con(c) => c.to_string(),
            E::Lam(_, b) => format!("(\\{})", b.shape()),
            E::App(a, b) => format!("(@{}{})", a.shape(), b.shape()),
            E::Lt(a, b) => format!("(<{}{})", a.shape(), b.shape()),
            E::Let(_, a, b) => format!("(L{}{})", a.shape(), b.shape()),
            E::If(a, b, c) => format!("(?{}{}{})", a.shape(), b.shape(), c.shape()),
            E::Rec(fs) => format!(
                "{{{}}}",
                fs.iter().map(|f| format!("{}={}", f.0, f.1.shape())).collect::<Vec<_>>().join(",")
            ),
            E::Tup(es) => format!("({})", es.iter().map(|e| e.shape()).collect::<Vec<_>>().join(",")),
            E::Arr(es) => format!("[{}]", es.iter().map(|e| e.shape()).collect::<Vec<_>>().join(",")),
            E::Proj(e, l) => format!("{}.{}", e.shape(), l),
        }
    }
}

// ---------------------------------------------------------------------------------------------
// printers

/// Gluon source.  `style` bit 0: `let f x = e` instead of `let f = \x -> e`.
pub fn gluon(e: &E, style: u32) -> String {
    match e {
        E::Var(x) => x.clone(),
        E::Int(n) => format!("{}", n),
        E::Str(s) => format!("{:?}", s),
        E::Con(c) => c.to_string(),
        E::Lam(..) => {
            let mut args = vec![];
            let mut b = e;
            while let E::Lam(x, body) = b {
                args.push(x.clone());
                b = body;
                if style & 2 == 0 {
                    break;
                }
            }
            format!("(\\{} -> {})", args.join(" "), gluon(b, style))
        }
        E::App(f, a) => format!("({} {})", gluon(f, style), gluon(a, style)),
        E::Lt(a, b) => format!("({} #Int< {})", gluon(a, style), gluon(b, style)),
        E::Let(x, e1, e2) => {
            // `let f x = …` binds `f` recursively in gluon (`let f x = f x in f` is accepted), so
            // the function style is only the same program when `f` is not free in the body
            if style & 1 == 1 && !free_in(x, e1) {
                if let E::Lam(..) = **e1 {
                    let mut args = vec![];
                    let mut b: &E = e1;
                    while let E::Lam(y, body) = b {
                        args.push(y.clone());
                        b = body;
                    }
                    return format!(
                        "(let {} {} = {} in {})",
                        x,
                        args.join(" "),
                        gluon(b, style),
                        gluon(e2, style)
                    );
                }
            }
            format!("(let {} = {} in {})", x, gluon(e1, style), gluon(e2, style))
        }
        E::If(c, a, b) => format!(
            "(if {} then {} else {})",
            gluon(c, style),
            gluon(a, style),
            gluon(b, style)
        ),
        E::Rec(fs) => {
            if fs.is_empty() {
                "{}".to_string()
            } else {
                format!(
                    "{{ {} }}",
                    fs.iter()
                        .map(|(l, e)| format!("{} = {}", l, gluon(e, style)))
                        .collect::<Vec<_>>()
                        .join(", ")
                )
            }
        }
        E::Tup(es) => format!("({})", es.iter().map(|e| gluon(e, style)).collect::<Vec<_>>().join(", ")),
        E::Arr(es) => format!("[{}]", es.iter().map(|e| gluon(e, style)).collect::<Vec<_>>().join(", ")),
        E::Proj(e, l) => match **e {
            E::Var(_) | E::Rec(_) | E::Tup(_) | E::Proj(..) => format!("{}.{}", gluon(e, style), l),
            _ => format!("({}).{}", gluon(e, style), l),
        },
    }
}

pub fn free_in(x: &str, e: &E) -> bool {
    match e {
        E::Var(y) => x == y,
        E::Int(_) | E::Str(_) | E::Con(_) => false,
        E::Lam(y, b) => y != x && free_in(x, b),
        E::App(a, b) | E::Lt(a, b) => free_in(x, a) || free_in(x, b),
        E::Let(y, a, b) => free_in(x, a) || (y != x && free_in(x, b)),
        E::If(a, b, c) => free_in(x, a) || free_in(x, b) || free_in(x, c),
        E::Rec(fs) => fs.iter().any(|f| free_in(x, &f.1)),
        E::Tup(es) | E::Arr(es) => es.iter().any(|e| free_in(x, e)),
        E::Proj(e, _) => free_in(x, e),
    }
}

const PREFIX: &str = "type T a = | A a | B in ";

pub fn program(e: &E, style: u32) -> String {
    if e.uses_con() {
        format!("{}{}", PREFIX, gluon(e, style))
    } else {
        gluon(e, style)
    }
}

/// The AST for the Lean driver. Tuples travel as records `_0 …` (that is what they are:
/// typecheck.rs:787-809).
pub fn sexp(e: &E) -> String {
    match e {
        E::Var(x) => format!("(v {})", quote(x)),
        E::Int(n) => format!("(int {})", n),
        E::Str(s) => format!("(str {})", quote(s)),
        E::Con(c) => format!("(con {})", c),
        E::Lam(x, b) => format!("(lam {} {})", quote(x), sexp(b)),
        E::App(f, a) => format!("(app {} {})", sexp(f), sexp(a)),
        E::Lt(a, b) => format!("(lt {} {})", sexp(a), sexp(b)),
        E::Let(x, a, b) => format!("(let {} {} {})", quote(x), sexp(a), sexp(b)),
        E::If(c, a, b) => format!("(if {} {} {})", sexp(c), sexp(a), sexp(b)),
        E::Rec(fs) => format!(
            "(rcd{})",
            fs.iter().map(|(l, e)| format!(" ({} {})", quote(l), sexp(e))).collect::<String>()
        ),
        E::Tup(es) => format!(
            "(rcd{})",
            es.iter()
                .enumerate()
                .map(|(i, e)| format!(" ({} {})", quote(&format!("_{}", i)), sexp(e)))
                .collect::<String>()
        ),
        E::Arr(es) => format!("(arr{})", es.iter().map(|e| format!(" {}", sexp(e))).collect::<String>()),
        E::Proj(e, l) => format!("(proj {} {})", sexp(e), quote(l)),
    }
}

// ---------------------------------------------------------------------------------------------
// generator

const NAMES: &[&str] = &["x", "y", "z", "f", "g", "r"];
const LABELS: &[&str] = &["x", "y", "z"];

pub struct Gen {
    pub rng: gv::rng::Rng,
}

impl Gen {
    fn leaf(&mut self, scope: &[String]) -> E {
        let r = self.rng.below(12);
        if !scope.is_empty() && r < 7 {
            // bias to recently bound variables
            let k = scope.len();
            let i = if self.rng.chance(1, 2) { k - 1 } else { self.rng.below(k as u64) as usize };
            return E::Var(scope[i].clone());
        }
        match r % 6 {
            0 | 1 => E::Int(self.rng.range(0, 3)),
            2 => E::Str(["a", "b"][self.rng.below(2) as usize].to_string()),
            3 => E::Con(if self.rng.chance(1, 2) { "A" } else { "B" }),
            4 => E::Arr(vec![]),
            _ => E::Int(1),
        }
    }
    pub fn gen(&mut self, depth: u32, scope: &mut Vec<String>) -> E {
        if depth == 0 || self.rng.chance(1, 6) {
            return self.leaf(scope);
        }
        let d = depth - 1;
        match self.rng.below(30) {
            0..=4 => {
                let x = self.rng.pick(NAMES).to_string();
                scope.push(x.clone());
                let b = self.gen(d, scope);
                scope.pop();
                E::Lam(x, Box::new(b))
            }
            5..=9 => {
                let f = self.gen(d, scope);
                let a = self.gen(d, scope);
                E::App(Box::new(f), Box::new(a))
            }
            10..=14 => {
                let x = self.rng.pick(NAMES).to_string();
                let e1 = self.gen(d, scope);
                scope.push(x.clone());
                let e2 = self.gen(d, scope);
                scope.pop();
                E::Let(x, Box::new(e1), Box::new(e2))
            }
            15 => {
                let c = if self.rng.chance(1, 2) {
                    E::Lt(Box::new(self.gen(d.min(1), scope)), Box::new(self.gen(d.min(1), scope)))
                } else {
                    self.gen(d.min(1), scope)
                };
                let a = self.gen(d, scope);
                let b = self.gen(d, scope);
                E::If(Box::new(c), Box::new(a), Box::new(b))
            }
            16 => E::Lt(Box::new(self.gen(d.min(1), scope)), Box::new(self.gen(d.min(1), scope))),
            17..=19 => {
                let n = self.rng.range(0, 3) as usize;
                let mut ls: Vec<&str> = LABELS.to_vec();
                // random order of distinct labels
                for i in (1..ls.len()).rev() {
                    let j = self.rng.below(i as u64 + 1) as usize;
                    ls.swap(i, j);
                }
                E::Rec((0..n).map(|i| (ls[i].to_string(), self.gen(d, scope))).collect())
            }
            20..=21 => {
                let n = self.rng.range(2, 3) as usize;
                E::Tup((0..n).map(|_| self.gen(d, scope)).collect())
            }
            22..=26 => {
                let l = if self.rng.chance(1, 8) {
                    ["_0", "_1"][self.rng.below(2) as usize]
                } else {
                    *self.rng.pick(LABELS)
                };
                let e = if self.rng.chance(2, 3) { self.leaf(scope) } else { self.gen(d, scope) };
                E::Proj(Box::new(e), l.to_string())
            }
            27..=28 => {
                let n = self.rng.range(1, 3) as usize;
                E::Arr((0..n).map(|_| self.gen(d, scope)).collect())
            }
            _ => E::App(
                Box::new(E::Con("A")),
                Box::new(self.gen(d, scope)),
            ),
        }
    }
}

// ---------------------------------------------------------------------------------------------
// metamorphic transformations

/// Rename every bound variable to a fresh name `v<k>` (no capture possible: all new names are
/// distinct and do not occur in the program).
fn alpha(e: &E, env: &mut Vec<(String, String)>, k: &mut u32) -> E {
    let fresh = |k: &mut u32| {
        *k += 1;
        format!("v{}", k)
    };
    match e {
        E::Var(x) => E::Var(
            env.iter().rev().find(|p| &p.0 == x).map(|p| p.1.clone()).unwrap_or_else(|| x.clone()),
        ),
        E::Lam(x, b) => {
            let n = fresh(k);
            env.push((x.clone(), n.clone()));
            let b2 = alpha(b, env, k);
            env.pop();
            E::Lam(n, Box::new(b2))
        }
        E::Let(x, a, b) => {
            let a2 = alpha(a, env, k);
            let n = fresh(k);
            env.push((x.clone(), n.clone()));
            let b2 = alpha(b, env, k);
            env.pop();
            E::Let(n, Box::new(a2), Box::new(b2))
        }
        E::App(a, b) => E::App(Box::new(alpha(a, env, k)), Box::new(alpha(b, env, k))),
        E::Lt(a, b) => E::Lt(Box::new(alpha(a, env, k)), Box::new(alpha(b, env, k))),
        E::If(a, b, c) => E::If(
            Box::new(alpha(a, env, k)),
            Box::new(alpha(b, env, k)),
            Box::new(alpha(c, env, k)),
        ),
        E::Rec(fs) => E::Rec(fs.iter().map(|(l, e)| (l.clone(), alpha(e, env, k))).collect()),
        E::Tup(es) => E::Tup(es.iter().map(|e| alpha(e, env, k)).collect()),
        E::Arr(es) => E::Arr(es.iter().map(|e| alpha(e, env, k)).collect()),
        E::Proj(e, l) => E::Proj(Box::new(alpha(e, env, k)), l.clone()),
        E::Int(_) | E::Str(_) | E::Con(_) => e.clone(),
    }
}

/// Insert `let u_ = <closed typable expr> in □` around the `target`-th sub-expression
/// (pre-order).
fn add_unused(e: &E, target: &mut i64, unused: &E) -> E {
    let here = *target == 0;
    *target -= 1;
    let inner = match e {
        E::Lam(x, b) => E::Lam(x.clone(), Box::new(add_unused(b, target, unused))),
        E::Let(x, a, b) => {
            let a2 = add_unused(a, target, unused);
            E::Let(x.clone(), Box::new(a2), Box::new(add_unused(b, target, unused)))
        }
        E::App(a, b) => {
            let a2 = add_unused(a, target, unused);
            E::App(Box::new(a2), Box::new(add_unused(b, target, unused)))
        }
        E::Lt(a, b) => {
            let a2 = add_unused(a, target, unused);
            E::Lt(Box::new(a2), Box::new(add_unused(b, target, unused)))
        }
        E::If(a, b, c) => {
            let a2 = add_unused(a, target, unused);
            let b2 = add_unused(b, target, unused);
            E::If(Box::new(a2), Box::new(b2), Box::new(add_unused(c, target, unused)))
        }
        E::Rec(fs) => E::Rec(fs.iter().map(|(l, e)| (l.clone(), add_unused(e, target, unused))).collect()),
        E::Tup(es) => E::Tup(es.iter().map(|e| add_unused(e, target, unused)).collect()),
        E::Arr(es) => E::Arr(es.iter().map(|e| add_unused(e, target, unused)).collect()),
        E::Proj(e, l) => E::Proj(Box::new(add_unused(e, target, unused)), l.clone()),
        E::Var(_) | E::Int(_) | E::Str(_) | E::Con(_) => e.clone(),
    };
    if here {
        E::Let("u_".to_string(), Box::new(unused.clone()), Box::new(inner))
    } else {
        inner
    }
}

fn unused_pool() -> Vec<E> {
    let v = |s: &str| E::Var(s.to_string());
    vec![
        E::Int(7),
        E::Lam("q".into(), Box::new(v("q"))),
        E::Rec(vec![("k".into(), E::Int(1)), ("m".into(), E::Str("s".into()))]),
        E::Arr(vec![]),
        E::Lam("q".into(), Box::new(E::Proj(Box::new(v("q")), "k".into()))),
        E::Tup(vec![E::Int(1), E::Lam("q".into(), Box::new(v("q")))]),
    ]
}

// ---------------------------------------------------------------------------------------------
// running the real checker

pub struct Real {
    vm: gluon::RootedThread,
    n: u64,
    /// message of the last rejection (used only to name the fingerprint, never compared)
    last_err: String,
}

#[derive(Clone, Debug, PartialEq)]
pub enum Verdict {
    /// canonical type (foralls floated out, variables numbered by first occurrence)
    Ok(Ty),
    Err,
    /// the type's rendering could not be re-parsed / is outside the fragment
    Unsupported(String),
    Panic(String),
    ParseError(String),
}

impl Real {
    pub fn new() -> Real {
        Real { vm: gv::vm::new_vm_no_prelude(), n: 0, last_err: String::new() }
    }
    pub fn check(&mut self, src: &str) -> Verdict {
        self.n += 1;
        if self.n % 4000 == 0 {
            // keep the salsa database small
            self.vm = gv::vm::new_vm_no_prelude();
        }
        let name = format!("c{}", self.n);
        let vm = &self.vm;
        match gv::catch(|| vm.typecheck_str(&name, src, None)) {
            Err(p) => Verdict::Panic(p),
            Ok(Ok((_, t))) => {
                let text = format!("{}", t);
                match typarse::parse(&text) {
                    Ok(ty) => Verdict::Ok(refw::canon(&ty)),
                    Err(e) => Verdict::Unsupported(format!("{}: {}", e, text)),
                }
            }
            Ok(Err(e)) => {
                let msg = format!("{}", e);
                self.last_err = msg.clone();
                if msg.contains("Unexpected token") || msg.contains("Unexpected end") || msg.contains("Invalid token") {
                    Verdict::ParseError(msg)
                } else {
                    Verdict::Err
                }
            }
        }
    }
}

fn payload(v: &Verdict) -> String {
    match v {
        Verdict::Ok(t) => format!("(ok {})", refw::show(t)),
        Verdict::Err => "err".into(),
        Verdict::Unsupported(s) => format!("(unsupported {})", quote(s)),
        Verdict::Panic(s) => format!("(panic {})", quote(s)),
        Verdict::ParseError(s) => format!("(parse-error {})", quote(&s.chars().take(80).collect::<String>())),
    }
}

fn short(v: &Verdict) -> String {
    match v {
        Verdict::Ok(t) => format!("ok {}", refw::gluon_type(t)),
        Verdict::Err => "rejected".into(),
        Verdict::Unsupported(s) => format!("unsupported {}", s),
        Verdict::Panic(s) => format!("panic {}", s),
        Verdict::ParseError(s) => format!("parse error {}", s.chars().take(60).collect::<String>()),
    }
}

fn feature_tag(e: &E) -> &'static str {
    let mut f = Default::default();
    e.features(&mut f);
    if f.contains("proj") {
        "rows"
    } else if f.contains("let") {
        "let"
    } else {
        "core"
    }
}

/// Everything one case produces (travels from the child process to the parent as one JSON line).
#[derive(Default)]
pub struct CaseRec {
    idx: u64,
    counts: Vec<String>,
    oracle: Vec<serde_json::Value>,
    class: Option<String>,
    sample: Option<serde_json::Value>,
    request: String,
    payload: String,
}

impl CaseRec {
    fn count(&mut self, k: &str) {
        self.counts.push(k.to_string());
    }
    fn oracle_fail(&mut self, fp: &str, what: &str, replay: serde_json::Value) {
        self.oracle.push(serde_json::json!({"fingerprint": fp, "what": what, "replay": replay}));
    }
    fn class(&mut self, c: String) {
        self.class = Some(c);
    }
    fn sample(&mut self, v: serde_json::Value) {
        self.sample = Some(v);
    }
    fn case(&mut self, req: &str, payload: &str) {
        self.request = req.to_string();
        self.payload = payload.to_string();
    }
    fn to_json(&self) -> serde_json::Value {
        serde_json::json!({"idx": self.idx, "counts": self.counts, "oracle": self.oracle, "class": self.class,
            "sample": self.sample, "request": self.request, "payload": self.payload})
    }
    fn emit(j: &serde_json::Value, out: &mut Out) {
        for c in j["counts"].as_array().unwrap() {
            out.count(c.as_str().unwrap());
        }
        for o in j["oracle"].as_array().unwrap() {
            out.oracle_fail(o["fingerprint"].as_str().unwrap(), o["what"].as_str().unwrap(), o["replay"].clone());
        }
        if let Some(c) = j["class"].as_str() {
            out.class(c.to_string());
        }
        if !j["sample"].is_null() {
            out.sample(j["sample"].clone());
        }
        if !j["request"].as_str().unwrap().is_empty() {
            out.case(j["request"].as_str().unwrap(), j["payload"].as_str().unwrap());
        }
    }
}

/// One generated program: correspondence line + all oracles.
fn one(out: &mut CaseRec, real: &mut Real, e: &E, style: u32, rng: &mut gv::rng::Rng, replaying: bool, meta: bool, fam: Option<&str>) {
    let src = program(e, style);
    let v = real.check(&src);
    let first_err = real.last_err.clone();
    let mut known_poly_field = false;
    let w = refw::infer_program(e);
    let tag = feature_tag(e);
    let replay = serde_json::json!({"program": src, "ast": sexp(e), "style": style, "family": fam});
    if let Some(pos) = fam {
        out.count(&format!("family-if-lambda:{}", pos));
    }

    // ---- oracle 1: completeness + principality against the independent algorithm W --------
    match (&w.result, &v) {
        (_, Verdict::Panic(p)) => out.oracle_fail(
            &format!("panic:typecheck:{}", tag),
            &format!("the type checker panicked: {}", p),
            replay.clone(),
        ),
        (_, Verdict::ParseError(_)) | (_, Verdict::Unsupported(_)) => {
            out.count("skipped:unparsed");
        }
        (Some(pt), Verdict::Err) => {
            // With the row-tail defect a *principal* typing can also be lost only through the
            // row path; keep the fingerprint apart.
            let fp = if let Some(pos) = fam {
                // member of the family "conditional of functions in inferred position": its own
                // fingerprint, whatever the error text says (never folded into a known finding)
                format!("rejects-typable:if-lambda:{}", pos)
            } else if first_err.contains("forall") {
                // a record field was generalised to `forall a . …` and then met a monomorphic type
                known_poly_field = true;
                "incomplete:forall-field-join".to_string()
            } else if w.row_rewrite {
                "incomplete:rows-path".to_string()
            } else {
                format!("incomplete:{}", tag)
            };
            out.oracle_fail(
                &fp,
                &format!("typable program rejected; principal type {}", refw::gluon_type(&refw::canon(pt))),
                replay.clone(),
            );
        }
        (Some(pt), Verdict::Ok(rt)) => {
            let a = refw::canon(&refw::sort_rows(pt));
            let b = refw::canon(&refw::sort_rows(rt));
            if a != b {
                let more_general = refw::instance_of(&a, &b); // a = θ b : real is more general than principal
                let less_general = refw::instance_of(&b, &a);
                let fp = if let Some(pos) = fam {
                    format!(
                        "{}:if-lambda:{}",
                        if less_general { "non-principal" } else if more_general { "too-general" } else { "wrong-type" },
                        pos
                    )
                } else if refw::mentions(rt, "HigherRank") {
                    known_poly_field = true;
                    "higher-rank:forall-field".to_string()
                } else if w.row_rewrite && more_general {
                    "unlinked-row-tail:unify_rows".to_string()
                } else if less_general {
                    format!("non-principal:{}", tag)
                } else if more_general && poly_field_literal(e) {
                    // same root cause as `higher-rank:forall-field` (a record/tuple field holding a
                    // generalisable expression gets a first-class `forall` type), seen from the other
                    // side: the foralls are instantiated per use of the record, so the reported type is
                    // MORE general than the ML principal type and no `forall` is left to be seen
                    known_poly_field = true;
                    "too-general:poly-record-field".to_string()
                } else if more_general {
                    format!("too-general:{}", tag)
                } else {
                    format!("wrong-type:{}", tag)
                };
                out.oracle_fail(
                    &fp,
                    &format!(
                        "reported type {} is not the principal type {}",
                        refw::gluon_type(rt),
                        refw::gluon_type(&refw::canon(pt))
                    ),
                    replay.clone(),
                );
            }
        }
        (None, Verdict::Ok(rt)) => {
            // Not demanded by the statement in general (it speaks about typable programs), but a
            // type reported for an untypable program cannot be "its principal type".
            let fp = if let Some(pos) = fam {
                format!("accepts-untypable:if-lambda:{}", pos)
            } else if w.row_rewrite {
                "unlinked-row-tail:unify_rows".to_string()
            } else {
                format!("accepts-untypable:{}", tag)
            };
            out.oracle_fail(
                &fp,
                &format!("program without a typing is accepted with type {}", refw::gluon_type(rt)),
                replay.clone(),
            );
        }
        (None, Verdict::Err) => {}
    }

    // ---- oracle 2: metamorphic transformations on the real checker -------------------------
    if let (true, Verdict::Ok(_) | Verdict::Err) = (meta, &v) {
        // (a) alpha renaming
        let mut k = 0;
        let ea = alpha(e, &mut vec![], &mut k);
        let va = real.check(&program(&ea, style));
        out.count("meta:alpha");
        if va != v {
            out.oracle_fail(
                &format!("alpha-rename:{}:{}", change_kind(&v, &va), tag),
                &format!("renaming bound variables changed the result: {} vs {}", short(&v), short(&va)),
                serde_json::json!({"program": src, "transformed": program(&ea, style), "ast": sexp(e), "style": style}),
            );
        }
        // (b) unused binding at a random position
        let pool = unused_pool();
        let u = &pool[rng.below(pool.len() as u64) as usize];
        let mut target = rng.below(e.size() as u64) as i64;
        let eu = add_unused(e, &mut target, u);
        let vu = real.check(&program(&eu, style));
        out.count("meta:unused");
        if vu != v {
            out.oracle_fail(
                &format!("unused-binding:{}:{}", change_kind(&v, &vu), tag),
                &format!("adding an unused binding changed the result: {} vs {}", short(&v), short(&vu)),
                serde_json::json!({"program": src, "transformed": program(&eu, style), "ast": sexp(e), "style": style}),
            );
        }
        // (c) self annotation of the whole program, and of a top-level let binding
        if let Verdict::Ok(t) = &v {
            if refw::mentions(t, "HigherRank") {
                out.count("skipped:annot-higher-rank");
            } else if refw::mentions(t, "Bool") {
                out.count("skipped:annot-bool-unwritable");
            } else {
                let pre = if e.uses_con() { PREFIX } else { "" };
                let s2 = format!("{}let v_ : {} = {} in v_", pre, refw::gluon_type(t), gluon(e, style));
                let v2 = real.check(&s2);
                out.count("meta:annot");
                if v2 != v {
                    out.oracle_fail(
                        &format!("annot-self:{}:{}", change_kind(&v, &v2), tag),
                        &format!("annotating the program with its inferred type changed the result: {} vs {}", short(&v), short(&v2)),
                        serde_json::json!({"program": src, "transformed": s2, "ast": sexp(e), "style": style}),
                    );
                }
                if let E::Let(x, e1, e2) = e {
                    let pre1 = if e1.uses_con() { PREFIX } else { "" };
                    if let Verdict::Ok(t1) = real.check(&format!("{}{}", pre1, gluon(e1, style))) {
                        if !refw::mentions(&t1, "Bool") && !refw::mentions(&t1, "HigherRank") {
                            let s3 = format!(
                                "{}(let {} : {} = {} in {})",
                                pre,
                                x,
                                refw::gluon_type(&t1),
                                gluon(e1, style),
                                gluon(e2, style)
                            );
                            let v3 = real.check(&s3);
                            out.count("meta:annot-let");
                            if v3 != v {
                                out.oracle_fail(
                                    &format!("annot-let:{}:{}", change_kind(&v, &v3), tag),
                                    &format!("annotating a let binding with its inferred type changed the result: {} vs {}", short(&v), short(&v3)),
                                    serde_json::json!({"program": src, "transformed": s3, "ast": sexp(e), "style": style}),
                                );
                            }
                        }
                    }
                }
            }
        }
    }

    // ---- correspondence ---------------------------------------------------------------------
    match &v {
        Verdict::ParseError(_) | Verdict::Unsupported(_) if !replaying => {
            // outside the fragment (printer or renderer problem): counted, compared anyway so
            // that it is visible
            out.count("outside-fragment");
        }
        _ => {}
    }
    let outcome = match &v {
        Verdict::Ok(_) => "ok",
        Verdict::Err => "err",
        _ => "other",
    };
    out.count(&format!("outcome:{}", outcome));
    out.count(&format!("ref:{}", if w.result.is_some() { "typable" } else { "untypable" }));
    if w.row_rewrite {
        out.count("ref:rows-path");
    }
    out.count(&format!("size:{}", e.size().min(20)));
    let mut f = std::collections::BTreeSet::new();
    e.features(&mut f);
    for x in &f {
        out.count(&format!("construct:{}", x));
    }
    if f.len() >= 2 {
        out.class(format!("{}|{}", e.shape(), outcome));
    }
    if out.idx % 397 == 3 {
        out.sample(serde_json::json!({"program": src, "impl": short(&v)}));
    }
    if replaying {
        println!("program: {}\nreal:    {}\nref W:   {}", src, short(&v),
            w.result.as_ref().map(|t| refw::gluon_type(&refw::canon(t))).unwrap_or("untypable".into()));
    }
    if known_poly_field {
        // gluon generalises record fields to first-class polymorphic types (typecheck.rs:989-);
        // the model is plain HM and does not reproduce the resulting known finding: these cases
        // are reported by the oracle and left out of the model/implementation comparison
        out.count("skipped:known-poly-record-field-case");
        return;
    }
    out.case(&format!("infer {}", sexp(e)), &payload(&v));
}

/// Does the program contain a record or tuple literal one of whose components is a generalisable
/// polymorphic expression (`[]`, a lambda, or a `let`/`if` ending in one)? gluon gives such a field a
/// first-class `forall` type (typecheck.rs:989-), which plain HM does not.
fn poly_field_literal(e: &E) -> bool {
    fn polyish(e: &E) -> bool {
        match e {
            E::Arr(xs) => xs.is_empty(),
            E::Lam(..) => true,
            E::Let(_, a, b) => polyish(a) || polyish(b),
            E::If(_, t, f) => polyish(t) || polyish(f),
            _ => false,
        }
    }
    match e {
        E::Rec(fs) => fs.iter().any(|(_, f)| polyish(f) || poly_field_literal(f)),
        E::Tup(xs) => xs.iter().any(|f| polyish(f) || poly_field_literal(f)),
        E::Arr(xs) => xs.iter().any(poly_field_literal),
        E::Lam(_, b) => poly_field_literal(b),
        E::App(a, b) | E::Lt(a, b) => poly_field_literal(a) || poly_field_literal(b),
        E::Let(_, a, b) => poly_field_literal(a) || poly_field_literal(b),
        E::If(c, t, f) => poly_field_literal(c) || poly_field_literal(t) || poly_field_literal(f),
        E::Proj(a, _) => poly_field_literal(a),
        E::Var(_) | E::Int(_) | E::Str(_) | E::Con(_) => false,
    }
}

fn change_kind(a: &Verdict, b: &Verdict) -> &'static str {
    match (a, b) {
        (Verdict::Ok(_), Verdict::Ok(_)) => "type-changed",
        (Verdict::Ok(_), Verdict::Err) => "now-rejected",
        (Verdict::Err, Verdict::Ok(_)) => "now-accepted",
        _ => "other",
    }
}

// ---------------------------------------------------------------------------------------------
// exhaustive enumeration of small closed terms over a small signature

fn enumerate(size: usize, scope: &mut Vec<String>, out: &mut Vec<E>) {
    // all terms of exactly `size` nodes
    if size == 0 {
        return;
    }
    if size == 1 {
        for x in scope.iter() {
            if !out.contains(&E::Var(x.clone())) {
                out.push(E::Var(x.clone()));
            }
        }
        out.push(E::Int(1));
        out.push(E::Str("a".into()));
        out.push(E::Arr(vec![]));
        return;
    }
    let sub = |n: usize, scope: &mut Vec<String>| {
        let mut v = vec![];
        enumerate(n, scope, &mut v);
        v
    };
    // unary: lam, proj, 1-element array, 1-field record
    for x in ["x", "y"] {
        scope.push(x.to_string());
        for b in sub(size - 1, scope) {
            out.push(E::Lam(x.to_string(), Box::new(b)));
        }
        scope.pop();
    }
    for b in sub(size - 1, scope) {
        out.push(E::Proj(Box::new(b.clone()), "x".into()));
        out.push(E::Arr(vec![b.clone()]));
        out.push(E::Rec(vec![("x".into(), b)]));
    }
    // binary: app, let, tuple, 2-array, 2-record
    for k in 1..size - 1 {
        let l = sub(k, scope);
        let r = sub(size - 1 - k, scope);
        for a in &l {
            for b in &r {
                out.push(E::App(Box::new(a.clone()), Box::new(b.clone())));
                out.push(E::Tup(vec![a.clone(), b.clone()]));
                out.push(E::Arr(vec![a.clone(), b.clone()]));
                out.push(E::Rec(vec![("y".into(), a.clone()), ("x".into(), b.clone())]));
            }
        }
        scope.push("y".to_string());
        let r2 = sub(size - 1 - k, scope);
        scope.pop();
        for a in &l {
            for b in &r2 {
                out.push(E::Let("y".into(), Box::new(a.clone()), Box::new(b.clone())));
            }
        }
    }
}

/// Targeted family "generalisation under a binder":
/// `\f [h] -> let g = \a [b] -> [let y = … in] C[f, h, a, b, y] in D[g]`.
/// `C` applies an outer parameter to (or joins it with) an inner parameter wrapped in tuples /
/// nested tuples / records / arrays / lambdas / the result of an earlier application; `D` uses
/// `g` at one or two types.  The inner `let` must not generalise what is reachable from the outer
/// parameters (level adjustment when a variable is bound: substitution.rs `occurs` /
/// `update_level`; generalize.rs:80).
fn family() -> Vec<E> {
    let v = |s: &str| E::Var(s.to_string());
    let bx = |e: E| Box::new(e);
    let lam = |x: &str, b: E| E::Lam(x.to_string(), Box::new(b));
    let app = |f: E, a: E| E::App(Box::new(f), Box::new(a));
    let let_ = |x: &str, a: E, b: E| E::Let(x.to_string(), Box::new(a), Box::new(b));
    let wraps = |x: &E| -> Vec<E> {
        vec![
            x.clone(),
            E::Tup(vec![x.clone(), E::Int(1)]),
            E::Tup(vec![E::Int(0), x.clone()]),
            E::Tup(vec![E::Tup(vec![x.clone(), E::Int(1)]), E::Str("s".into())]),
            E::Rec(vec![("x".into(), x.clone())]),
            E::Rec(vec![("y".into(), E::Int(1)), ("x".into(), x.clone())]),
            E::Arr(vec![x.clone()]),
            lam("z", x.clone()),
            E::Tup(vec![x.clone(), x.clone()]),
        ]
    };
    let ds = |g: E| -> Vec<E> {
        vec![
            g.clone(),
            app(g.clone(), E::Int(1)),
            E::Tup(vec![app(g.clone(), E::Int(1)), app(g.clone(), E::Str("s".into()))]),
            E::Arr(vec![app(g.clone(), E::Int(1)), app(g.clone(), E::Int(2))]),
            app(g.clone(), g.clone()),
            E::Tup(vec![app(g.clone(), lam("i", E::Str("s".into()))), app(g.clone(), lam("i", E::Int(1)))]),
        ]
    };
    let mut out = vec![];
    for two_outer in [false, true] {
        for two_inner in [false, true] {
            // the optional earlier application inside `g`
            let mut pres: Vec<Option<E>> = vec![None, Some(app(v("a"), E::Int(1)))];
            if !two_inner {
                pres.push(Some(app(v("f"), E::Int(1))));
                pres.push(Some(app(v("f"), v("a"))));
            }
            if two_outer && two_inner {
                pres.truncate(1);
            }
            for pre in pres {
                // `let y = f a in … f (a, 1)` asks for the infinite type a = (a, Int): the real
                // checker overflows its stack on it (see notes) — with that `pre` only `y` is used
                let pre_fa = pre == Some(app(v("f"), v("a")));
                let mut atoms = if pre_fa { vec![] } else { vec![v("a")] };
                if two_inner {
                    atoms.push(v("b"));
                    atoms.push(E::Tup(vec![v("a"), v("b")]));
                }
                if pre.is_some() {
                    atoms.push(v("y"));
                }
                for atom in &atoms {
                    for w in wraps(atom) {
                        let mut cs = vec![
                            app(v("f"), w.clone()),
                            E::Arr(vec![v("f"), w.clone()]),
                            E::If(bx(E::Lt(bx(E::Int(1)), bx(E::Int(2)))), bx(v("f")), bx(w.clone())),
                            lam("z", app(v("f"), w.clone())),
                        ];
                        if two_outer {
                            cs.push(app(v("h"), app(v("f"), w.clone())));
                            cs.push(E::Tup(vec![app(v("f"), w.clone()), app(v("h"), w.clone())]));
                        }
                        for c in cs {
                            let mut body = c;
                            if let Some(p) = &pre {
                                body = let_("y", p.clone(), body);
                            }
                            if two_inner {
                                body = lam("b", body);
                            }
                            let gdef = lam("a", body);
                            for d in ds(v("g")) {
                                let mut e = let_("g", gdef.clone(), d);
                                if two_outer {
                                    e = lam("h", e);
                                }
                                out.push(lam("f", e));
                            }
                        }
                    }
                }
            }
        }
    }
    out
}

/// Targeted family "conditional of functions in inferred position" (wave 2):
/// `K[ if COND then L1 else L2 ]` where `L1`, `L2` range over a small set of function-valued
/// expressions (literal lambdas — whose type the real checker generalises in place —, a let-bound
/// identity, a lambda-bound variable), in BOTH orders, `K` over every position without an expected
/// type (top, tuple component, record field, function position of an application, let right-hand
/// side used at one / two types, array element), optionally under a lambda binder that the
/// condition uses.  The join of the two branches must instantiate a generalised branch type
/// (typecheck.rs:720-734 IfElse).  Returns (term, position tag).
fn family_if() -> Vec<(E, &'static str)> {
    let v = |s: &str| E::Var(s.to_string());
    let bx = |e: E| Box::new(e);
    let lam = |x: &str, b: E| E::Lam(x.to_string(), Box::new(b));
    let app = |f: E, a: E| E::App(Box::new(f), Box::new(a));
    let let_ = |x: &str, a: E, b: E| E::Let(x.to_string(), Box::new(a), Box::new(b));
    // the function-valued expressions, with binder `x` (then-branch) or `w` (else-branch)
    let funs = |x: &str| -> Vec<E> {
        vec![
            lam(x, v(x)),
            lam(x, E::Lt(bx(v(x)), bx(E::Int(1)))),
            lam(x, E::Tup(vec![v(x), E::Int(1)])),
            lam(x, lam("y", v(x))),
            lam(x, E::Int(0)),
            v("i"), // let-bound identity (the whole term is wrapped in `let i = \z -> z in …`)
            v("k"), // a variable bound by an enclosing lambda
        ]
    };
    let mut out = vec![];
    for under in [false, true] {
        let cond = if under {
            E::Lt(bx(v("c")), bx(E::Int(0)))
        } else {
            E::Lt(bx(E::Int(1)), bx(E::Int(2)))
        };
        for l1 in funs("x") {
            for l2 in funs("w") {
                let i = E::If(bx(cond.clone()), bx(l1.clone()), bx(l2.clone()));
                let ctxs: Vec<(E, &'static str)> = vec![
                    (i.clone(), "top"),
                    (E::Tup(vec![i.clone(), E::Int(1)]), "tuple0"),
                    (E::Tup(vec![E::Int(1), i.clone()]), "tuple1"),
                    (E::Rec(vec![("f".into(), i.clone())]), "field"),
                    (app(i.clone(), E::Int(1)), "app-fun"),
                    (let_("g", i.clone(), v("g")), "let-rhs"),
                    (
                        let_("g", i.clone(), E::Tup(vec![app(v("g"), E::Int(1)), app(v("g"), E::Str("s".into()))])),
                        "let-rhs-poly",
                    ),
                    (E::Arr(vec![i.clone()]), "array"),
                    (E::Arr(vec![lam("u", v("u")), i.clone()]), "array-join"),
                ];
                for (mut e, pos) in ctxs {
                    if free_in("k", &e) {
                        e = lam("k", e);
                    }
                    if free_in("i", &e) {
                        e = let_("i", lam("z", v("z")), e);
                    }
                    if under {
                        e = lam("c", e);
                    }
                    out.push((e, pos));
                }
            }
        }
    }
    out
}

fn corpus() -> Vec<E> {
    // hand-written regression shapes (let-polymorphism × rows nestings; the row-tail witnesses)
    let v = |s: &str| Box::new(E::Var(s.to_string()));
    let lam = |x: &str, b: E| E::Lam(x.to_string(), Box::new(b));
    let let_ = |x: &str, a: E, b: E| E::Let(x.to_string(), Box::new(a), Box::new(b));
    let proj = |e: Box<E>, l: &str| E::Proj(e, l.to_string());
    let xy = E::Rec(vec![("x".into(), E::Int(1)), ("y".into(), E::Int(2))]);
    vec![
        // witness of the unlinked row tail (open record against a longer closed one)
        lam("r", let_("z", proj(v("r"), "x"), E::Arr(vec![*v("r"), xy.clone()]))),
        // two open records with different fields
        lam("r", lam("g", let_("z", E::Tup(vec![proj(v("r"), "x"), proj(v("g"), "y")]), E::Arr(vec![*v("r"), *v("g")])))),
        // generalisation under a lambda must not generalise the lambda's variable
        lam("x", let_("f", lam("z", E::Tup(vec![*v("x"), *v("z")])), E::Tup(vec![
            E::App(v("f"), Box::new(E::Int(1))), E::App(v("f"), Box::new(E::Str("s".into())))]))),
        lam("f", let_("g", lam("y", E::App(v("f"), v("y"))), E::Tup(vec![
            E::App(v("g"), Box::new(E::Int(1))), E::App(v("g"), Box::new(E::Str("a".into())))]))),
        let_("f", lam("r", proj(v("r"), "x")), E::Tup(vec![
            E::App(v("f"), Box::new(E::Rec(vec![("x".into(), E::Int(1))]))),
            E::App(v("f"), Box::new(E::Rec(vec![("x".into(), E::Str("a".into())), ("y".into(), E::Int(2))])))])),
        lam("x", E::App(v("x"), v("x"))),
        let_("p", E::Arr(vec![]), E::Tup(vec![*v("p"), *v("p")])),
        // known finding: record fields are generalised to first-class polymorphic types
        E::Arr(vec![E::Rec(vec![("x".into(), E::Arr(vec![]))]), E::Rec(vec![("x".into(), E::Arr(vec![]))])]),
        lam("x", E::Arr(vec![*v("x"), E::Rec(vec![("x".into(), E::Arr(vec![]))])])),
        lam("x", E::Arr(vec![*v("x"), E::Rec(vec![("x".into(), lam("y", *v("y")))])])),
        // the same through the two branches of an `if` (lambda fields with an unused parameter)
        lam("c", E::If(v("c"),
            Box::new(E::Rec(vec![("z".into(), lam("x", E::Int(0)))])),
            Box::new(E::Rec(vec![("z".into(), lam("y", E::Int(0)))])))),
        lam("c", E::If(v("c"),
            Box::new(E::Tup(vec![lam("x", E::Int(0)), E::Int(1)])),
            Box::new(E::Tup(vec![lam("y", E::Int(0)), E::Int(2)])))),
        // untypable (infinite type through a row): the real checker overflows its stack
        lam("x", E::Arr(vec![proj(v("x"), "x"), *v("x")])),
    ]
}

fn main() {
    // deep recursion in the checker on nested programs: run with a large stack
    let h = std::thread::Builder::new().stack_size(1 << 24).spawn(main2).unwrap();
    h.join().unwrap();
}

fn main2() {
    gv::quiet_panics();
    let args = Args::parse();
    if args.extra.iter().any(|a| a == "--probe") {
        use std::io::BufRead;
        let mut real = Real::new();
        for line in std::io::stdin().lock().lines() {
            let line = line.unwrap();
            let vm = &real.vm;
            real.n += 1;
            let r = gv::catch(|| vm.typecheck_str(&format!("p{}", real.n), &line, None));
            match r {
                Ok(Ok((_, t))) => println!("{}\n   OK {}", line, t),
                Ok(Err(e)) => println!("{}\n   ERR {}", line, format!("{}", e).replace('\n', " | ")),
                Err(p) => println!("{}\n   PANIC {}", line, p),
            }
        }
        return;
    }
    if let Some(rp) = &args.replay {
        let mut out = Out::new(&args.out);
        let j: serde_json::Value = serde_json::from_str(&std::fs::read_to_string(rp).unwrap()).unwrap();
        let case = &j["case"];
        let ast = case["ast"].as_str().unwrap_or("");
        let style = case["style"].as_u64().unwrap_or(0) as u32;
        match typarse::parse_expr(ast) {
            Some(e) => {
                let mut rec = CaseRec::default();
                let mut rng = gv::rng::Rng::new(args.seed, 1000);
                let famtag = case["family"].as_str().map(|s| s.to_string());
                one(&mut rec, &mut Real::new(), &e, style, &mut rng, true, famtag.is_none(), famtag.as_deref());
                for o in &rec.oracle {
                    println!("oracle: {} — {}", o["fingerprint"], o["what"]);
                }
                CaseRec::emit(&rec.to_json(), &mut out);
            }
            None => println!("cannot parse replay ast: {}", ast),
        }
        out.finish();
        return;
    }
    // The whole case stream is a pure function of (tier, seed): the parent and every child
    // build the same list; a child processes an index range.
    let mut cases: Vec<(E, u32, bool, Option<&'static str>)> = vec![];
    for e in corpus() {
        cases.push((e, 0, true, None));
    }
    // targeted family, exhaustive in both tiers (correspondence + algorithm-W oracle only)
    let fam = family();
    let n_fam = fam.len() as u64;
    for e in fam {
        cases.push((e, 0, false, None));
    }
    // targeted family "conditional of functions in inferred position", exhaustive in both tiers
    let fam_if = family_if();
    let n_fam_if = fam_if.len() as u64;
    let mut n_fam_if_untypable = 0u64;
    for (e, pos) in fam_if {
        // only the HM-typable members (by the independent algorithm W) are sent: the untypable ones
        // mostly ask for an infinite type (identity against `fun w -> (w, 1)`), on which the real
        // checker overflows its stack (see notes, defect 4) and each costs a process restart
        if refw::infer_program(&e).result.is_none() {
            n_fam_if_untypable += 1;
            continue;
        }
        cases.push((e, 0, false, Some(pos)));
    }
    let max = if args.thorough() { 5 } else { 4 };
    let mut n_exh = 0u64;
    for size in 1..=max {
        let mut v = vec![];
        enumerate(size, &mut vec![], &mut v);
        for e in v {
            n_exh += 1;
            cases.push((e, (n_exh % 4) as u32, true, None));
        }
    }
    let n_rand = if args.thorough() { 15000 } else { 2000 };
    let mut g = Gen { rng: gv::rng::Rng::new(args.seed, 33) };
    let mut too_large = 0u64;
    for _ in 0..n_rand {
        let depth = g.rng.range(2, 5) as u32;
        let e = g.gen(depth, &mut vec![]);
        let style = g.rng.below(4) as u32;
        if e.size() > 40 {
            too_large += 1;
            continue;
        }
        cases.push((e, style, true, None));
    }
    if let Some(p) = args.extra.iter().position(|a| a == "--child") {
        // child: process cases[lo..hi), one JSON line per case, `START i` before each
        let lo: usize = args.extra[p + 1].parse().unwrap();
        let hi: usize = args.extra[p + 2].parse().unwrap();
        let mut real = Real::new();
        use std::io::Write;
        let so = std::io::stdout();
        for i in lo..hi.min(cases.len()) {
            {
                let mut l = so.lock();
                writeln!(l, "START {}", i).unwrap();
                l.flush().unwrap();
            }
            let mut rec = CaseRec::default();
            rec.idx = i as u64;
            let mut rng = gv::rng::Rng::new(args.seed, 1000 + i as u64);
            one(&mut rec, &mut real, &cases[i].0, cases[i].1, &mut rng, false, cases[i].2, cases[i].3);
            let mut l = so.lock();
            writeln!(l, "CASE {}", rec.to_json()).unwrap();
            l.flush().unwrap();
        }
        return;
    }
    let mut out = Out::new(&args.out);
    out.stats.insert("exhaustive_up_to_size".into(), (max as u64).into());
    out.stats.insert("exhaustive_terms".into(), n_exh.into());
    out.stats.insert("family_generalisation_under_binder".into(), n_fam.into());
    out.stats.insert("family_if_lambda_inferred_position".into(), (n_fam_if - n_fam_if_untypable).into());
    out.add("skipped:family-if-lambda-untypable", n_fam_if_untypable);
    out.add("skipped:too-large", too_large);
    let seed_s = args.seed.to_string();
    let mut lo = 0usize;
    let batch = 200usize;
    while lo < cases.len() {
        let hi = (lo + batch).min(cases.len());
        let (los, his) = (lo.to_string(), hi.to_string());
        let ex = gv::child::run(
            &["--tier", &args.tier, "--seed", &seed_s, "--out", args.out.to_str().unwrap(), "--child", &los, &his],
            b"",
            std::time::Duration::from_secs(20),
        );
        let (text, clean) = match &ex {
            gv::child::Exit::Ok(s) => (s.clone(), true),
            gv::child::Exit::Code(_, s, _) | gv::child::Exit::Signal(_, s, _) | gv::child::Exit::Timeout(s) => (s.clone(), false),
        };
        let mut started: Option<usize> = None;
        let mut done = lo;
        for line in text.lines() {
            if let Some(r) = line.strip_prefix("START ") {
                started = r.trim().parse().ok();
            } else if let Some(r) = line.strip_prefix("CASE ") {
                if let Ok(j) = serde_json::from_str::<serde_json::Value>(r) {
                    CaseRec::emit(&j, &mut out);
                    done = j["idx"].as_u64().unwrap() as usize + 1;
                    started = None;
                }
            }
        }
        if clean {
            lo = hi;
        } else {
            // the checker took the process down (stack overflow / abort / hang) on case `started`
            let k = started.unwrap_or(done);
            if let gv::child::Exit::Timeout(_) = &ex {
                // a watchdog timeout may just be a loaded machine: retry this one case alone with
                // a 4x budget before calling it a hang
                let (ks, k1s) = (k.to_string(), (k + 1).to_string());
                let ex2 = gv::child::run(
                    &["--tier", &args.tier, "--seed", &seed_s, "--out", args.out.to_str().unwrap(), "--child", &ks, &k1s],
                    b"",
                    std::time::Duration::from_secs(80),
                );
                if let gv::child::Exit::Ok(text2) = &ex2 {
                    for line in text2.lines() {
                        if let Some(r) = line.strip_prefix("CASE ") {
                            if let Ok(j) = serde_json::from_str::<serde_json::Value>(r) {
                                CaseRec::emit(&j, &mut out);
                            }
                        }
                    }
                    out.count("watchdog-retry-ok");
                    lo = k + 1;
                    continue;
                }
            }
            let (e, style, _, _) = &cases[k.min(cases.len() - 1)];
            let src = program(e, *style);
            let w = refw::infer_program(e);
            out.count(&format!("checker-crash:{}", ex.class()));
            if out.samples.len() < 8 {
                out.sample(serde_json::json!({"program": src, "impl": format!("process {}", ex.class())}));
            }
            if w.result.is_some() {
                // a typable program must be accepted
                out.oracle_fail(
                    &format!("crash:typecheck:{}", feature_tag(e)),
                    &format!("the type checker brought the process down ({}) on a typable program", ex.class()),
                    serde_json::json!({"program": src, "ast": sexp(e), "style": style}),
                );
            } else {
                // untypable program: not a statement of this property; recorded in the evidence
                let mut f = std::fs::OpenOptions::new()
                    .create(true)
                    .append(true)
                    .open(args.out.join("crashes.txt"))
                    .unwrap();
                use std::io::Write;
                writeln!(f, "{}\t{}", ex.class(), src).unwrap();
            }
            lo = k + 1;
        }
    }
    out.finish();
}

#[allow(dead_code)]
fn _unused(_: HashMap<u8, u8>) {}
