//! A second, harness-side transcription of the documented strict call-by-value semantics
//! (book/src/syntax-and-semantics.md) for the `gv::surf` fragment, independent of the Lean model
//! `GluonModel.Surf.eval` (which answers the same programs through the driver). The C01 oracle
//! uses it to evaluate the property statement directly on the implementation's behaviour:
//! "running the program yields exactly the outcome the semantics assigns".
//!
//! Two modes:
//! * `Mode::Strict`  — the semantics itself.
//! * `Mode::Lenient` — the ONE documented liberty of the optimiser: a *builtin* arithmetic
//!   failure (`#Int+ - * /` overflow, division by zero) whose result is never needed may be
//!   skipped. Modelled as a deferred failure: the failing builtin yields a poison value; a
//!   builtin construct that looks at it (operator, branch condition, refutable pattern,
//!   projection) becomes a deferred failure itself without evaluating further; it is raised as
//!   `err:arith` as soon as it crosses a call boundary — being the function, an argument or the
//!   result of a (non-constructor) call — or is part of the program's result. Calls are never deferred: whatever fails inside a callee (also builtin
//!   arithmetic whose result the callee returns) fails at the call. User `error` and unmatched
//!   patterns are never deferred.
//!   The lenient outcome over-approximates what any dead-binding elimination that respects the
//!   contract can produce; an optimised run may agree with the strict OR the lenient outcome,
//!   and the lenient one is consulted only when the strict outcome is `err:arith`.
use gv::surf::{Expr, Pat, Src};
use std::rc::Rc;

#[derive(Clone, Copy, PartialEq, Debug)]
pub enum Mode {
    Strict,
    Lenient,
}

#[derive(Debug, Clone, PartialEq)]
pub enum Err {
    Arith,
    Unmatched,
    User(String),
    Fuel,
    Wrong(&'static str),
    /// internal (lenient mode): the construct being evaluated needs a deferred failure and
    /// becomes a deferred failure itself
    Defer,
}

pub enum Val {
    Int(i64),
    Str(String),
    Data(usize, Vec<V>),
    Arr(Vec<V>),
    Clos(Vec<String>, Rc<Expr>, Env),
    /// member `idx` of a recursive group
    RecClos(Rc<Vec<(String, Vec<String>, Rc<Expr>)>>, usize, Env),
    CtorFn(usize, usize),
    Pap(V, Vec<V>),
    /// deferred builtin arithmetic failure (lenient mode only)
    Poison,
}
pub type V = Rc<Val>;

pub enum EnvNode {
    Nil,
    Cons(String, V, Env),
}
pub type Env = Rc<EnvNode>;

fn lookup(env: &Env, x: &str) -> Option<V> {
    let mut cur = env;
    loop {
        match &**cur {
            EnvNode::Nil => return None,
            EnvNode::Cons(y, v, rest) => {
                if y == x {
                    return Some(v.clone());
                }
                cur = rest;
            }
        }
    }
}

fn bind(env: &Env, x: &str, v: V) -> Env {
    Rc::new(EnvNode::Cons(x.to_string(), v, env.clone()))
}

fn bool_val(b: bool) -> V {
    Rc::new(Val::Data(if b { 1 } else { 0 }, vec![]))
}

pub struct Interp {
    pub mode: Mode,
    pub steps: u64,
    pub limit: u64,
    /// number of builtin arithmetic failures that were deferred (lenient mode)
    pub deferred: u64,
}

type R<T> = Result<T, Err>;

impl Interp {
    pub fn new(mode: Mode) -> Interp {
        Interp { mode, steps: 0, limit: 2_000_000, deferred: 0 }
    }

    fn tick(&mut self) -> R<()> {
        self.steps += 1;
        if self.steps > self.limit {
            Err(Err::Fuel)
        } else {
            Ok(())
        }
    }

    fn prim(&mut self, op: &str, a: &V, b: &V) -> R<V> {
        let (x, y) = match (&**a, &**b) {
            (Val::Int(x), Val::Int(y)) => (*x, *y),
            (Val::Poison, Val::Int(_)) | (Val::Int(_), Val::Poison) | (Val::Poison, Val::Poison) => {
                return Ok(Rc::new(Val::Poison));
            }
            _ => return Err(Err::Wrong("prim")),
        };
        let r = match op {
            "+" => x.checked_add(y),
            "-" => x.checked_sub(y),
            "*" => x.checked_mul(y),
            "/" => {
                if y == 0 {
                    None
                } else {
                    x.checked_div(y)
                }
            }
            "==" => return Ok(bool_val(x == y)),
            "<" => return Ok(bool_val(x < y)),
            _ => return Err(Err::Wrong("prim")),
        };
        match r {
            Some(v) => Ok(Rc::new(Val::Int(v))),
            None => {
                if self.mode == Mode::Lenient {
                    self.deferred += 1;
                    Ok(Rc::new(Val::Poison))
                } else {
                    Err(Err::Arith)
                }
            }
        }
    }

    /// A value that is needed: a deferred failure happens now.
    fn force(&self, v: &V) -> R<()> {
        match &**v {
            Val::Poison => Err(Err::Arith),
            _ => Ok(()),
        }
    }

    /// A builtin construct (branch, pattern, projection) looks at a value: in lenient mode the
    /// whole construct becomes the deferred failure (it contains no call that was reached).
    fn peek(&self, v: &V) -> R<()> {
        match &**v {
            Val::Poison => Err(Err::Defer),
            _ => Ok(()),
        }
    }

    /// Everything reachable through data (not through closures) is needed.
    pub fn force_deep(&self, v: &V) -> R<()> {
        match &**v {
            Val::Poison => Err(Err::Arith),
            Val::Data(_, vs) | Val::Arr(vs) => {
                for x in vs {
                    self.force_deep(x)?;
                }
                Ok(())
            }
            Val::Pap(f, vs) => {
                self.force_deep(f)?;
                for x in vs {
                    self.force_deep(x)?;
                }
                Ok(())
            }
            _ => Ok(()),
        }
    }

    /// `Ok(None)`: does not match.
    fn match_pat(&self, p: &Pat, v: &V, env: Env) -> R<Option<Env>> {
        match p {
            Pat::Wild => Ok(Some(env)),
            Pat::Var(x) => Ok(Some(bind(&env, x, v.clone()))),
            Pat::As(x, q) => {
                // the Lean model puts the `as` name in front of the sub-pattern's bindings;
                // names are distinct, so the order is unobservable
                let env = bind(&env, x, v.clone());
                self.match_pat(q, v, env)
            }
            Pat::Int(n) => {
                self.peek(v)?;
                match &**v {
                    Val::Int(m) => Ok(if n == m { Some(env) } else { None }),
                    _ => Ok(None),
                }
            }
            Pat::Str(s) => {
                self.peek(v)?;
                match &**v {
                    Val::Str(t) => Ok(if s == t { Some(env) } else { None }),
                    _ => Ok(None),
                }
            }
            Pat::Ctor { tag, args, .. } => {
                self.peek(v)?;
                match &**v {
                    Val::Data(t, vs) if t == tag => {
                        let mut env = env;
                        for (i, q) in args.iter().enumerate() {
                            let x = match vs.get(i) {
                                Some(x) => x,
                                None => return Ok(None),
                            };
                            match self.match_pat(q, x, env)? {
                                Some(e) => env = e,
                                None => return Ok(None),
                            }
                        }
                        Ok(Some(env))
                    }
                    _ => Ok(None),
                }
            }
            Pat::Rec(fs) => {
                let idx: Vec<(usize, &Pat)> = fs.iter().map(|(_, i, q)| (*i, q)).collect();
                self.match_fields(&idx, v, env)
            }
            Pat::Tup(ps) => {
                let idx: Vec<(usize, &Pat)> = ps.iter().enumerate().collect();
                self.match_fields(&idx, v, env)
            }
        }
    }

    fn match_fields(&self, fs: &[(usize, &Pat)], v: &V, env: Env) -> R<Option<Env>> {
        match &**v {
            // a record / tuple pattern cannot fail: every field of a deferred failure is one
            Val::Poison => {
                let mut env = env;
                for (_, q) in fs {
                    match self.match_pat(q, v, env)? {
                        Some(e) => env = e,
                        None => return Ok(None),
                    }
                }
                Ok(Some(env))
            }
            Val::Data(_, vs) => {
                let mut env = env;
                for (i, q) in fs {
                    let x = match vs.get(*i) {
                        Some(x) => x,
                        None => return Ok(None),
                    };
                    match self.match_pat(q, x, env)? {
                        Some(e) => env = e,
                        None => return Ok(None),
                    }
                }
                Ok(Some(env))
            }
            _ => Ok(None),
        }
    }

    fn rec_env(&self, group: &Rc<Vec<(String, Vec<String>, Rc<Expr>)>>, env: &Env) -> Env {
        let mut e = env.clone();
        for (i, (name, _, _)) in group.iter().enumerate() {
            e = bind(&e, name, Rc::new(Val::RecClos(group.clone(), i, env.clone())));
        }
        e
    }

    fn eval_list(&mut self, env: &Env, es: &[Expr]) -> R<Vec<V>> {
        let mut out = Vec::with_capacity(es.len());
        for e in es {
            out.push(self.eval(env, e)?);
        }
        Ok(out)
    }

    fn truth(&self, v: &V, what: &'static str) -> R<bool> {
        self.peek(v)?;
        match &**v {
            Val::Data(1, _) => Ok(true),
            Val::Data(0, _) => Ok(false),
            _ => Err(Err::Wrong(what)),
        }
    }

    pub fn eval(&mut self, env: &Env, e: &Expr) -> R<V> {
        match self.eval_inner(env, e) {
            Err(Err::Defer) => Ok(Rc::new(Val::Poison)),
            r => r,
        }
    }

    fn eval_inner(&mut self, env: &Env, e: &Expr) -> R<V> {
        self.tick()?;
        match e {
            Expr::Int(n) => Ok(Rc::new(Val::Int(*n))),
            Expr::Str(s) => Ok(Rc::new(Val::Str(s.clone()))),
            Expr::Unit => Ok(Rc::new(Val::Data(0, vec![]))),
            Expr::True => Ok(bool_val(true)),
            Expr::False => Ok(bool_val(false)),
            Expr::Var(x) => lookup(env, x).ok_or(Err::Wrong("unbound")),
            Expr::Lam(xs, body) => Ok(Rc::new(Val::Clos(xs.clone(), Rc::new((**body).clone()), env.clone()))),
            Expr::App(f, args) => {
                let fv = self.eval(env, f)?;
                let vs = self.eval_list(env, args)?;
                self.apply(fv, vs)
            }
            Expr::Let(p, e1, e2) => {
                let v = self.eval(env, e1)?;
                match self.match_pat(p, &v, env.clone())? {
                    Some(env2) => self.eval(&env2, e2),
                    None => Err(Err::Unmatched),
                }
            }
            Expr::LetFun(f, xs, e1, e2) => {
                let v = Rc::new(Val::Clos(xs.clone(), Rc::new((**e1).clone()), env.clone()));
                let env2 = bind(env, f, v);
                self.eval(&env2, e2)
            }
            Expr::LetRec(bs, body) => {
                let group: Rc<Vec<(String, Vec<String>, Rc<Expr>)>> =
                    Rc::new(bs.iter().map(|(f, xs, e)| (f.clone(), xs.clone(), Rc::new(e.clone()))).collect());
                let env2 = self.rec_env(&group, env);
                self.eval(&env2, body)
            }
            Expr::If(c, a, b) => {
                let cv = self.eval(env, c)?;
                if self.truth(&cv, "if")? {
                    self.eval(env, a)
                } else {
                    self.eval(env, b)
                }
            }
            Expr::Prim(op, a, b) => {
                let x = self.eval(env, a)?;
                let y = self.eval(env, b)?;
                self.prim(op, &x, &y)
            }
            Expr::And(a, b) => {
                let x = self.eval(env, a)?;
                if self.truth(&x, "and")? {
                    self.eval(env, b)
                } else {
                    Ok(bool_val(false))
                }
            }
            Expr::Or(a, b) => {
                let x = self.eval(env, a)?;
                if self.truth(&x, "or")? {
                    Ok(bool_val(true))
                } else {
                    self.eval(env, b)
                }
            }
            Expr::Ctor { ty, tag } => {
                let arity = gv::surf::DECLS[*ty].ctors[*tag].1.len();
                if arity == 0 {
                    Ok(Rc::new(Val::Data(*tag, vec![])))
                } else {
                    Ok(Rc::new(Val::CtorFn(*tag, arity)))
                }
            }
            Expr::Match(s, alts) => {
                let v = self.eval(env, s)?;
                for (p, body) in alts {
                    if let Some(env2) = self.match_pat(p, &v, env.clone())? {
                        return self.eval(&env2, body);
                    }
                }
                Err(Err::Unmatched)
            }
            Expr::Record { fields, base, layout } => {
                let mut fs = Vec::with_capacity(fields.len());
                for (_, fe) in fields {
                    fs.push(self.eval(env, fe)?);
                }
                let bvs: Vec<V> = match base {
                    None => vec![],
                    Some(be) => {
                        let bv = self.eval(env, be)?;
                        self.peek(&bv)?;
                        match &*bv {
                            Val::Data(_, vs) => vs.clone(),
                            _ => return Err(Err::Wrong("record-base")),
                        }
                    }
                };
                let mut out = Vec::with_capacity(layout.len());
                for l in layout {
                    let v = match l {
                        Src::Field(i) => fs.get(*i),
                        Src::Base(j) => bvs.get(*j),
                    };
                    out.push(v.ok_or(Err::Wrong("record"))?.clone());
                }
                Ok(Rc::new(Val::Data(0, out)))
            }
            Expr::Proj(r, _, i) => {
                let v = self.eval(env, r)?;
                self.peek(&v)?;
                match &*v {
                    Val::Data(_, vs) => vs.get(*i).cloned().ok_or(Err::Wrong("proj")),
                    _ => Err(Err::Wrong("proj")),
                }
            }
            Expr::Tuple(es) => Ok(Rc::new(Val::Data(0, self.eval_list(env, es)?))),
            Expr::Array(es) => Ok(Rc::new(Val::Arr(self.eval_list(env, es)?))),
            Expr::Error(m) => Err(Err::User(m.clone())),
        }
    }

    /// Run a closure body: a call boundary — arguments were needed, and so is the result.
    fn call_body(&mut self, env: &Env, body: &Expr) -> R<V> {
        let r = self.eval(env, body)?;
        self.force_deep(&r)?;
        Ok(r)
    }

    pub fn apply(&mut self, f: V, args: Vec<V>) -> R<V> {
        self.tick()?;
        if args.is_empty() {
            return Ok(f);
        }
        self.force(&f)?;
        match &*f {
            Val::Clos(params, body, cenv) => {
                for a in &args {
                    self.force_deep(a)?;
                }
                let n = params.len();
                if args.len() < n {
                    return Ok(Rc::new(Val::Pap(f.clone(), args)));
                }
                let mut env = cenv.clone();
                for (x, v) in params.iter().zip(args.iter()) {
                    env = bind(&env, x, v.clone());
                }
                let r = self.call_body(&env, body)?;
                self.apply(r, args[n..].to_vec())
            }
            Val::RecClos(group, idx, cenv) => {
                for a in &args {
                    self.force_deep(a)?;
                }
                let (_, params, body) = group.get(*idx).ok_or(Err::Wrong("recclos"))?.clone();
                let n = params.len();
                let renv = self.rec_env(group, cenv);
                if n == 0 {
                    let r = self.call_body(&renv, &body)?;
                    return self.apply(r, args);
                }
                if args.len() < n {
                    return Ok(Rc::new(Val::Pap(f.clone(), args)));
                }
                let mut env = renv;
                for (x, v) in params.iter().zip(args.iter()) {
                    env = bind(&env, x, v.clone());
                }
                let r = self.call_body(&env, &body)?;
                self.apply(r, args[n..].to_vec())
            }
            Val::CtorFn(tag, arity) => {
                if args.len() < *arity {
                    // a partially applied constructor is a function call in the implementation
                    for a in &args {
                        self.force_deep(a)?;
                    }
                    Ok(Rc::new(Val::Pap(f.clone(), args)))
                } else if args.len() == *arity {
                    Ok(Rc::new(Val::Data(*tag, args)))
                } else {
                    Err(Err::Wrong("ctor-overapplied"))
                }
            }
            Val::Pap(g, args0) => {
                for a in &args {
                    self.force_deep(a)?;
                }
                let mut all = args0.clone();
                all.extend(args);
                self.apply(g.clone(), all)
            }
            _ => Err(Err::Wrong("call")),
        }
    }
}

fn render_val(v: &V, out: &mut String) {
    use std::fmt::Write;
    match &**v {
        Val::Int(n) => {
            let _ = write!(out, "(int {})", n);
        }
        Val::Str(s) => {
            let _ = write!(out, "(str {})", gv::quote(s));
        }
        Val::Data(t, vs) => {
            let _ = write!(out, "(data {}", t);
            for x in vs {
                out.push(' ');
                render_val(x, out);
            }
            out.push(')');
        }
        Val::Arr(vs) => {
            out.push_str("(arr");
            for x in vs {
                out.push(' ');
                render_val(x, out);
            }
            out.push(')');
        }
        Val::Poison => out.push_str("(poison)"),
        _ => out.push_str("(fn)"),
    }
}

pub fn render(r: &R<V>) -> String {
    match r {
        Ok(v) => {
            let mut s = String::from("(ok ");
            render_val(v, &mut s);
            s.push(')');
            s
        }
        Err(Err::Arith) => "err:arith".into(),
        Err(Err::Unmatched) => "err:unmatched".into(),
        Err(Err::User(m)) => format!("err:user {}", gv::quote(m)),
        Err(Err::Fuel) => "fuel".into(),
        Err(Err::Wrong(w)) => format!("wrong:{}", w),
        Err(Err::Defer) => "wrong:defer".into(),
    }
}

/// The canonical outcome the semantics assigns to a closed program (same text format as
/// `gv::surf::run_canon` and the Lean driver), and how many builtin failures were deferred.
pub fn outcome(e: &Expr, mode: Mode) -> (String, u64) {
    let mut it = Interp::new(mode);
    let env: Env = Rc::new(EnvNode::Nil);
    let r = it.eval(&env, e).and_then(|v| {
        // the program's result is needed
        it.force_deep(&v)?;
        Ok(v)
    });
    (render(&r), it.deferred)
}

/// Both outcomes, computed on a thread with a large stack (the interpreter recurses natively).
pub fn outcomes(progs: Vec<Expr>) -> Vec<(String, String, u64)> {
    std::thread::Builder::new()
        .stack_size(1 << 30)
        .spawn(move || {
            progs
                .iter()
                .map(|e| {
                    let (s, _) = outcome(e, Mode::Strict);
                    if s == "err:arith" {
                        let (l, d) = outcome(e, Mode::Lenient);
                        (s, l, d)
                    } else {
                        (s.clone(), s, 0)
                    }
                })
                .collect()
        })
        .unwrap()
        .join()
        .unwrap()
}
