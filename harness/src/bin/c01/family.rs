//! C01-local program family "a binding whose right-hand side contains a call": the
//! neighbourhood in which an optimiser can lose a run-time failure the strict semantics demands.
//!
//! Enumerated exhaustively over
//!   binding form  x  rhs shape  x  callee behaviour  x  position   (x callee form),
//! every program closed, well typed, terminating, inside the `gv::surf` fragment (so both the
//! Lean model `Surf.eval` and the harness-side reference `refsem` answer it exactly).
use gv::surf::{b, Expr, Pat, Src};

pub const FORMS: &[&str] =
    &["wild", "var-unused", "var-used", "tuple-unused", "record-unused", "chain-unused", "tuple-used"];
pub const SHAPES: &[&str] = &[
    "direct",
    "nested-let-unused",
    "nested-let-used",
    "match-on-call",
    "proj-of-call",
    "seq-block",
    "if-on-call",
    "arg-of-call",
    "applied-lambda",
    "tuple-proj",
];
pub const BEHAVIOURS: &[&str] = &[
    "returns",
    "user-error",
    "unmatched",
    "arith-in-callee",
    "cond-fails",
    "cond-returns",
    "fails-two-deep",
    "builtin-arith-no-call",
];
pub const POSITIONS: &[&str] = &["top", "fn-body", "closure", "closure-arg", "match-alt"];
pub const CALLEES: &[&str] = &["let-fun", "let-lambda", "record-field", "rec"];

pub struct Case {
    pub form: usize,
    pub shape: usize,
    pub behaviour: usize,
    pub position: usize,
    pub callee: usize,
    pub expr: Expr,
}

impl Case {
    pub fn key(&self) -> String {
        format!(
            "{}/{}/{}/{}/{}",
            FORMS[self.form], SHAPES[self.shape], BEHAVIOURS[self.behaviour], POSITIONS[self.position], CALLEES[self.callee]
        )
    }
}

fn var(x: &str) -> Expr {
    Expr::Var(x.to_string())
}
fn prim(op: &'static str, a: Expr, c: Expr) -> Expr {
    Expr::Prim(op, b(a), b(c))
}
fn pv(x: &str) -> Pat {
    Pat::Var(x.to_string())
}
fn record2(a: Expr, c: Expr, n1: &str, n2: &str) -> Expr {
    Expr::Record {
        fields: vec![(n1.to_string(), a), (n2.to_string(), c)],
        base: None,
        layout: vec![Src::Field(0), Src::Field(1)],
    }
}

/// Body of the Int-returning callee for a behaviour (parameter `x`).
fn callee_body(behaviour: usize) -> Expr {
    match behaviour {
        0 => prim("+", var("x"), Expr::Int(1)),
        // monomorphic (Int -> Int): the left operand is evaluated, then `error` is called
        1 | 6 => prim("+", var("x"), Expr::Error("boom".into())),
        2 => Expr::Match(b(var("x")), vec![(Pat::Int(0), Expr::Int(1))]),
        3 => prim("/", var("x"), Expr::Int(0)),
        4 | 5 => Expr::If(
            b(prim("<", var("x"), Expr::Int(5))),
            b(Expr::Error("bad".into())),
            b(var("x")),
        ),
        _ => prim("+", var("x"), Expr::Int(1)),
    }
}

/// The argument value the position passes (decides the conditional callee).
fn arg_value(behaviour: usize) -> i64 {
    if behaviour == 5 {
        9
    } else {
        1
    }
}

type Wrap = Box<dyn FnOnce(Expr) -> Expr>;

/// Definitions in front of everything: the callee `k` (Int -> Int), its record-returning
/// twin `kr` (Int -> { a : Int, b : Int }) and the harmless `kok`; returns the spine and the two
/// call builders.
fn define(behaviour: usize, callee: usize) -> (Vec<Wrap>, Box<dyn Fn(Expr) -> Expr>, Box<dyn Fn(Expr) -> Expr>) {
    let mut spine: Vec<Wrap> = vec![];
    let body = callee_body(behaviour);
    let body_r = record2(callee_body(behaviour), var("x"), "a", "b");
    let xs = vec!["x".to_string()];
    let (call, call_r): (Box<dyn Fn(Expr) -> Expr>, Box<dyn Fn(Expr) -> Expr>) = match callee {
        0 => {
            let (b1, b2, x1, x2) = (body, body_r, xs.clone(), xs.clone());
            spine.push(Box::new(move |e| Expr::LetFun("k".into(), x1, b(b1), b(e))));
            spine.push(Box::new(move |e| Expr::LetFun("kr".into(), x2, b(b2), b(e))));
            (
                Box::new(|a| Expr::App(b(var("k")), vec![a])),
                Box::new(|a| Expr::App(b(var("kr")), vec![a])),
            )
        }
        1 => {
            let (b1, b2, x1, x2) = (body, body_r, xs.clone(), xs.clone());
            spine.push(Box::new(move |e| Expr::Let(pv("k"), b(Expr::Lam(x1, b(b1))), b(e))));
            spine.push(Box::new(move |e| Expr::Let(pv("kr"), b(Expr::Lam(x2, b(b2))), b(e))));
            (
                Box::new(|a| Expr::App(b(var("k")), vec![a])),
                Box::new(|a| Expr::App(b(var("kr")), vec![a])),
            )
        }
        2 => {
            let (b1, b2, x1, x2) = (body, body_r, xs.clone(), xs.clone());
            spine.push(Box::new(move |e| {
                Expr::Let(pv("r"), b(record2(Expr::Lam(x1, b(b1)), Expr::Lam(x2, b(b2)), "k", "kr")), b(e))
            }));
            (
                Box::new(|a| Expr::App(b(Expr::Proj(b(var("r")), "k".into(), 0)), vec![a])),
                Box::new(|a| Expr::App(b(Expr::Proj(b(var("r")), "kr".into(), 1)), vec![a])),
            )
        }
        _ => {
            let (b1, b2, x1, x2) = (body, body_r, xs.clone(), xs.clone());
            spine.push(Box::new(move |e| {
                Expr::LetRec(vec![("k".into(), x1, b1), ("kr".into(), x2, b2)], b(e))
            }));
            (
                Box::new(|a| Expr::App(b(var("k")), vec![a])),
                Box::new(|a| Expr::App(b(var("kr")), vec![a])),
            )
        }
    };
    spine.push(Box::new(|e| {
        Expr::LetFun("kok".into(), vec!["x".into()], b(prim("+", var("x"), Expr::Int(1))), b(e))
    }));
    if behaviour == 6 {
        // the failing function is reached through one more user function
        let c1 = call(var("x"));
        let c2 = call_r(var("x"));
        spine.push(Box::new(move |e| Expr::LetFun("k2".into(), vec!["x".into()], b(c1), b(e))));
        spine.push(Box::new(move |e| Expr::LetFun("kr2".into(), vec!["x".into()], b(c2), b(e))));
        return (
            spine,
            Box::new(|a| Expr::App(b(var("k2")), vec![a])),
            Box::new(|a| Expr::App(b(var("kr2")), vec![a])),
        );
    }
    if behaviour == 7 {
        // no call at all: a builtin arithmetic failure (the optimiser's documented liberty)
        return (
            spine,
            Box::new(|a| prim("/", a, Expr::Int(0))),
            Box::new(|a| record2(prim("/", a.clone(), Expr::Int(0)), a, "a", "b")),
        );
    }
    (spine, call, call_r)
}

/// The right-hand side: `shape` around the call with argument `arg`.
fn rhs(shape: usize, arg: Expr, call: &dyn Fn(Expr) -> Expr, call_r: &dyn Fn(Expr) -> Expr) -> Expr {
    let c = call(arg.clone());
    match shape {
        0 => c,
        1 => Expr::Let(pv("t"), b(c), b(Expr::Int(2))),
        2 => Expr::Let(pv("t"), b(c), b(prim("+", var("t"), Expr::Int(1)))),
        3 => Expr::Match(b(c), vec![(Pat::Int(0), Expr::Int(1)), (pv("t"), Expr::Int(2))]),
        4 => Expr::Proj(b(call_r(arg)), "a".into(), 0),
        5 => Expr::Let(Pat::Wild, b(c), b(Expr::Int(2))),
        6 => Expr::If(b(prim("<", c, Expr::Int(3))), b(Expr::Int(1)), b(Expr::Int(2))),
        7 => Expr::App(b(var("kok")), vec![c]),
        8 => Expr::App(b(Expr::Lam(vec!["z".into()], b(call(var("z"))))), vec![arg]),
        _ => Expr::Proj(b(Expr::Tuple(vec![c, Expr::Int(1)])), "_0".into(), 0),
    }
}

/// `let <form> = rhs in <result>`; `other` is an Int expression available at that place.
fn binding(form: usize, r: Expr, other: Expr) -> Expr {
    let res = prim("+", other, Expr::Int(6));
    match form {
        0 => Expr::Let(Pat::Wild, b(r), b(res)),
        1 => Expr::Let(pv("u"), b(r), b(res)),
        2 => Expr::Let(pv("u"), b(r), b(prim("+", var("u"), Expr::Int(1)))),
        3 => Expr::Let(Pat::Tup(vec![pv("a1"), Pat::Wild]), b(Expr::Tuple(vec![r, Expr::Int(7)])), b(res)),
        4 => Expr::Let(
            Pat::Rec(vec![("x".into(), 0, pv("a1"))]),
            b(record2(r, Expr::Int(1), "x", "y")),
            b(res),
        ),
        5 => Expr::Let(pv("u"), b(r), b(Expr::Let(pv("w"), b(var("u")), b(res)))),
        _ => Expr::Let(
            Pat::Tup(vec![pv("a1"), pv("a2")]),
            b(Expr::Tuple(vec![r, Expr::Int(7)])),
            b(prim("+", var("a1"), var("a2"))),
        ),
    }
}

pub fn build(form: usize, shape: usize, behaviour: usize, position: usize, callee: usize) -> Case {
    let (spine, call, call_r) = define(behaviour, callee);
    let n = arg_value(behaviour);
    let inner = |arg: Expr| binding(form, rhs(shape, arg.clone(), &*call, &*call_r), arg);
    let core = match position {
        0 => inner(Expr::Int(n)),
        1 => Expr::LetFun(
            "h".into(),
            vec!["y".into()],
            b(inner(var("y"))),
            b(Expr::App(b(var("h")), vec![Expr::Int(n)])),
        ),
        2 => Expr::Let(
            pv("h"),
            b(Expr::Lam(vec!["y".into()], b(inner(var("y"))))),
            b(Expr::App(b(var("h")), vec![Expr::Int(n)])),
        ),
        3 => Expr::LetFun(
            "ap".into(),
            vec!["g".into(), "v".into()],
            b(Expr::App(b(var("g")), vec![var("v")])),
            b(Expr::App(
                b(var("ap")),
                vec![Expr::Lam(vec!["y".into()], b(inner(var("y")))), Expr::Int(n)],
            )),
        ),
        _ => Expr::Match(
            b(Expr::App(b(Expr::Ctor { ty: 0, tag: 0 }), vec![Expr::Int(n)])),
            vec![
                (Pat::Ctor { ty: 0, tag: 0, args: vec![pv("y")] }, inner(var("y"))),
                (Pat::Wild, Expr::Int(0)),
            ],
        ),
    };
    let mut e = core;
    for w in spine.into_iter().rev() {
        e = w(e);
    }
    Case { form, shape, behaviour, position, callee, expr: e }
}

/// Quick tier: exhaustive over form x shape x behaviour x position, the callee form rotating;
/// thorough tier: the full product.
pub fn enumerate(thorough: bool) -> Vec<Case> {
    let mut out = vec![];
    let mut i = 0usize;
    for form in 0..FORMS.len() {
        for shape in 0..SHAPES.len() {
            for behaviour in 0..BEHAVIOURS.len() {
                for position in 0..POSITIONS.len() {
                    if thorough {
                        for callee in 0..CALLEES.len() {
                            out.push(build(form, shape, behaviour, position, callee));
                        }
                    } else {
                        out.push(build(form, shape, behaviour, position, i % CALLEES.len()));
                        i += 1;
                    }
                }
            }
        }
    }
    out
}
