//! C12 — precompiled bytecode behaves like its source.
//!
//! Three streams (all from `--seed`):
//!  A. behaviour oracle: generated closed programs; source `run_expr` vs
//!     `compile_to_bytecode` (serde_json) → `Precompiled(..).run_expr` in the same VM, in a VM that
//!     never saw the source, and in a brand-new VM; plus the structural check "deserialised
//!     `Module` prints (Debug) like the compiled one" (every field of CompiledFunction);
//!  B. robustness oracle (child process): truncations and single-field corruptions of the
//!     serialised text must give `Err` or a value, never a panic/abort/hang; bytecode naming a
//!     global the VM does not define must give `Err`;
//!  C. correspondence with the Lean model `GluonModel.Share`: programs that build a *known* DAG of
//!     records / variants / arrays; the real `SeSeed` serialisation of the resulting value is
//!     abstracted to its Marked/Plain/Reference pattern and compared with the model's `ser` on the
//!     same DAG; corrupted / truncated streams go through the real `DeSeed` and the model's `de`.
use gluon::compiler_pipeline::{Compileable, Executable, Module, Precompiled};
use gluon::vm::api::{Hole, OpaqueValue, ValueRef};
use gluon::vm::serialization::{DeSeed, SeSeed};
use gluon::vm::thread::RootedValue;
use gluon::vm::Variants;
use gluon::{RootedThread, Thread, ThreadExt};
use gv::rng::Rng;
use gv::{Args, Out};
use serde_json::json;
use std::io::{BufRead, Write};
use std::time::Duration;

extern crate serde_state;
use serde_state::ser::SerializeState;

/// C07's dump of the real compiled functions with the `Split` arities taken from the core IR
/// (reused, not duplicated: the load-time verifier specification needs the same annotation).
#[allow(dead_code)]
#[path = "c07/bytecode.rs"]
mod bytecode;

thread_local! {
    /// instruction arrays (JSON text) of real compiled modules, for the `instrs` stream
    static INSTR_POOL: std::cell::RefCell<Vec<String>> = std::cell::RefCell::new(Vec::new());
}

// ------------------------------------------------------------------------------------------
// VM helpers
// ------------------------------------------------------------------------------------------

const HELPER_MOD: &str = "{ a = 7, f = \\x -> x #Int+ 1, s = \"helper\", g = \\x y -> x #Int* y }";

fn mk_vm(prelude: bool, helper: bool) -> RootedThread {
    let vm = gv::vm::new_vm();
    vm.get_database_mut().set_implicit_prelude(prelude);
    vm.get_database_mut().set_run_io(false);
    if helper {
        vm.load_script("gvmod", HELPER_MOD).expect("helper module");
    }
    vm
}

/// Canonical walk of a value: floats as bits, closures by name and upvars (depth-limited:
/// recursive closures are cyclic).
fn canon(v: Variants, depth: u32, out: &mut String) {
    if depth == 0 {
        out.push_str("..");
        return;
    }
    match v.as_ref() {
        ValueRef::Byte(b) => out.push_str(&format!("{}b", b)),
        ValueRef::Int(i) => out.push_str(&format!("{}", i)),
        ValueRef::Float(f) => out.push_str(&format!("f{:016x}", f.to_bits())),
        ValueRef::String(s) => out.push_str(&format!("{:?}", s)),
        ValueRef::Data(d) => {
            let mut names: Vec<String> = d.field_names().map(|s| s.to_string()).collect();
            names.sort();
            out.push_str(&format!("(#{}", d.tag()));
            if !names.is_empty() {
                out.push_str(&format!("{{{}}}", names.join(",")));
            }
            for f in d.iter() {
                out.push(' ');
                canon(f, depth - 1, out);
            }
            out.push(')');
        }
        ValueRef::Array(a) => {
            out.push('[');
            for (i, f) in a.iter().enumerate() {
                if i > 0 {
                    out.push(' ');
                }
                canon(f, depth - 1, out);
            }
            out.push(']');
        }
        ValueRef::Closure(c) => {
            out.push_str(&format!("<fn {}", c.name()));
            for u in c.upvars() {
                out.push(' ');
                canon(u, depth.saturating_sub(3), out);
            }
            out.push('>');
        }
        ValueRef::Userdata(_) => out.push_str("<userdata>"),
        ValueRef::Thread(_) => out.push_str("<thread>"),
        ValueRef::Internal => out.push_str("<internal>"),
    }
}

fn canon_s(v: Variants) -> String {
    let mut s = String::new();
    canon(v, 12, &mut s);
    s
}

fn err_class(e: &str) -> String {
    // a small enum of error kinds (messages contain positions / names)
    let e = e.to_lowercase();
    for (k, c) in [
        ("eof while parsing", "eof"),
        ("missing id", "missing-id"),
        ("is not defined", "undefined"),
        ("undefined", "undefined"),
        ("filenames do not match", "filename"),
        ("missing field", "missing-field"),
        ("unknown variant", "unknown-variant"),
        ("unknown field", "unknown-field"),
        ("invalid type", "invalid-type"),
        ("invalid length", "invalid-length"),
        ("invalid value", "invalid-value"),
        ("duplicate field", "duplicate-field"),
        ("expected", "syntax"),
        ("trailing", "syntax"),
        ("key must be a string", "syntax"),
        ("control character", "syntax"),
        ("invalid escape", "syntax"),
        ("invalid number", "syntax"),
        ("number out of range", "syntax"),
        ("invalid unicode", "syntax"),
        ("lone", "syntax"),
        ("out of memory", "oom"),
        ("arithmetic overflow", "overflow"),
        ("stack overflow", "stack-overflow"),
        ("panic", "vm-panic"),
    ] {
        if e.contains(k) {
            return c.to_string();
        }
    }
    "other".to_string()
}

fn run_source(vm: &Thread, name: &str, src: &str) -> Result<String, String> {
    match gv::catch(|| vm.run_expr::<OpaqueValue<&Thread, Hole>>(name, src)) {
        Err(p) => Err(format!("PANIC {}", p)),
        Ok(Err(e)) => Err(e.to_string()),
        Ok(Ok((v, _))) => Ok(canon_s(v.get_variant())),
    }
}

fn compile_bc(vm: &Thread, name: &str, src: &str) -> Result<Vec<u8>, String> {
    let mut buffer = Vec::new();
    let r = gv::catch(|| {
        let mut ser = serde_json::Serializer::new(&mut buffer);
        futures::executor::block_on(vm.compile_to_bytecode(name, src, &mut ser))
            .map_err(|e| match e {
                gluon::either::Either::Left(e) => e.to_string(),
                gluon::either::Either::Right(e) => e.to_string(),
            })
    });
    match r {
        Err(p) => Err(format!("PANIC {}", p)),
        Ok(Err(e)) => Err(e),
        Ok(Ok(())) => Ok(buffer),
    }
}

fn run_bc(vm: &Thread, name: &str, bytes: &[u8]) -> Result<String, String> {
    let r = gv::catch(|| {
        let mut de = serde_json::Deserializer::from_slice(bytes);
        let r = futures::executor::block_on(Precompiled(&mut de).run_expr(
            &mut vm.module_compiler(&mut vm.get_database()),
            vm,
            name,
            "",
            (),
        ));
        r.map(|v| canon_s(v.value.get_variant())).map_err(|e| e.to_string())
    });
    match r {
        Err(p) => Err(format!("PANIC {}", p)),
        Ok(x) => x,
    }
}

/// Symbols print as `Pointer { addr: 0x…, metadata: n }:name`; drop the address part.
fn scrub(s: &str) -> String {
    let mut out = String::with_capacity(s.len());
    let mut rest = s;
    while let Some(i) = rest.find("Pointer { addr: 0x") {
        out.push_str(&rest[..i]);
        match rest[i..].find("}:") {
            Some(j) => rest = &rest[i + j + 2..],
            None => {
                rest = &rest[i + 10..];
            }
        }
    }
    out.push_str(rest);
    let mut rest2 = out.as_str();
    let mut o3 = String::with_capacity(out.len());
    while let Some(i) = rest2.find("InternedStr(0x") {
        o3.push_str(&rest2[..i + 12]);
        let j = rest2[i + 12..].find(',').unwrap_or(0);
        rest2 = &rest2[i + 12 + j..];
    }
    o3.push_str(rest2);
    let out = o3;
    // `name@line_col` uniquifier suffixes are (deliberately) not serialised: symbol::serialize
    // writes `Symbol::as_ref()`; drop them on both sides
    let b: Vec<char> = out.chars().collect();
    let mut o2 = String::with_capacity(b.len());
    let mut i = 0;
    while i < b.len() {
        if b[i] == '@' && i + 1 < b.len() && b[i + 1].is_ascii_digit() {
            let mut j = i + 1;
            while j < b.len() && (b[j].is_ascii_digit() || b[j] == '_') {
                j += 1;
            }
            i = j;
            continue;
        }
        o2.push(b[i]);
        i += 1;
    }
    o2
}

/// Debug rendering of the compiled module as produced by the compiler …
fn module_debug_compiled(vm: &Thread, name: &str, src: &str) -> Result<String, String> {
    let r = gv::catch(|| {
        futures::executor::block_on(src.compile(
            &mut vm.module_compiler(&mut vm.get_database()),
            vm,
            name,
            src,
            None,
        ))
        .map(|cv| scrub(&format!("{:?} :: {:?} :: {:?}", cv.module, cv.typ, cv.metadata)))
        .map_err(|e| e.to_string())
    });
    match r {
        Err(p) => Err(format!("PANIC {}", p)),
        Ok(x) => x,
    }
}

/// … and as it comes back from the serialised form.
fn module_debug_loaded(vm: &Thread, bytes: &[u8]) -> Result<String, String> {
    let r = gv::catch(|| {
        let mut de = serde_json::Deserializer::from_slice(bytes);
        let m: Result<Module, _> = DeSeed::new(vm, &mut vm.current_context()).deserialize(&mut de);
        m.map(|m| scrub(&format!("{:?} :: {:?} :: {:?}", m.module, m.typ, m.metadata)))
            .map_err(|e| e.to_string())
    });
    match r {
        Err(p) => Err(format!("PANIC {}", p)),
        Ok(x) => x,
    }
}

// ------------------------------------------------------------------------------------------
// Program generator (stream A)
// ------------------------------------------------------------------------------------------

#[derive(Clone, Copy, PartialEq, Debug)]
enum Ty {
    Int,
    Float,
    Str,
    Bool,
    Byte,
    ArrInt,
    ArrStr,
    Rec,  // { a : Int, b : String, c : Float }
    Var,  // T
    Lst,  // L
    FunII,
    FunIII,
}

const FLOATS: &[&str] = &[
    "0.0",
    "1.0",
    "0.1",
    "0.2",
    "0.30000000000000004",
    "2.5",
    "3.141592653589793",
    "123456789.12345678",
    "0.000001",
    "0.0000000000000000000000000000000000001",
    "179769313486231570000000000000000000000000000000000000000000000000000000000000000000000000000000000000000000000000000000000000000000000000000000000000000000000000000000000000000000000000000000000000000000000000000000000000000000000000000000000000000000000000000000000000000000000000000000000000000000000000000.0",
    "0.000000000000000000000000000000000000000000000000000000000000000000000000000000000000000000000000000000000000000000000000000000000000000000000000000000000000000000000000000000000000000000000000000000000000000000000000000000000000000000000000000000000000000000000000000000000000000000000000000000000000000000000000022250738585072014",
    "9007199254740993.0",
    "4503599627370496.5",
    "0.1234567890123456789",
    "1.7976931348623157",
    "2.2250738585072011",
    "5e0",
    "100000000000000000000000.0",
    "8.41",
    "0.3333333333333333",
    "1.0000000000000002",
];

const STRS: &[&str] = &[
    "\"\"",
    "\"a\"",
    "\"hello world\"",
    "\"q\\\"uote\"",
    "\"line\\nbreak\\ttab\"",
    "\"back\\\\slash\"",
    "\"üñí¢ødé ☃ 𝄞\"",
    "\"Marked\"",
    "\"Reference\"",
    "\"{\\\"Plain\\\":1}\"",
    "\"a somewhat longer string literal that does not fit in a small buffer ................................\"",
    "r\"raw \\n string\"",
    "\"\\r\"",
    "\"odd: \u{7f} \u{fffd} \u{10ffff}\"",
];

struct Gen<'a> {
    rng: &'a mut Rng,
    env: Vec<(String, Ty)>,
    feats: std::collections::BTreeSet<&'static str>,
    helper: bool,
    prelude: bool,
    next: u32,
}

impl<'a> Gen<'a> {
    fn fresh(&mut self, p: &str) -> String {
        self.next += 1;
        format!("{}{}", p, self.next)
    }
    fn vars(&self, t: Ty) -> Vec<String> {
        self.env.iter().filter(|v| v.1 == t).map(|v| v.0.clone()).collect()
    }
    fn feat(&mut self, f: &'static str) {
        self.feats.insert(f);
    }
    fn int_lit(&mut self) -> String {
        match self.rng.below(8) {
            0 => "0".into(),
            1 if self.rng.chance(1, 3) => "9223372036854775807".into(),
            2 if self.rng.chance(1, 3) => "(0 #Int- 9223372036854775807)".into(),
            3 => format!("{}", self.rng.below(1 << 40)),
            4 => "0x7fff".into(),
            5 => "4294967296".into(),
            _ => format!("{}", self.rng.below(100)),
        }
    }
    fn expr(&mut self, t: Ty, d: u32) -> String {
        let vs = self.vars(t);
        if !vs.is_empty() && self.rng.chance(if d == 0 { 3 } else { 1 }, 4) {
            return self.rng.pick(&vs).clone();
        }
        let leaf = d == 0;
        match t {
            Ty::Int => {
                let k = if leaf { self.rng.below(2) } else { self.rng.below(12) };
                match k {
                    0 | 1 => self.int_lit(),
                    2 => {
                        let op = *self.rng.pick(&["#Int+", "#Int-", "#Int*"]);
                        format!("({} {} {})", self.expr(Ty::Int, d - 1), op, self.expr(Ty::Int, d - 1))
                    }
                    3 => {
                        self.feat("if");
                        format!(
                            "(if {} then {} else {})",
                            self.expr(Ty::Bool, d - 1),
                            self.expr(Ty::Int, d - 1),
                            self.expr(Ty::Int, d - 1)
                        )
                    }
                    4 => {
                        self.feat("match-variant");
                        format!("(t_to_int {})", self.expr_atomic(Ty::Var, d - 1))
                    }
                    5 => {
                        self.feat("field");
                        format!("{}.a", self.expr_atomic(Ty::Rec, d - 1))
                    }
                    6 => {
                        self.feat("call");
                        format!("({} {})", self.expr_atomic(Ty::FunII, d - 1), self.expr_atomic(Ty::Int, d - 1))
                    }
                    7 => {
                        self.feat("call2");
                        format!(
                            "({} {} {})",
                            self.expr_atomic(Ty::FunIII, d - 1),
                            self.expr_atomic(Ty::Int, d - 1),
                            self.expr_atomic(Ty::Int, d - 1)
                        )
                    }
                    8 => {
                        self.feat("let-in-expr");
                        let x = self.fresh("x");
                        let e = self.expr(Ty::Int, d - 1);
                        self.env.push((x.clone(), Ty::Int));
                        let b = self.expr(Ty::Int, d - 1);
                        self.env.pop();
                        format!("(let {} = {} in {})", x, e, b)
                    }
                    9 => {
                        self.feat("match-list");
                        format!("(l_head {})", self.expr_atomic(Ty::Lst, d - 1))
                    }
                    10 => {
                        self.feat("match-record");
                        format!("(match {} with | {{ a, b = _ }} -> a)", self.expr(Ty::Rec, d - 1))
                    }
                    _ => {
                        if self.helper {
                            self.feat("import-helper");
                            "(import! gvmod).a".to_string()
                        } else if self.prelude {
                            self.feat("prelude-op");
                            format!("({} + {})", self.expr(Ty::Int, d - 1), self.expr(Ty::Int, d - 1))
                        } else {
                            self.int_lit()
                        }
                    }
                }
            }
            Ty::Float => {
                self.feat("float");
                if leaf || self.rng.chance(1, 2) {
                    self.rng.pick(FLOATS).replace("5e0", "5.0")
                } else {
                    let op = *self.rng.pick(&["#Float+", "#Float-", "#Float*", "#Float/"]);
                    format!("({} {} {})", self.expr(Ty::Float, d - 1), op, self.expr(Ty::Float, d - 1))
                }
            }
            Ty::Str => {
                self.feat("string");
                if leaf || self.rng.chance(2, 3) {
                    self.rng.pick(STRS).to_string()
                } else if self.rng.chance(1, 2) {
                    self.feat("field");
                    format!("{}.b", self.expr_atomic(Ty::Rec, d - 1))
                } else {
                    format!(
                        "(if {} then {} else {})",
                        self.expr(Ty::Bool, d - 1),
                        self.expr(Ty::Str, d - 1),
                        self.expr(Ty::Str, d - 1)
                    )
                }
            }
            Ty::Bool => {
                if leaf {
                    return self.rng.pick(&["(0 #Int== 0)", "(0 #Int== 1)"]).to_string();
                }
                match self.rng.below(4) {
                    0 => format!("({} #Int< {})", self.expr(Ty::Int, d - 1), self.expr(Ty::Int, d - 1)),
                    1 => format!("({} #Int== {})", self.expr(Ty::Int, d - 1), self.expr(Ty::Int, d - 1)),
                    2 => format!("({} #Float< {})", self.expr(Ty::Float, d - 1), self.expr(Ty::Float, d - 1)),
                    _ => format!("({} #Byte== {})", self.expr(Ty::Byte, d - 1), self.expr(Ty::Byte, d - 1)),
                }
            }
            Ty::Byte => {
                self.feat("byte");
                if leaf || self.rng.chance(1, 2) {
                    format!("{}b", self.rng.below(256))
                } else {
                    format!("({} #Byte+ {})", self.expr(Ty::Byte, d - 1), "1b")
                }
            }
            Ty::ArrInt => {
                self.feat("array");
                let n = self.rng.below(4);
                let es: Vec<String> = (0..n).map(|_| self.expr(Ty::Int, d.saturating_sub(1))).collect();
                format!("[{}]", es.join(", "))
            }
            Ty::ArrStr => {
                self.feat("array");
                let n = self.rng.below(3);
                let es: Vec<String> = (0..n).map(|_| self.expr(Ty::Str, d.saturating_sub(1))).collect();
                format!("[{}]", es.join(", "))
            }
            Ty::Rec => {
                self.feat("record");
                let dd = d.saturating_sub(1);
                format!(
                    "{{ a = {}, b = {}, c = {} }}",
                    self.expr(Ty::Int, dd),
                    self.expr(Ty::Str, dd),
                    self.expr(Ty::Float, dd)
                )
            }
            Ty::Var => {
                self.feat("variant");
                let dd = d.saturating_sub(1);
                match self.rng.below(4) {
                    0 => format!("(A {})", self.expr_atomic(Ty::Int, dd)),
                    1 => format!("(B {} {})", self.expr_atomic(Ty::Str, dd), self.expr_atomic(Ty::Float, dd)),
                    2 => "C".to_string(),
                    _ => format!("(D {})", self.expr_atomic(Ty::Rec, dd)),
                }
            }
            Ty::Lst => {
                self.feat("rec-type");
                if leaf || self.rng.chance(1, 3) {
                    "Nil".to_string()
                } else {
                    format!("(Cons {} {})", self.expr_atomic(Ty::Int, d - 1), self.expr_atomic(Ty::Lst, d - 1))
                }
            }
            Ty::FunII => {
                self.feat("lambda");
                let x = self.fresh("p");
                self.env.push((x.clone(), Ty::Int));
                let b = self.expr(Ty::Int, d.saturating_sub(1).max(1));
                self.env.pop();
                if self.rng.chance(1, 4) {
                    self.feat("partial-application");
                    let f = self.vars(Ty::FunIII);
                    if !f.is_empty() {
                        return format!("({} {})", self.rng.pick(&f), self.int_lit());
                    }
                }
                format!("(\\{} -> {})", x, b)
            }
            Ty::FunIII => {
                self.feat("lambda2");
                let x = self.fresh("p");
                let y = self.fresh("p");
                self.env.push((x.clone(), Ty::Int));
                self.env.push((y.clone(), Ty::Int));
                let b = self.expr(Ty::Int, d.saturating_sub(1).max(1));
                self.env.pop();
                self.env.pop();
                format!("(\\{} {} -> {})", x, y, b)
            }
        }
    }
    fn expr_atomic(&mut self, t: Ty, d: u32) -> String {
        let e = self.expr(t, d);
        if e.starts_with('(') || e.starts_with('[') || e.starts_with('{') || !e.contains(' ') {
            // literals like `r"raw \n string"` contain a space but are atomic anyway
            e
        } else if e.starts_with('"') || e.starts_with("r\"") {
            e
        } else {
            format!("({})", e)
        }
    }
}

const ALL_TY: &[Ty] = &[
    Ty::Int,
    Ty::Float,
    Ty::Str,
    Ty::Bool,
    Ty::Byte,
    Ty::ArrInt,
    Ty::ArrStr,
    Ty::Rec,
    Ty::Var,
    Ty::Lst,
    Ty::FunII,
    Ty::FunIII,
];

struct Prog {
    src: String,
    feats: Vec<&'static str>,
    prelude: bool,
    helper: bool,
    /// module name (`compile_to_bytecode(name, …)`, `Precompiled.run_expr(…, name, …)`)
    name: String,
}

fn gen_program(rng: &mut Rng, prelude: bool, helper: bool) -> Prog {
    let mut g = Gen {
        rng,
        env: vec![],
        feats: Default::default(),
        helper,
        prelude,
        next: 0,
    };
    let mut src = String::new();
    src.push_str("type R = { a : Int, b : String, c : Float }\n");
    src.push_str("type T = | A Int | B String Float | C | D R\n");
    src.push_str("type L = | Nil | Cons Int L\n");
    src.push_str("let t_to_int t =\n    match t with\n    | A x -> x\n    | B _ _ -> 0 #Int- 1\n    | C -> 2\n    | D r -> r.a\n");
    src.push_str("let l_head l =\n    match l with\n    | Nil -> 0\n    | Cons h _ -> h\n");
    let n = g.rng.range(1, 7);
    for _ in 0..n {
        match g.rng.below(10) {
            0 => {
                // recursive group
                g.feat("rec-group");
                let (e, o) = (g.fresh("even"), g.fresh("odd"));
                src.push_str(&format!(
                    "rec\nlet {e} n = if n #Int== 0 then 1 else {o} (n #Int- 1)\nlet {o} n = if n #Int== 0 then 0 else {e} (n #Int- 1)\nin\n",
                    e = e,
                    o = o
                ));
                let x = g.fresh("v");
                let k = g.rng.below(30);
                src.push_str(&format!("let {} = {} {}\n", x, e, k));
                g.env.push((x, Ty::Int));
            }
            1 => {
                // tail-recursive loop with accumulator, closes over an Int from the environment
                g.feat("tail-loop");
                let f = g.fresh("loop");
                let c = g.expr(Ty::Int, 0);
                src.push_str(&format!(
                    "rec let {f} n acc = if n #Int< 1 then acc else {f} (n #Int- 1) (acc #Int+ n #Int+ {c})\nin\n",
                    f = f,
                    c = c
                ));
                let x = g.fresh("v");
                let k = g.rng.below(200);
                src.push_str(&format!("let {} = {} {} 0\n", x, f, k));
                g.env.push((x, Ty::Int));
            }
            2 => {
                // recursion over the list type
                g.feat("rec-fn-on-rec-type");
                let f = g.fresh("sum");
                src.push_str(&format!(
                    "rec let {f} l =\n    match l with\n    | Nil -> 0\n    | Cons h t -> h #Int+ {f} t\nin\n",
                    f = f
                ));
                let x = g.fresh("v");
                let l = g.expr(Ty::Lst, 4);
                src.push_str(&format!("let {} = {} {}\n", x, f, g_atomic(&l)));
                g.env.push((x, Ty::Int));
            }
            3 => {
                // named function with two parameters, closing over the environment
                g.feat("let-fn");
                let f = g.fresh("f");
                let (x, y) = (g.fresh("p"), g.fresh("p"));
                g.env.push((x.clone(), Ty::Int));
                g.env.push((y.clone(), Ty::Int));
                let b = g.expr(Ty::Int, 2);
                g.env.pop();
                g.env.pop();
                src.push_str(&format!("let {} {} {} = {}\n", f, x, y, b));
                g.env.push((f, Ty::FunIII));
            }
            4 => {
                // higher-order
                g.feat("higher-order");
                let f = g.fresh("twice");
                src.push_str(&format!("let {f} h x : (Int -> Int) -> Int -> Int = h (h x)\n", f = f));
                let x = g.fresh("v");
                let h = g.expr_atomic(Ty::FunII, 2);
                let a = g.expr_atomic(Ty::Int, 1);
                src.push_str(&format!("let {} = {} {} {}\n", x, f, h, a));
                g.env.push((x, Ty::Int));
            }
            _ => {
                let t = *g.rng.pick(ALL_TY);
                let x = g.fresh("v");
                let d = g.rng.range(0, 3) as u32;
                let e = g.expr(t, d);
                src.push_str(&format!("let {} = {}\n", x, e));
                g.env.push((x, t));
            }
        }
    }
    // result: a record of (some of) the bound values and fresh expressions, or a single value
    match g.rng.below(6) {
        0 => {
            let t = *g.rng.pick(ALL_TY);
            let e = g.expr(t, 2);
            src.push_str(&e);
        }
        _ => {
            let mut fields = vec![];
            let env = g.env.clone();
            for (i, (v, _)) in env.iter().enumerate() {
                if g.rng.chance(2, 3) {
                    fields.push(format!("r{} = {}", i, v));
                }
            }
            let k = g.rng.below(3);
            for i in 0..k {
                let t = *g.rng.pick(ALL_TY);
                let e = g.expr(t, 2);
                fields.push(format!("e{} = {}", i, e));
            }
            if fields.is_empty() {
                fields.push("z = 0".into());
            }
            src.push_str(&format!("{{ {} }}", fields.join(", ")));
        }
    }
    src.push('\n');
    Prog {
        src,
        feats: g.feats.into_iter().collect(),
        prelude,
        helper,
        name: "test".into(),
    }
}


// ------------------------------------------------------------------------------------------
// Stream A': names and strings that need escaping in every string-carrying position
// ------------------------------------------------------------------------------------------

/// Operators (a backslash may not come first: `\` starts a lambda). The first eight need a JSON escape.
const OPS: &[&str] = &[
    "/\\", "|\\|", "<\\>", "+\\+", "~\\~", "/\\/\\", "-\\", "^\\^", "*\\*", "<+>", "|>", "%%", "<|>", "&&&", "<$", "=<<",
];

fn odd_string(rng: &mut Rng) -> String {
    // source text of a string literal
    match rng.below(10) {
        0 => "\"q\\\"uote \\\\ back\"".into(),
        1 => "\"tab\\t nl\\n cr\\r\"".into(),
        2 => format!("\"raw control \u{1} \u{7f} \u{1f} end\""),
        3 => "\"ü ☃ 𝄞 \u{2028} \u{feff} \u{10ffff}\"".into(),
        4 => format!("\"{}\\\"{}\\\\{}\"", "a".repeat(3000), "b".repeat(3000), "c".repeat(3000)),
        5 => "r\"raw \\ back \\n\"".into(),
        6 => "\"\\\\\\\\\\\"\\\"\"".into(),
        7 => "\"{\\\"Marked\\\":[0,\\\"x\\\"]}\"".into(),
        8 => "\"/\\\\\"".into(),
        _ => "\"\"".into(),
    }
}

fn gen_names(rng: &mut Rng) -> Prog {
    let pick2 = |rng: &mut Rng| -> (String, String) {
        let a = rng.below(OPS.len() as u64) as usize;
        let mut b = rng.below(OPS.len() as u64) as usize;
        if b == a {
            b = (a + 1) % OPS.len();
        }
        (OPS[a].to_string(), OPS[b].to_string())
    };
    let (o1, o2) = pick2(rng);
    let s1 = odd_string(rng);
    let s2 = odd_string(rng);
    let doc = *rng.pick(&["doc with \"quotes\", back\\slash and tab\there", "plain doc", "ünï ☃ \\n not a newline", "/\\ \\/ \\\\"]);
    let (feat, body): (&'static str, String) = match rng.below(9) {
        0 => ("name:let-infix", format!(
            "#[infix(left, 5)]\nlet ({o1}) a b = if a #Int< b then a else b\n#[infix(right, 6)]\nlet ({o2}) a b = a #Int+ b\n{{ lo = 3 {o1} 7, p = ({o1}) 1 2, q = 1 {o2} 2 {o2} 3, s = {s1} }}\n")),
        1 => ("name:argument", format!(
            "let app ({o1}) x = x {o1} x\nlet k ({o2}) = ({o2}) #Int+ 1\nlet g x = \\({o1}) -> x #Int+ ({o1})\n{{ a = app (\\a b -> a #Int+ b) 4, b = k 1, c = g 1 2 }}\n")),
        2 => ("name:record-field", format!(
            "let r = {{\n    #[infix(left, 5)]\n    ({o1}) = \\a b -> a #Int* b,\n    #[infix(left, 5)]\n    ({o2}) = 7\n}}\nlet {{ ({o1}) }} = r\n{{ x = r.({o1}) 2 3, y = 4 {o1} 5, z = r.({o2}), r }}\n")),
        3 => ("name:pattern-field", format!(
            "let r = {{\n    #[infix(left, 5)]\n    ({o1}) = 1,\n    #[infix(left, 5)]\n    ({o2}) = {s1}\n}}\nlet {{ ({o1}), ({o2}) = q }} = r\n{{ a = ({o1}), b = q }}\n")),
        4 => ("name:rec-group", format!(
            "rec\n#[infix(left, 5)]\nlet ({o1}) a b = if a #Int< 1 then b else (a #Int- 1) {o2} b\n#[infix(left, 5)]\nlet ({o2}) a b = a {o1} (b #Int+ 1)\nin\n{{ ({o1}), r = 3 {o1} 0 }}\n")),
        5 => ("name:upvar", format!(
            "#[infix(left, 5)]\nlet ({o1}) a b = a #Int- b\nlet mk ({o2}) = \\y -> (({o2}) {o1} y) {o1} 1\n{{ f = mk 10, v = mk 10 3 }}\n")),
        6 => ("name:doc-and-strings", format!(
            "/// {doc}\nlet f' x = x #Int+ 1\ntype T' a = | A' a | B'\n/// {doc}\n#[infix(left, 5)]\nlet ({o1}) a b = a\n{{ f', v' = A' (f' 1), ({o1}), s = {s1}, t = [{s1}, {s2}] }}\n")),
        7 => ("name:string-tables", format!(
            "let r = {{ a = {s1}, b = {s2} }}\nlet get x = x.b\n{{ u = get r, w = r.a, arr = [{s2}], nested = {{ deep = {{ s = {s1} }} }} }}\n")),
        _ => ("name:variant-and-type", format!(
            "type Op' a = | Leaf' a | Node' (Op' a) (Op' a)\nrec let sum' t =\n    match t with\n    | Leaf' x' -> x'\n    | Node' l' r' -> sum' l' #Int+ sum' r'\nin\n#[infix(left, 5)]\nlet ({o1}) l r = Node' l r\n{{ n = sum' (Leaf' 1 {o1} Leaf' 2 {o1} Leaf' 3), s = {s1} }}\n")),
    };
    let name = match rng.below(8) {
        0 => "odd.name",
        1 => "we\"ird",
        2 => "back\\slash",
        3 => "ünï☃",
        _ => "test",
    };
    Prog { src: body, feats: vec![feat, if name == "test" { "modname:plain" } else { "modname:odd" }], prelude: false, helper: false, name: name.to_string() }
}

fn g_atomic(e: &str) -> String {
    if e.contains(' ') && !e.starts_with('(') {
        format!("({})", e)
    } else {
        e.to_string()
    }
}

// ------------------------------------------------------------------------------------------
// JSON text scanner (order-preserving; used for corruptions and for the sharing pattern)
// ------------------------------------------------------------------------------------------

#[derive(Debug, Clone, PartialEq)]
enum JK {
    Num,
    Str,
    Lit,
    Arr,
    Obj,
}

#[derive(Debug, Clone)]
struct JNode {
    kind: JK,
    start: usize,
    end: usize,
    /// for members of an object: span of the `"key"` text and the key itself
    key: Option<(usize, usize, String)>,
    kids: Vec<JNode>,
}

struct JScan<'a> {
    b: &'a [u8],
    i: usize,
}

impl<'a> JScan<'a> {
    fn ws(&mut self) {
        while self.i < self.b.len() && (self.b[self.i] as char).is_ascii_whitespace() {
            self.i += 1;
        }
    }
    fn string(&mut self) -> Option<(usize, usize)> {
        let s = self.i;
        if self.b.get(self.i) != Some(&b'"') {
            return None;
        }
        self.i += 1;
        while self.i < self.b.len() {
            match self.b[self.i] {
                b'\\' => self.i += 2,
                b'"' => {
                    self.i += 1;
                    return Some((s, self.i));
                }
                _ => self.i += 1,
            }
        }
        None
    }
    fn value(&mut self) -> Option<JNode> {
        self.ws();
        let s = self.i;
        match *self.b.get(self.i)? {
            b'"' => {
                let (s, e) = self.string()?;
                Some(JNode { kind: JK::Str, start: s, end: e, key: None, kids: vec![] })
            }
            b'[' => {
                self.i += 1;
                let mut kids = vec![];
                loop {
                    self.ws();
                    if *self.b.get(self.i)? == b']' {
                        self.i += 1;
                        break;
                    }
                    if *self.b.get(self.i)? == b',' {
                        self.i += 1;
                        continue;
                    }
                    kids.push(self.value()?);
                }
                Some(JNode { kind: JK::Arr, start: s, end: self.i, key: None, kids })
            }
            b'{' => {
                self.i += 1;
                let mut kids = vec![];
                loop {
                    self.ws();
                    if *self.b.get(self.i)? == b'}' {
                        self.i += 1;
                        break;
                    }
                    if *self.b.get(self.i)? == b',' {
                        self.i += 1;
                        continue;
                    }
                    let (ks, ke) = self.string()?;
                    let key = String::from_utf8_lossy(&self.b[ks + 1..ke - 1]).into_owned();
                    self.ws();
                    if *self.b.get(self.i)? != b':' {
                        return None;
                    }
                    self.i += 1;
                    let mut v = self.value()?;
                    v.key = Some((ks, ke, key));
                    kids.push(v);
                }
                Some(JNode { kind: JK::Obj, start: s, end: self.i, key: None, kids })
            }
            c if c == b'-' || c.is_ascii_digit() => {
                while self.i < self.b.len()
                    && (self.b[self.i].is_ascii_digit() || b"+-.eE".contains(&self.b[self.i]))
                {
                    self.i += 1;
                }
                Some(JNode { kind: JK::Num, start: s, end: self.i, key: None, kids: vec![] })
            }
            _ => {
                while self.i < self.b.len() && self.b[self.i].is_ascii_alphabetic() {
                    self.i += 1;
                }
                if self.i == s {
                    return None;
                }
                Some(JNode { kind: JK::Lit, start: s, end: self.i, key: None, kids: vec![] })
            }
        }
    }
}

fn jscan(b: &[u8]) -> Option<JNode> {
    JScan { b, i: 0 }.value()
}

fn jflatten<'a>(n: &'a JNode, path: &str, out: &mut Vec<(&'a JNode, String)>) {
    let p = match &n.key {
        Some((_, _, k)) => format!("{}/{}", path, k),
        None => path.to_string(),
    };
    out.push((n, p.clone()));
    for k in &n.kids {
        jflatten(k, &p, out);
    }
}

/// Path with everything but the last two *field* names removed (keeps classes small).
fn short_path(p: &str) -> String {
    let parts: Vec<&str> = p.split('/').filter(|s| !s.is_empty()).collect();
    let n = parts.len();
    parts[n.saturating_sub(2)..].join("/")
}

/// Every instruction operand / function-header count (first occurrence of each path) set to
/// u32::MAX: the deterministic part of the "single-field corruption" stream.
fn systematic_operands(bytes: &[u8]) -> Vec<Corruption> {
    let mut out = vec![];
    let root = match jscan(bytes) {
        Some(r) => r,
        None => return out,
    };
    let mut all = vec![];
    jflatten(&root, "", &mut all);
    let mut seen = std::collections::BTreeSet::new();
    for (nd, p) in &all {
        let sp = short_path(p);
        if nd.kind == JK::Num && is_operand_path(&sp) && !sp.ends_with("PushInt") && !sp.ends_with("PushByte") && seen.insert(sp.clone()) {
            let mut v = bytes[..nd.start].to_vec();
            v.extend_from_slice(b"4294967295");
            v.extend_from_slice(&bytes[nd.end..]);
            out.push(Corruption { kind: "number", path: sp, text: v, must_err: false, oor: true });
        }
    }
    out
}

/// Names in `module.module_globals` of a serialised module (without the leading `@`).
fn module_globals(bytes: &[u8]) -> Vec<String> {
    let mut out = vec![];
    if let Some(root) = jscan(bytes) {
        let mut all = vec![];
        jflatten(&root, "", &mut all);
        for (nd, p) in &all {
            if nd.kind == JK::Str && p.contains("/module_globals") {
                let s = String::from_utf8_lossy(&bytes[nd.start + 1..nd.end - 1]).into_owned();
                out.push(s.trim_start_matches('@').to_string());
            }
        }
    }
    out
}

fn strs_sexp(v: &[String]) -> String {
    format!("({})", v.iter().map(|s| gv::quote(s)).collect::<Vec<_>>().join(" "))
}

#[derive(Debug, Clone)]
struct Corruption {
    kind: &'static str,
    path: String,
    text: Vec<u8>,
    /// the property demands Err for this one (bytecode names something the VM does not define)
    must_err: bool,
    /// a number replaced by a value outside every table / code range
    oor: bool,
}

fn corruptions(rng: &mut Rng, bytes: &[u8], n: usize) -> Vec<Corruption> {
    let root = match jscan(bytes) {
        Some(r) => r,
        None => return vec![],
    };
    let mut all = vec![];
    jflatten(&root, "", &mut all);
    let splice = |s: usize, e: usize, rep: &[u8]| -> Vec<u8> {
        let mut v = bytes[..s].to_vec();
        v.extend_from_slice(rep);
        v.extend_from_slice(&bytes[e..]);
        v
    };
    let mut out = vec![];
    // targeted: every referenced global renamed (must be rejected)
    for (nd, p) in &all {
        if nd.kind == JK::Str && p.contains("/module_globals") {
            let mut rep = bytes[nd.start..nd.end - 1].to_vec();
            rep.extend_from_slice(b"_undefined\"");
            out.push(Corruption {
                kind: "rename-global",
                path: short_path(p),
                text: splice(nd.start, nd.end, &rep),
                must_err: true,
                oor: false,
            });
        }
    }
    for _ in 0..n {
        let (nd, p) = &all[rng.below(all.len() as u64) as usize];
        let sp = short_path(p);
        match rng.below(5) {
            0 | 1 if nd.kind == JK::Num && !sp.ends_with("PushInt") => {
                // a changed jump target / constant inside the range is simply another valid
                // program (possibly a non-terminating one): only out-of-range targets are damage
                let jump = sp.ends_with("Jump") || sp.ends_with("CJump");
                let rep: String = match if jump { rng.below(3) + 1 } else { rng.below(6) } {
                    0 => "0".into(),
                    1 => "4294967295".into(),
                    2 => "1000000".into(),
                    3 => "-1".into(),
                    4 => "1.5".into(),
                    _ => {
                        let cur: i64 = String::from_utf8_lossy(&bytes[nd.start..nd.end]).parse().unwrap_or(0);
                        format!("{}", cur.wrapping_add(1))
                    }
                };
                let oor = rep == "4294967295" || rep == "1000000";
                out.push(Corruption { kind: "number", path: sp, text: splice(nd.start, nd.end, rep.as_bytes()), must_err: false, oor });
            }
            2 if nd.kind == JK::Str => {
                let mut rep = bytes[nd.start..nd.end - 1].to_vec();
                rep.extend_from_slice(b"_x\"");
                out.push(Corruption { kind: "string", path: sp, text: splice(nd.start, nd.end, &rep), must_err: false, oor: false });
            }
            3 if nd.key.is_some() => {
                // drop the member (and one adjacent comma)
                let (ks, _, _) = nd.key.clone().unwrap();
                let mut s = ks;
                let mut e = nd.end;
                if bytes.get(e) == Some(&b',') {
                    e += 1;
                } else if s > 0 && bytes[s - 1] == b',' {
                    s -= 1;
                }
                out.push(Corruption { kind: "drop-field", path: sp, text: splice(s, e, b""), must_err: false, oor: false });
            }
            4 if nd.key.is_some() => {
                let (ks, ke, k) = nd.key.clone().unwrap();
                let rep = format!("\"{}_x\"", k);
                let _ = ke;
                out.push(Corruption { kind: "rename-key", path: sp, text: splice(ks, ke, rep.as_bytes()), must_err: false, oor: false });
            }
            _ => {
                // replace the value by a value of another JSON type
                let rep: &[u8] = match nd.kind {
                    JK::Num => b"\"7\"",
                    JK::Str => b"7",
                    JK::Arr => b"{}",
                    JK::Obj => b"[]",
                    JK::Lit => b"0",
                };
                out.push(Corruption { kind: "retype", path: sp, text: splice(nd.start, nd.end, rep), must_err: false, oor: false });
            }
        }
    }
    out
}

// ------------------------------------------------------------------------------------------
// Sharing pattern of a serialised value (stream C)
// ------------------------------------------------------------------------------------------

/// The Marked / Plain / Reference skeleton of a JSON text produced with `SeSeed`.
#[derive(Debug, Clone, PartialEq)]
enum Pat {
    M(String, u64, Vec<Pat>),
    P(String, Vec<Pat>),
    R(String, u64),
    /// `"Closure":[{"Marked":id}, function, n, upvar…]`: the function part (sort `?` nodes only:
    /// bytecode, types, symbols) is kept here and dropped by `normalise`
    C(u64, Vec<Pat>, Vec<Pat>),
}

fn sort_of(key: &str) -> Option<&'static str> {
    match key {
        "Data" => Some("d"),
        "Array" => Some("a"),
        "Record" => Some("f"),
        _ => None,
    }
}

/// Collects the pattern below `n`; `sort` is the nearest enclosing sort-giving key.
/// Returns None when a shape outside the modelled fragment (closure marks …) occurs.
fn pattern(b: &[u8], n: &JNode, sort: &str, out: &mut Vec<(Pat, usize)>) -> Option<()> {
    let sort = match &n.key {
        Some((_, _, k)) => sort_of(k).unwrap_or(sort),
        None => sort,
    };
    if n.kind == JK::Obj && n.kids.len() == 1 {
        let kid = &n.kids[0];
        let key = kid.key.as_ref().unwrap().2.as_str();
        match key {
            "Marked" => {
                if kid.kind != JK::Arr || kid.kids.len() != 2 || kid.kids[0].kind != JK::Num {
                    return None;
                }
                let id: u64 = std::str::from_utf8(&b[kid.kids[0].start..kid.kids[0].end]).ok()?.parse().ok()?;
                let mut ks = vec![];
                pattern(b, &kid.kids[1], "?", &mut ks)?;
                out.push((Pat::M(sort.to_string(), id, ks.into_iter().map(|x| x.0).collect()), n.start));
                return Some(());
            }
            "Plain" => {
                let mut ks = vec![];
                pattern(b, kid, "?", &mut ks)?;
                out.push((Pat::P(sort.to_string(), ks.into_iter().map(|x| x.0).collect()), n.start));
                return Some(());
            }
            "Reference" => {
                if kid.kind != JK::Num {
                    return None;
                }
                let id: u64 = std::str::from_utf8(&b[kid.start..kid.end]).ok()?.parse().ok()?;
                out.push((Pat::R(sort.to_string(), id), n.start));
                return Some(());
            }
            "Closure" if kid.kind == JK::Arr && !kid.kids.is_empty() && kid.kids[0].kind == JK::Obj && kid.kids[0].kids.len() == 1 => {
                let head = &kid.kids[0].kids[0];
                let hk = head.key.as_ref().unwrap().2.as_str();
                if head.kind != JK::Num {
                    return None;
                }
                let id: u64 = std::str::from_utf8(&b[head.start..head.end]).ok()?.parse().ok()?;
                match hk {
                    "Reference" => {
                        out.push((Pat::R("c".to_string(), id), n.start));
                        return Some(());
                    }
                    "Marked" if kid.kids.len() >= 3 => {
                        let mut pre = vec![];
                        pattern(b, &kid.kids[1], "?", &mut pre)?;
                        let mut post = vec![];
                        for k in &kid.kids[3..] {
                            pattern(b, k, "?", &mut post)?;
                        }
                        out.push((
                            Pat::C(id, pre.into_iter().map(|x| x.0).collect(), post.into_iter().map(|x| x.0).collect()),
                            n.start,
                        ));
                        return Some(());
                    }
                    _ => return None,
                }
            }
            // Value::Function / Value::PartialApplication (objects; the *type* `Function` is an array)
            "Function" | "PartialApplication" if kid.kind == JK::Obj => return None,
            "Closure" => return None,
            _ => {}
        }
    }
    for k in &n.kids {
        pattern(b, k, sort, out)?;
    }
    Some(())
}

fn pat_sexp(p: &Pat) -> String {
    match p {
        Pat::M(s, id, ks) => {
            let mut o = format!("(M {} {}", s, id);
            for k in ks {
                o.push(' ');
                o.push_str(&pat_sexp(k));
            }
            o.push(')');
            o
        }
        Pat::P(s, ks) => {
            let mut o = format!("(P {}", s);
            for k in ks {
                o.push(' ');
                o.push_str(&pat_sexp(k));
            }
            o.push(')');
            o
        }
        Pat::R(s, id) => format!("(R {} {})", s, id),
        Pat::C(id, _, ks) => {
            let mut o = format!("(C c {}", id);
            for k in ks {
                o.push(' ');
                o.push_str(&pat_sexp(k));
            }
            o.push(')');
            o
        }
    }
}

/// Drop the nodes of unmodelled sorts (`?`: bytecode functions, types, symbols, kinds) and number
/// the remaining marks 0,1,2… in stream order; `map` collects raw id ↦ new id.
fn normalise(ps: &[Pat], map: &mut std::collections::HashMap<u64, u64>) -> Vec<Pat> {
    let mut out = vec![];
    for p in ps {
        match p {
            Pat::M(s, _, _) | Pat::P(s, _) | Pat::R(s, _) if s == "?" => {}
            Pat::M(s, id, ks) => {
                let n = map.len() as u64;
                map.insert(*id, n);
                let ks = normalise(ks, map);
                out.push(Pat::M(s.clone(), n, ks));
            }
            Pat::P(s, ks) => out.push(Pat::P(s.clone(), normalise(ks, map))),
            Pat::R(s, id) => out.push(Pat::R(s.clone(), *map.get(id).unwrap_or(&(1000 + id)))),
            Pat::C(id, _, ks) => {
                let n = map.len() as u64;
                map.insert(*id, n);
                let ks = normalise(ks, map);
                out.push(Pat::C(n, vec![], ks));
            }
        }
    }
    out
}

fn pat_tokens(p: &Pat) -> usize {
    match p {
        Pat::M(_, _, ks) | Pat::P(_, ks) => 1 + ks.iter().map(pat_tokens).sum::<usize>(),
        Pat::R(..) => 1,
        Pat::C(_, a, b) => 1 + a.iter().map(pat_tokens).sum::<usize>() + b.iter().map(pat_tokens).sum::<usize>(),
    }
}

/// Byte offsets at which the abstract tokens of the pattern start (pre-order).
fn token_starts(b: &[u8], n: &JNode, out: &mut Vec<usize>) {
    if n.kind == JK::Obj && n.kids.len() == 1 {
        let key = n.kids[0].key.as_ref().unwrap().2.as_str();
        if key == "Marked" || key == "Plain" || key == "Reference" {
            out.push(n.start);
        }
    }
    for k in &n.kids {
        token_starts(b, k, out);
    }
}

fn ser_value(v: Variants) -> Result<Vec<u8>, String> {
    let mut buffer = Vec::new();
    {
        let mut ser = serde_json::Serializer::new(&mut buffer);
        let st = SeSeed::new();
        v.serialize_state(&mut ser, &st).map_err(|e| e.to_string())?;
    }
    Ok(buffer)
}

fn de_value(vm: &RootedThread, bytes: &[u8]) -> Result<RootedValue<RootedThread>, serde_json::Error> {
    let mut de = serde_json::Deserializer::from_slice(bytes);
    DeSeed::new(vm, &mut vm.current_context()).deserialize(&mut de)
}

/// Abstract DAG node of a generated value program.
#[derive(Clone, Debug)]
enum DN {
    /// record with the given field names; children are node indices or atoms (None)
    Rec(Vec<String>, Vec<Option<usize>>),
    /// variant W1 a / W2 a b
    Var(Vec<Option<usize>>),
    /// array of ints (no node children) or of copies of one node
    Arr(Vec<Option<usize>>),
}

struct DagProg {
    src: String,
    nodes: Vec<DN>,
    root: usize,
}

fn gen_dag(rng: &mut Rng) -> DagProg {
    let n = rng.range(1, 7) as usize;
    let mut nodes: Vec<DN> = vec![];
    let mut src = String::from("type W a b = | W0 | W1 a | W2 a b\n");
    let fields_pool: [&[&str]; 5] = [&["a"], &["a", "b"], &["b", "a"], &["x", "y", "z"], &["a", "b", "c"]];
    for i in 0..n {
        let child = |rng: &mut Rng, i: usize| -> Option<usize> {
            if i > 0 && rng.chance(2, 3) {
                Some(rng.below(i as u64) as usize)
            } else {
                None
            }
        };
        let atom = |rng: &mut Rng| -> String {
            match rng.below(4) {
                0 => "\"s\"".into(),
                1 => "1.5".into(),
                2 => "W0".into(),
                _ => format!("{}", rng.below(50)),
            }
        };
        let rend = |c: &Option<usize>, rng: &mut Rng| match c {
            Some(j) => format!("n{}", j),
            None => atom(rng),
        };
        let node = match rng.below(if i == n - 1 { 2 } else { 3 }) {
            0 => {
                let fs = fields_pool[rng.below(5) as usize];
                let cs: Vec<Option<usize>> = fs.iter().map(|_| child(rng, i)).collect();
                let body: Vec<String> = fs.iter().zip(&cs).map(|(f, c)| format!("{} = {}", f, rend(c, rng))).collect();
                src.push_str(&format!("let n{} = {{ {} }}\n", i, body.join(", ")));
                DN::Rec(fs.iter().map(|s| s.to_string()).collect(), cs)
            }
            1 => {
                let k = rng.range(1, 2) as usize;
                let cs: Vec<Option<usize>> = (0..k).map(|_| child(rng, i)).collect();
                let body: Vec<String> = cs.iter().map(|c| rend(c, rng)).collect();
                src.push_str(&format!("let n{} = W{} {}\n", i, k, body.join(" ")));
                DN::Var(cs)
            }
            _ => {
                if i > 0 && rng.chance(1, 2) {
                    let j = rng.below(i as u64) as usize;
                    let k = rng.range(1, 3) as usize;
                    src.push_str(&format!("let n{} = [{}]\n", i, vec![format!("n{}", j); k].join(", ")));
                    DN::Arr(vec![Some(j); k])
                } else {
                    let k = rng.range(0, 3) as usize;
                    let body: Vec<String> = (0..k).map(|_| format!("{}", rng.below(9))).collect();
                    src.push_str(&format!("let n{} = [{}]\n", i, body.join(", ")));
                    DN::Arr(vec![None; k])
                }
            }
        };
        nodes.push(node);
    }
    src.push_str(&format!("n{}\n", n - 1));
    DagProg { src, nodes, root: n - 1 }
}

/// The DAG as a term for the model: `(n <addr> <uniq> <sort> kids…)` / `a`.
/// Field-name lists are nodes of sort `f` whose address is determined by the list itself.
fn dag_term(p: &DagProg, i: usize, fl: &mut Vec<Vec<String>>) -> String {
    let kid = |c: &Option<usize>, fl: &mut Vec<Vec<String>>| match c {
        Some(j) => dag_term(p, *j, fl),
        None => "a".to_string(),
    };
    match &p.nodes[i] {
        DN::Rec(fs, cs) => {
            let k = match fl.iter().position(|x| x == fs) {
                Some(k) => k,
                None => {
                    fl.push(fs.clone());
                    fl.len() - 1
                }
            };
            let mut s = format!("(n {} 0 d (n {} 0 f)", i, 1000 + k);
            for c in cs {
                s.push(' ');
                s.push_str(&kid(c, fl));
            }
            s.push(')');
            s
        }
        DN::Var(cs) => {
            let mut s = format!("(n {} 0 d", i);
            for c in cs {
                s.push(' ');
                s.push_str(&kid(c, fl));
            }
            s.push(')');
            s
        }
        DN::Arr(cs) => {
            let mut s = format!("(n {} 0 a", i);
            for c in cs {
                s.push(' ');
                s.push_str(&kid(c, fl));
            }
            s.push(')');
            s
        }
    }
}

fn de_payload(vm: &RootedThread, text: &[u8]) -> String {
    match gv::catch(|| de_value(vm, text)) {
        Err(p) => format!("(panic {})", gv::quote(&p)),
        Ok(Err(e)) => {
            let m = e.to_string();
            if e.is_eof() {
                "eof".to_string()
            } else if let Some(i) = m.find("missing id ") {
                let num: String = m[i + 11..].chars().take_while(|c| c.is_ascii_digit()).collect();
                format!("(missing {})", num)
            } else {
                format!("(error {})", err_class(&m))
            }
        }
        Ok(Ok(v)) => match ser_value(v.get_variant()) {
            Err(e) => format!("(reser-error {})", gv::quote(&e)),
            Ok(b2) => match jscan(&b2) {
                None => "(unscannable)".to_string(),
                Some(r) => {
                    let mut ps = vec![];
                    match pattern(&b2, &r, "?", &mut ps) {
                        None => "(unsupported)".to_string(),
                        Some(()) => {
                            let mut s = String::from("(ok");
                            for p in &ps {
                                s.push(' ');
                                s.push_str(&pat_sexp(&p.0));
                            }
                            s.push(')');
                            s
                        }
                    }
                }
            },
        },
    }
}

/// `de_payload` for streams with unmodelled (`?`) nodes: ids in the answer are the normalised ones.
fn de_payload_norm(vm: &RootedThread, text: &[u8], map_in: &std::collections::HashMap<u64, u64>) -> String {
    match gv::catch(|| de_value(vm, text)) {
        Err(p) => format!("(panic {})", gv::quote(&p)),
        Ok(Err(e)) => {
            let m = e.to_string();
            if e.is_eof() {
                "eof".to_string()
            } else if let Some(i) = m.find("missing id ") {
                let num: String = m[i + 11..].chars().take_while(|c| c.is_ascii_digit()).collect();
                let raw: u64 = num.parse().unwrap_or(0);
                format!("(missing {})", map_in.get(&raw).copied().unwrap_or(1000 + raw))
            } else {
                format!("(error {})", err_class(&m))
            }
        }
        Ok(Ok(v)) => match ser_value(v.get_variant()) {
            Err(e) => format!("(reser-error {})", gv::quote(&e)),
            Ok(b2) => match jscan(&b2) {
                None => "(unscannable)".to_string(),
                Some(r) => {
                    let mut ps = vec![];
                    match pattern(&b2, &r, "?", &mut ps) {
                        None => "(unsupported)".to_string(),
                        Some(()) => {
                            let raw: Vec<Pat> = ps.into_iter().map(|x| x.0).collect();
                            let mut map = Default::default();
                            let nz = normalise(&raw, &mut map);
                            format!("(ok{})", nz.iter().map(|p| format!(" {}", pat_sexp(p))).collect::<String>())
                        }
                    }
                }
            },
        },
    }
}


/// Text layer: serde_json's escaping / unescaping of generated strings vs `JsonStr.escape` /
/// `JsonStr.unescape`.
fn stream_text(out: &mut Out, rng: &mut Rng, n: usize) {
    let pool: Vec<char> = "\"\\/\u{8}\u{c}\n\r\t\u{0}\u{1}\u{b}\u{1f}\u{7f} abzAZ09:{}[],ü☃\u{2028}\u{feff}\u{ffff}\u{10000}𝄞\u{10ffff}".chars().collect();
    for i in 0..n {
        let len = rng.below(12) as usize;
        let s: String = (0..len)
            .map(|_| if rng.chance(1, 6) { char::from_u32(rng.below(0x30) as u32).unwrap_or('a') } else { *rng.pick(&pool) })
            .collect();
        let js = serde_json::to_string(&s).unwrap();
        let inner = &js[1..js.len() - 1];
        out.case(&format!("esc {}", gv::quote(&s)), &gv::quote(inner));
        if inner != s {
            out.count("text:needs-escape");
        }
        out.class(format!("text:esc:{}", inner.matches('\\').count().min(6)));
        // reading: serde_json's own output, and variations of it
        let mut e = inner.to_string();
        match rng.below(8) {
            0 => e = e.replace("\\u00", "\\u00").to_uppercase().replace("\\U", "\\u").replace("\\N", "\\n").replace("\\T", "\\t").replace("\\R", "\\r").replace("\\B", "\\b").replace("\\F", "\\f"),
            1 => e.push_str("\\/"),
            2 => e.push_str("\\q"),
            3 => e.push_str("\\u12"),
            4 => e.push('\\'),
            5 => e.push('\u{1}'),
            6 => e.push_str("\\u00e9\\u2603"),
            _ => {}
        }
        let text = format!("\"{}\"", e);
        let pl = match serde_json::from_str::<String>(&text) {
            Ok(r) => format!("(ok {})", gv::quote(&r)),
            Err(_) => "err".to_string(),
        };
        out.count(&format!("text:unesc:{}", if pl == "err" { "err" } else { "ok" }));
        out.case(&format!("unesc {}", gv::quote(&e)), &pl);
        // model-independent: serde_json reads back what it wrote
        if serde_json::from_str::<String>(&js).ok().as_deref() != Some(s.as_str()) {
            out.oracle_fail("text:json-string-roundtrip", "serde_json does not read back a string it wrote", json!({"kind": "dag", "src": s}));
        }
        let _ = i;
    }
}

/// Cyclic value graphs (closures of recursive bindings): the generator knows the graph, including
/// where the cycle is entered; the model term uses `(c addr c upvar…)` for a closure (function part
/// elided on both sides) and `(p addr sort)` for the back edge.
fn stream_cyc(out: &mut Out, rng: &mut Rng, n: usize) {
    let vm = mk_vm(false, false);
    let vm2 = mk_vm(false, false);
    for i in 0..n {
        let extra = rng.below(3) as usize; // extra atom fields of the recursive record
        let f_first = rng.chance(1, 2);
        let copies = rng.range(1, 3) as usize;
        let mut names: Vec<String> = (0..extra).map(|k| format!("x{}", k)).collect();
        let mut vals: Vec<String> = (0..extra).map(|k| if k % 2 == 0 { format!("{}", k + 1) } else { "\"s\"".to_string() }).collect();
        names.push("n".into());
        vals.push("7".into());
        if f_first {
            names.insert(0, "f".into());
            vals.insert(0, "\\y -> r.n #Int+ y".into());
        } else {
            names.push("f".into());
            vals.push("\\y -> r.n #Int+ y".into());
        }
        let rec_src = format!("rec let r = {{ {} }}\nin\n", names.iter().zip(&vals).map(|(a, b)| format!("{} = {}", a, b)).collect::<Vec<_>>().join(", "));
        // term of the record with address `ra`, whose closure field has address `ca` and upvar `up`
        let rec_term = |ra: usize, ca: usize, up: &str| -> String {
            let mut s = format!("(n {} 0 d (n 1000 0 f)", ra);
            for nm in &names {
                if nm == "f" {
                    s.push_str(&format!(" (c {} c {})", ca, up));
                } else {
                    s.push_str(" a");
                }
            }
            s.push(')');
            s
        };
        let template = rng.below(5);
        let (kind, src, term): (&str, String, String) = match template {
            0 => ("cyc-record-root", format!("{}r\n", rec_src), rec_term(0, 1, "(p 0 d)")),
            1 => ("cyc-closure-root", format!("{}r.f\n", rec_src), format!("(c 1 c {})", rec_term(0, 1, "(p 1 c)"))),
            2 => {
                let clo = format!("(c 1 c {})", rec_term(2, 1, "(p 1 c)"));
                ("cyc-closure-in-array", format!("{}[{}]\n", rec_src, vec!["r.f"; copies].join(", ")), format!("(n 0 0 a{})", format!(" {}", clo).repeat(copies)))
            }
            3 => (
                "cyc-mutual-in-record",
                "rec\nlet f x = g x\nlet g x = f x\nin\n{ f, g }\n".to_string(),
                "(n 0 0 d (n 1001 0 f) (c 1 c (c 2 c (p 1 c))) (c 2 c (p 1 c)))".to_string(),
            ),
            _ => (
                "cyc-mutual-root",
                "rec\nlet f x = if x #Int< 1 then 0 else g (x #Int- 1)\nlet g x = f x\nin\nf\n".to_string(),
                "(c 0 c (c 1 c (p 0 c)))".to_string(),
            ),
        };
        let name = format!("cyc{}", i);
        let v = match gv::catch(|| vm.run_expr::<OpaqueValue<RootedThread, Hole>>(&name, &src)) {
            Ok(Ok((v, _))) => v,
            Ok(Err(e)) => {
                out.count("cyc:rejected-by-gluon");
                out.stats.insert("cyc:rejected-sample".into(), json!({"src": src, "err": e.to_string()}));
                continue;
            }
            Err(pn) => {
                out.oracle_fail("panic:run-cyclic-program", &format!("running a value program panicked: {}", pn), json!({"kind": "dag", "src": src}));
                continue;
            }
        };
        let bytes = match ser_value(v.get_variant()) {
            Ok(b) => b,
            Err(e) => {
                out.oracle_fail("ser-value-error", &format!("serialising a closure value failed: {}", e), json!({"kind": "dag", "src": src}));
                continue;
            }
        };
        let root = jscan(&bytes).expect("serde_json output scans");
        let mut ps = vec![];
        if pattern(&bytes, &root, "?", &mut ps).is_none() {
            out.count("cyc:unsupported-shape");
            continue;
        }
        let raw: Vec<Pat> = ps.into_iter().map(|x| x.0).collect();
        let mut map = Default::default();
        let nz = normalise(&raw, &mut map);
        let real = format!("(ok{})", nz.iter().map(|p| format!(" {}", pat_sexp(p))).collect::<String>());
        out.case(&format!("ser {}", term), &real);
        let pats: String = nz.iter().map(pat_sexp).collect::<Vec<_>>().join(" ");
        let pl = de_payload_norm(&vm2, &bytes, &map);
        out.case(&format!("de {}", pats), &pl);
        let outcome = pl.split(|c| c == ' ' || c == ')').next().unwrap_or("").trim_start_matches('(').to_string();
        out.count(&format!("cyc:{}:{}", kind, outcome));
        out.class(format!("cyc:{}:{}:{}:{}", kind, extra, f_first, outcome));
        // model-independent: a cycle entered through a closure survives the round trip unchanged
        if kind != "cyc-record-root" && pl != real {
            out.oracle_fail("value-roundtrip:cyclic", "a cyclic closure value changed (or was rejected) across serialise/deserialise", json!({"kind": "dag", "src": src, "before": real, "after": pl}));
        }
        if i % 13 == 1 {
            out.sample(json!({"stream": "C-cyclic", "src": src, "term": term, "pattern": real, "de": pl}));
        }
    }
}

fn stream_c(out: &mut Out, rng: &mut Rng, n_progs: usize) {
    let vm = mk_vm(false, false);
    let vm2 = mk_vm(false, false);
    for pi in 0..n_progs {
        let p = gen_dag(rng);
        let name = format!("dag{}", pi);
        let v = match gv::catch(|| vm.run_expr::<OpaqueValue<RootedThread, Hole>>(&name, &p.src)) {
            Ok(Ok((v, _))) => v,
            Ok(Err(e)) => {
                out.count("dag:rejected-by-gluon");
                if out.stats.get("dag:rejected-sample").is_none() {
                    out.stats.insert("dag:rejected-sample".into(), json!({"src": p.src, "err": e.to_string()}));
                }
                continue;
            }
            Err(pn) => {
                out.oracle_fail("panic:run-dag-program", &format!("running a value program panicked: {}", pn), json!({"kind": "dag", "src": p.src}));
                continue;
            }
        };
        let bytes = match ser_value(v.get_variant()) {
            Ok(b) => b,
            Err(e) => {
                out.oracle_fail("ser-value-error", &format!("serialising a plain data value failed: {}", e), json!({"kind": "dag", "src": p.src}));
                continue;
            }
        };
        let root = jscan(&bytes).expect("serde_json output scans");
        let mut ps = vec![];
        if pattern(&bytes, &root, "?", &mut ps).is_none() {
            out.count("dag:unsupported-shape");
            continue;
        }
        // 1. ser: model on the generator's DAG vs pattern of the real stream
        let mut fl = vec![];
        let term = dag_term(&p, p.root, &mut fl);
        let mut real = String::from("(ok");
        for q in &ps {
            real.push(' ');
            real.push_str(&pat_sexp(&q.0));
        }
        real.push(')');
        out.case(&format!("ser {}", term), &real);
        let ntok: usize = ps.iter().map(|q| pat_tokens(&q.0)).sum();
        let nref = real.matches("(R ").count();
        out.count(&format!("dag:refs:{}", nref.min(6)));
        out.class(format!("ser:{}", real.replace(|c: char| c.is_ascii_digit(), "")));
        if pi % 97 == 3 {
            out.sample(json!({"stream": "C", "src": p.src, "term": term, "pattern": real}));
        }
        // model-independent oracle on the value round trip: same canonical value, and the
        // re-serialisation of the loaded value has the same pattern (sharing preserved)
        match gv::catch(|| de_value(&vm2, &bytes)) {
            Ok(Ok(v2)) => {
                let (c1, c2) = (canon_s(v.get_variant()), canon_s(v2.get_variant()));
                if c1 != c2 {
                    out.oracle_fail("value-roundtrip:changed", "a data value changed across serialise/deserialise", json!({"kind": "dag", "src": p.src, "before": c1, "after": c2}));
                }
                let again = de_payload(&vm2, &bytes);
                if again != real {
                    out.oracle_fail("value-roundtrip:sharing", "sharing pattern of a data value changed across serialise/deserialise", json!({"kind": "dag", "src": p.src, "before": real, "after": again}));
                }
            }
            Ok(Err(e)) => out.oracle_fail("value-roundtrip:rejected", &format!("the serialised form of a plain data value is rejected: {}", e), json!({"kind": "dag", "src": p.src})),
            Err(pn) => out.oracle_fail("value-roundtrip:panic", &format!("deserialising a plain data value panicked: {}", pn), json!({"kind": "dag", "src": p.src})),
        }
        // 2. de on the intact stream, on id corruptions, on truncations
        let pats: String = ps.iter().map(|q| pat_sexp(&q.0)).collect::<Vec<_>>().join(" ");
        out.case(&format!("de {}", pats), &de_payload(&vm2, &bytes));
        // id corruptions: pick Reference / Marked id number nodes in the text
        let mut all = vec![];
        jflatten(&root, "", &mut all);
        let ids: Vec<(usize, usize, bool)> = all
            .iter()
            .filter_map(|(nd, pth)| {
                if nd.kind == JK::Num && pth.ends_with("/Reference") {
                    Some((nd.start, nd.end, false))
                } else {
                    None
                }
            })
            .collect();
        let mut marks = vec![];
        fn find_marks(n: &JNode, out: &mut Vec<(usize, usize)>) {
            if let Some((_, _, k)) = &n.key {
                if k == "Marked" && n.kind == JK::Arr && n.kids.len() == 2 {
                    out.push((n.kids[0].start, n.kids[0].end));
                }
            }
            for k in &n.kids {
                find_marks(k, out);
            }
        }
        find_marks(&root, &mut marks);
        let nmarks = marks.len() as u64;
        for _ in 0..3 {
            let use_ref = !ids.is_empty() && rng.chance(2, 3);
            let (s, e, newid) = if use_ref {
                let (s, e, _) = ids[rng.below(ids.len() as u64) as usize];
                (s, e, rng.below(nmarks + 2))
            } else if !marks.is_empty() {
                let (s, e) = marks[rng.below(nmarks) as usize];
                // fresh id: never collides with another mark (duplicate marks are outside the
                // fragment the model's address discipline covers)
                (s, e, nmarks + rng.below(3))
            } else {
                continue;
            };
            let mut text = bytes[..s].to_vec();
            text.extend_from_slice(format!("{}", newid).as_bytes());
            text.extend_from_slice(&bytes[e..]);
            let r2 = match jscan(&text) {
                Some(r) => r,
                None => continue,
            };
            let mut ps2 = vec![];
            if pattern(&text, &r2, "?", &mut ps2).is_none() {
                continue;
            }
            let pats2: String = ps2.iter().map(|q| pat_sexp(&q.0)).collect::<Vec<_>>().join(" ");
            let pl = de_payload(&vm2, &text);
            out.count(&format!("de-corrupt:{}", pl.split(|c| c == ' ' || c == ')').next().unwrap_or("").trim_start_matches('(')));
            out.class(format!("de:{}:{}", if use_ref { "ref" } else { "mark" }, pl.replace(|c: char| c.is_ascii_digit(), "")));
            out.case(&format!("de {}", pats2), &pl);
        }
        // truncations right before the k-th abstract token
        let mut starts = vec![];
        token_starts(&bytes, &root, &mut starts);
        debug_assert_eq!(starts.len(), ntok);
        for _ in 0..2 {
            if starts.is_empty() {
                break;
            }
            let k = rng.below(starts.len() as u64) as usize;
            let pl = de_payload(&vm2, &bytes[..starts[k]]);
            out.count(&format!("de-trunc:{}", pl));
            out.case(&format!("detrunc {} {}", k, pats), &pl);
        }
    }
}

// ------------------------------------------------------------------------------------------
// Child process: load (possibly damaged) bytecode texts, one per line
// ------------------------------------------------------------------------------------------

/// stdin lines: `<flags> <hex json>`; flags: `p` prelude VM, `h` helper module defined, `-` none.
/// stdout: one line per case `R <n> ok|err|panic <detail>`.
fn child_load() {
    // read everything first: the parent writes all of stdin before it starts reading our stdout
    let lines: Vec<String> = std::io::stdin().lock().lines().map(|l| l.unwrap()).collect();
    let mut vms: std::collections::HashMap<String, (RootedThread, u32)> = Default::default();
    let so = std::io::stdout();
    for (n, line) in lines.into_iter().enumerate() {
        let mut it = line.splitn(2, ' ');
        let flags = it.next().unwrap().to_string();
        let hex = it.next().unwrap_or("");
        let hv = |c: u8| -> u8 {
            match c {
                b'0'..=b'9' => c - b'0',
                b'a'..=b'f' => c - b'a' + 10,
                _ => panic!("bad hex digit"),
            }
        };
        let hb = hex.as_bytes();
        let bytes: Vec<u8> = (0..hb.len() / 2).map(|i| hv(hb[2 * i]) * 16 + hv(hb[2 * i + 1])).collect();
        let mk = |flags: &str| {
            let vm = mk_vm(flags.contains('p'), flags.contains('h'));
            if flags.contains('p') {
                let _ = vm.run_expr::<OpaqueValue<&Thread, Hole>>("warm", "0");
            }
            vm
        };
        let ent = vms.entry(flags.clone()).or_insert_with(|| (mk(&flags), 0));
        ent.1 += 1;
        if ent.1 > 200 {
            *ent = (mk(&flags), 0);
        }
        {
            let mut o = so.lock();
            writeln!(o, "S {}", n).unwrap();
            o.flush().unwrap();
        }
        let r = run_bc(&ent.0, "test", &bytes);
        if matches!(&r, Err(e) if e.starts_with("PANIC ")) {
            // a panic inside the VM poisons its locks: never reuse it
            ent.1 = 1000;
        }
        let mut o = so.lock();
        match r {
            Ok(v) => writeln!(o, "R {} ok {}", n, v.replace('\n', " ")).unwrap(),
            Err(e) if e.starts_with("PANIC ") => writeln!(o, "R {} panic {}", n, e[6..].replace('\n', " ")).unwrap(),
            Err(e) => writeln!(o, "R {} err {}", n, e.replace('\n', " ")).unwrap(),
        }
        o.flush().unwrap();
    }
}

fn hex(b: &[u8]) -> String {
    const D: &[u8; 16] = b"0123456789abcdef";
    let mut s = String::with_capacity(b.len() * 2);
    for x in b {
        s.push(D[(x >> 4) as usize] as char);
        s.push(D[(x & 15) as usize] as char);
    }
    s
}

#[derive(Debug, Clone)]
enum LoadOutcome {
    Ok(String),
    Err(String),
    Panic(String),
    Crash(String),
}

/// Like `gv::child::run(&["--child", "load"], …)` but with an address-space limit (a corrupted
/// count can ask for tens of GB: that must kill the child, not the machine) and with the readers
/// started before stdin is written.
fn spawn_child(input: &[u8], timeout: Duration) -> gv::child::Exit {
    use gv::child::Exit;
    use std::io::Read;
    use std::process::{Command, Stdio};
    let exe = std::env::current_exe().unwrap();
    let mut ch = Command::new("sh")
        .arg("-c")
        .arg("ulimit -v 6291456; exec \"$0\" --child load")
        .arg(exe)
        .stdin(Stdio::piped())
        .stdout(Stdio::piped())
        .stderr(Stdio::piped())
        .spawn()
        .expect("spawn child");
    let mut si = ch.stdin.take().unwrap();
    let mut so = ch.stdout.take().unwrap();
    let mut se = ch.stderr.take().unwrap();
    let inp = input.to_vec();
    let t_in = std::thread::spawn(move || {
        let _ = si.write_all(&inp);
    });
    // `timeout` bounds the time *without progress* (the child prints a line per case), so a
    // loaded machine does not turn a long batch into a false "hang"
    let progress = std::sync::Arc::new(std::sync::Mutex::new(std::time::Instant::now()));
    let pr2 = progress.clone();
    let t_out = std::thread::spawn(move || {
        let mut s = Vec::new();
        let mut buf = [0u8; 65536];
        loop {
            match so.read(&mut buf) {
                Ok(0) | Err(_) => break,
                Ok(n) => {
                    s.extend_from_slice(&buf[..n]);
                    *pr2.lock().unwrap() = std::time::Instant::now();
                }
            }
        }
        String::from_utf8_lossy(&s).into_owned()
    });
    let t_err = std::thread::spawn(move || {
        let mut s = Vec::new();
        let _ = se.read_to_end(&mut s);
        let s = String::from_utf8_lossy(&s).into_owned();
        s.chars().take(400).collect::<String>()
    });
    loop {
        match ch.try_wait().unwrap() {
            Some(st) => {
                let _ = t_in.join();
                let out = t_out.join().unwrap();
                let err = t_err.join().unwrap();
                use std::os::unix::process::ExitStatusExt;
                if let Some(sig) = st.signal() {
                    return Exit::Signal(sig, out, err);
                }
                return match st.code() {
                    Some(0) => Exit::Ok(out),
                    Some(c) => Exit::Code(c, out, err),
                    None => Exit::Signal(-1, out, err),
                };
            }
            None => {
                let stalled = progress.lock().unwrap().elapsed();
                if stalled > timeout {
                    let _ = ch.kill();
                    let _ = ch.wait();
                    let _ = t_in.join();
                    let out = t_out.join().unwrap();
                    let _ = t_err.join();
                    return Exit::Timeout(out);
                }
                std::thread::sleep(Duration::from_millis(2));
            }
        }
    }
}

/// Runs the batch in child processes; a case that kills the child is reported as `Crash` and the
/// rest of the batch continues in a new child.
fn run_batch(cases: &[(String, Vec<u8>)]) -> Vec<LoadOutcome> {
    let mut res: Vec<Option<LoadOutcome>> = vec![None; cases.len()];
    let mut start = 0;
    // one line per case, encoded once (a restart after a dead child re-sends the rest)
    let lines: Vec<String> = cases.iter().map(|(f, b)| format!("{} {}\n", f, hex(b))).collect();
    while start < cases.len() {
        let mut input = String::with_capacity(lines[start..].iter().map(|l| l.len()).sum());
        for l in &lines[start..] {
            input.push_str(l);
        }
        let ex = spawn_child(input.as_bytes(), Duration::from_secs(45));
        let (stdout, how) = match &ex {
            gv::child::Exit::Ok(o) => (o.clone(), "ok".to_string()),
            gv::child::Exit::Code(c, o, e) => (o.clone(), format!("exit:{} {}", c, tail(e))),
            gv::child::Exit::Signal(s, o, e) => (o.clone(), format!("signal:{} {}", s, tail(e))),
            gv::child::Exit::Timeout(o) => (o.clone(), "timeout".to_string()),
        };
        let mut last_started: Option<usize> = None;
        let mut done = 0;
        for l in stdout.lines() {
            let mut it = l.splitn(4, ' ');
            match it.next() {
                Some("S") => last_started = it.next().and_then(|x| x.parse().ok()),
                Some("R") => {
                    let n: usize = it.next().and_then(|x| x.parse().ok()).unwrap_or(usize::MAX);
                    let kind = it.next().unwrap_or("");
                    let rest = it.next().unwrap_or("").to_string();
                    if start + n < res.len() {
                        res[start + n] = Some(match kind {
                            "ok" => LoadOutcome::Ok(rest),
                            "err" => LoadOutcome::Err(rest),
                            _ => LoadOutcome::Panic(rest),
                        });
                        done = done.max(n + 1);
                    }
                }
                _ => {}
            }
        }
        if how == "ok" && done == cases.len() - start {
            break;
        }
        // the child died / hung while running case `last_started` (or before starting any)
        let bad = last_started.unwrap_or(0);
        if res[start + bad].is_none() {
            // confirm in a child of its own (new VM, nothing else running in the process)
            let (f, b) = &cases[start + bad];
            let one = format!("{} {}\n", f, hex(b));
            let ex1 = spawn_child(one.as_bytes(), Duration::from_secs(45));
            let (o1, how1) = match &ex1 {
                gv::child::Exit::Ok(o) => (o.clone(), "ok".to_string()),
                gv::child::Exit::Code(c, o, e) => (o.clone(), format!("exit:{} {}", c, tail(e))),
                gv::child::Exit::Signal(sg, o, e) => (o.clone(), format!("signal:{} {}", sg, tail(e))),
                gv::child::Exit::Timeout(o) => (o.clone(), "timeout".to_string()),
            };
            let mut r1 = None;
            for l in o1.lines() {
                let mut it = l.splitn(4, ' ');
                if it.next() == Some("R") {
                    let _ = it.next();
                    let kind = it.next().unwrap_or("");
                    let rest = it.next().unwrap_or("").to_string();
                    r1 = Some(match kind {
                        "ok" => LoadOutcome::Ok(rest),
                        "err" => LoadOutcome::Err(rest),
                        _ => LoadOutcome::Panic(rest),
                    });
                }
            }
            res[start + bad] = Some(r1.unwrap_or(LoadOutcome::Crash(how1)));
        }
        start = start + bad + 1;
    }
    res.into_iter().map(|r| r.unwrap_or(LoadOutcome::Crash("no-result".into()))).collect()
}

fn tail(s: &str) -> String {
    let t: String = s.chars().rev().take(300).collect::<Vec<_>>().into_iter().rev().collect();
    t.replace('\n', " ")
}

/// Coarse class of a panic / crash message: keeps file:line if present, drops values.
fn crash_class(msg: &str) -> String {
    if let Some(i) = msg.find(".rs:") {
        let s = msg[..i].rfind(|c: char| c.is_whitespace() || c == '\'' || c == '(').map(|x| x + 1).unwrap_or(0);
        let e = msg[i + 4..].find(|c: char| !c.is_ascii_digit()).map(|x| i + 4 + x).unwrap_or(msg.len());
        return msg[s..e].to_string();
    }
    let m: String = msg.chars().filter(|c| !c.is_ascii_digit()).take(60).collect();
    m
}

// ------------------------------------------------------------------------------------------
// Stream A + B driver
// ------------------------------------------------------------------------------------------

struct Vms {
    src: RootedThread,
    a: RootedThread,
    b: RootedThread,
    uses: u32,
}

fn vms(prelude: bool, helper: bool) -> Vms {
    let v = Vms {
        src: mk_vm(prelude, helper),
        a: mk_vm(prelude, helper),
        b: mk_vm(prelude, helper),
        uses: 0,
    };
    if prelude {
        // bytecode does not import what it references: the loading VM must have the modules the
        // implicit prelude brings in (a VM that lacks them is the `missing-module` damage case)
        let _ = v.b.run_expr::<OpaqueValue<&Thread, Hole>>("warm", "0");
    }
    v
}

fn check_program(
    out: &mut Out,
    rng: &mut Rng,
    p: &Prog,
    vs: &Vms,
    fresh_every: bool,
    damaged: &mut Vec<(String, Vec<u8>, serde_json::Value, &'static str, String, bool)>,
    n_trunc: usize,
    n_corrupt: usize,
    systematic: bool,
) {
    let replay = |extra: serde_json::Value| {
        let mut r = json!({"kind": "program", "src": p.src, "prelude": p.prelude, "helper": p.helper, "name": p.name});
        if let (Some(o), Some(e)) = (r.as_object_mut(), extra.as_object()) {
            for (k, v) in e {
                o.insert(k.clone(), v.clone());
            }
        }
        r
    };
    let shape = p.feats.join("+");
    let direct: Result<String, String> = match run_source(&vs.src, &p.name, &p.src) {
        Ok(v) => Ok(v),
        Err(e) if e.starts_with("PANIC") => {
            out.count("A:source-panic");
            out.stats.insert("A:source-panic-sample".into(), json!({"src": p.src, "err": e}));
            return;
        }
        Err(e) => {
            let c = err_class(&e);
            if c != "overflow" && c != "stack-overflow" && c != "oom" {
                // the generator aims at well-typed programs; count what gluon rejects
                out.count("A:source-rejected");
                if out.stats.get("A:source-rejected-sample").is_none() {
                    out.stats.insert("A:source-rejected-sample".into(), json!({"src": p.src, "err": e}));
                }
                return;
            }
            out.count("A:runtime-error-programs");
            Err(c)
        }
    };
    out.count("A:programs");
    for f in &p.feats {
        out.count(&format!("feat:{}", f));
    }
    let bytes = match compile_bc(&vs.a, &p.name, &p.src) {
        Ok(b) => b,
        Err(e) => {
            out.oracle_fail(
                &format!("compile_to_bytecode-fails:{}", if e.starts_with("PANIC") { crash_class(&e) } else { err_class(&e) }),
                &format!("a program that runs from source cannot be compiled to bytecode: {}", e),
                replay(json!({})),
            );
            return;
        }
    };
    out.add("A:bytes", bytes.len() as u64);
    // compiler output satisfies the operand part of the verifier specification (LoadVerify)
    {
        if let Some(fs) = module_fn_sexp(&bytes) {
            out.case(&format!("operands {}", fs), "accept");
            out.count("verify-spec:intact-accept");
        }
    }
    // every instruction array of the emitted module: the model's decode∘encode reproduces the text,
    // `Instruction::adjust` agrees with the generated table, and the module passes the verifier
    // specification (`emitted_modules_verified`)
    {
        let t0 = std::time::Instant::now();
        emitted_module_case(out, &vs.a, p, &bytes, &replay);
        out.add("mod:millis", t0.elapsed().as_millis() as u64);
    }
    // the structs are written with exactly the fields of Generated.ModuleFields, in that order
    if p.feats.contains(&"corpus") {
        if let Some(root) = jscan(&bytes) {
            for (name, keys) in struct_keys(&root) {
                out.case(&format!("fields {}", gv::quote(&name)), &strs_sexp(&keys));
                out.count("fields:structs-compared");
            }
        }
    }
    // structural: every field of the compiled module survives
    match (module_debug_compiled(&vs.a, &p.name, &p.src), module_debug_loaded(&vs.b, &bytes)) {
        (Ok(x), Ok(y)) => {
            if x != y {
                let at = x.bytes().zip(y.bytes()).position(|(a, b)| a != b).unwrap_or(x.len().min(y.len()));
                let ctx = |s: &str| s.chars().skip(at.saturating_sub(60)).take(140).collect::<String>();
                let fp = if ctx(&x).contains("EqFloat(") { "module-structure-changed:PushFloat" } else { "module-structure-changed" };
                out.oracle_fail(
                    fp,
                    "the deserialised module differs (Debug rendering) from the compiled one",
                    replay(json!({"compiled": ctx(&x), "loaded": ctx(&y)})),
                );
            } else {
                out.count("A:structure-equal");
            }
        }
        (Err(e), _) => {
            out.count("A:structure-compile-error");
            let _ = e;
        }
        (_, Err(e)) => out.oracle_fail(
            &format!("module-load-fails:{}", err_class(&e)),
            &format!("the serialised module cannot be deserialised: {}", e),
            replay(json!({})),
        ),
    }
    let mut targets: Vec<(&'static str, RootedThread)> = vec![("same-vm", vs.a.clone()), ("other-vm", vs.b.clone())];
    if fresh_every {
        let nv = mk_vm(p.prelude, p.helper);
        if p.prelude {
            let _ = nv.run_expr::<OpaqueValue<&Thread, Hole>>("warm", "0");
        }
        targets.push(("new-vm", nv));
    }
    for (which, vm) in &targets {
        let rb = run_bc(vm, &p.name, &bytes);
        if p.helper && !p.prelude && *which == "other-vm" {
            let w = module_globals(&bytes);
            if !w.is_empty() {
                let pl = match &rb {
                    Ok(_) => "ok",
                    Err(e) if e.starts_with("PANIC") => "panic",
                    Err(e) if err_class(e) == "overflow" => "ok", // globals resolved, the program itself fails
                    Err(_) => "error",
                };
                out.case(&format!("globals {} {}", strs_sexp(&["gvmod".to_string()]), strs_sexp(&w)), pl);
                out.count(&format!("globals:{}", pl));
            }
        }
        match (rb, &direct) {
            (Ok(v), Ok(d)) if v == *d => out.count(&format!("A:equal:{}", which)),
            (Ok(v), Ok(d)) => out.oracle_fail(
                &format!("result-differs:{}", first_diff_kind(d, &v)),
                &format!("bytecode loaded in {} evaluates to a different value than the source", which),
                replay(json!({"source": d, "bytecode": v, "where": which})),
            ),
            (Err(e), Err(d)) if err_class(&e) == *d => out.count(&format!("A:equal-error:{}", which)),
            (Ok(v), Err(d)) => out.oracle_fail(
                &format!("error-lost:{}", d),
                &format!("the source fails at run time ({}) but its bytecode evaluates to a value in {}", d, which),
                replay(json!({"source_error": d, "bytecode": v, "where": which})),
            ),
            (Err(e), _) => out.oracle_fail(
                &if e.contains("Global is missing from environment") {
                    "undefined-global:panic".to_string()
                } else {
                    format!("load-fails:{}", if e.starts_with("PANIC") { crash_class(&e) } else { err_class(&e) })
                },
                &format!("bytecode of a valid program fails to load/run in {}: {}", which, e),
                replay(json!({"where": which})),
            ),
        }
    }
    out.class(format!("A:{}", shape));
    if out.n_cases % 5 == 0 && p.feats.len() >= 4 {
        out.sample(json!({"stream": "A", "src": p.src, "result": format!("{:?}", direct), "bytes": bytes.len()}));
    }
    // bytecode naming a module the VM does not have (helper programs only): must be Err
    let flags = format!("{}{}", if p.prelude { "p" } else { "-" }, if p.helper { "h" } else { "" });
    let names_helper = String::from_utf8_lossy(&bytes).contains("\"@gvmod\"");
    if p.helper && names_helper {
        let fl = if p.prelude { "p".to_string() } else { "-".to_string() };
        let wanted = module_globals(&bytes);
        damaged.push((fl, bytes.clone(), replay(json!({"damage": "vm-without-gvmod", "wanted": wanted, "defined": []})), "missing-module", "gvmod".into(), true));
    }
    // truncations (the child loads under the module name `test`)
    let n = bytes.len();
    let (n_trunc, n_corrupt, systematic) = if p.name == "test" { (n_trunc, n_corrupt, systematic) } else { (0, 0, false) };
    for k in 0..n_trunc {
        let cut = match k {
            0 => 0,
            1 => n - 1,
            2 => n / 2,
            _ => rng.below(n as u64) as usize,
        };
        damaged.push((flags.clone(), bytes[..cut].to_vec(), replay(json!({"damage": "truncate", "at": cut})), "truncate", format!("{}", cut * 10 / n), true));
    }
    let mut cs = if n_corrupt > 0 { corruptions(rng, &bytes, n_corrupt) } else { vec![] };
    if systematic {
        cs.extend(systematic_operands(&bytes));
    }
    for c in cs {
        let mut rp = replay(json!({"damage": c.kind, "path": c.path, "text": String::from_utf8_lossy(&c.text), "out_of_range": c.oor}));
        if c.kind == "rename-global" && p.helper && !p.prelude {
            rp["wanted"] = json!(module_globals(&c.text));
            rp["defined"] = json!(["gvmod"]);
        }
        damaged.push((
            flags.clone(),
            c.text.clone(),
            rp,
            c.kind,
            c.path.clone(),
            c.must_err,
        ));
    }
}

fn first_diff_kind(a: &str, b: &str) -> &'static str {
    let at = a.bytes().zip(b.bytes()).position(|(x, y)| x != y).unwrap_or(0);
    let s = &a[..at];
    // walk back to the start of the differing token
    let t = s.rfind(|c: char| c == ' ' || c == '(' || c == '[').map(|i| &a[i + 1..]).unwrap_or(a);
    if t.starts_with('f') {
        "float"
    } else if t.starts_with('"') {
        "string"
    } else if t.starts_with('<') {
        "closure"
    } else if t.starts_with('#') {
        "tag"
    } else {
        "int-or-shape"
    }
}


// ------------------------------------------------------------------------------------------
// Structure of the serialised module: struct keys (vs Generated.ModuleFields) and the operand view
// of a function (vs LoadVerify.operandsOkDeep)
// ------------------------------------------------------------------------------------------

fn jget<'a>(n: &'a JNode, key: &str) -> Option<&'a JNode> {
    n.kids.iter().find(|k| k.key.as_ref().map_or(false, |x| x.2 == key))
}

fn jkeys(n: &JNode) -> Vec<String> {
    n.kids.iter().filter_map(|k| k.key.as_ref().map(|x| x.2.clone())).collect()
}

fn jnum(b: &[u8], n: &JNode) -> Option<u64> {
    if n.kind != JK::Num {
        return None;
    }
    std::str::from_utf8(&b[n.start..n.end]).ok()?.parse().ok()
}

/// (struct name, keys in stream order) for one instance of every struct of the module tree that
/// occurs in this text.
fn struct_keys(root: &JNode) -> Vec<(String, Vec<String>)> {
    let mut out: Vec<(String, Vec<String>)> = vec![];
    let mut add = |name: &str, n: &JNode| {
        if n.kind == JK::Obj && !out.iter().any(|x| x.0 == name) {
            out.push((name.to_string(), jkeys(n)));
        }
    };
    add("Module", root);
    if let Some(m) = jget(root, "module") {
        add("CompiledModule", m);
        if let Some(f) = jget(m, "function") {
            let mut todo = vec![f];
            while let Some(f) = todo.pop() {
                add("CompiledFunction", f);
                if let Some(d) = jget(f, "debug_info") {
                    add("DebugInfo", d);
                    if let Some(x) = jget(d, "source_map") {
                        add("SourceMap", x);
                    }
                    if let Some(x) = jget(d, "local_map") {
                        add("LocalMap", x);
                        if let Some(l) = jget(x, "map").and_then(|m| m.kids.first()) {
                            add("Local", l);
                        }
                    }
                    if let Some(u) = jget(d, "upvars").and_then(|m| m.kids.first()) {
                        add("UpvarInfo", u);
                    }
                }
                if let Some(inner) = jget(f, "inner_functions") {
                    for g in &inner.kids {
                        todo.push(g);
                    }
                }
            }
        }
    }
    out
}

/// `(fn max upvars nstrings (record sizes) (instr…) (inner…))`
fn fn_sexp(b: &[u8], f: &JNode, upvars: u64) -> Option<String> {
    let max = jnum(b, jget(f, "max_stack_size")?)?;
    let nstr = jget(f, "strings")?.kids.len();
    let recs: Vec<String> = jget(f, "records")?.kids.iter().map(|r| r.kids.len().to_string()).collect();
    let mut instrs = vec![];
    let mut inner_upvars: std::collections::HashMap<u64, u64> = Default::default();
    for i in &jget(f, "instructions")?.kids {
        let s = match i.kind {
            JK::Str => {
                if &b[i.start..i.end] == b"\"Return\"" { "ret".to_string() } else { "x".to_string() }
            }
            JK::Obj if i.kids.len() == 1 => {
                let k = &i.kids[0];
                let name = k.key.as_ref()?.2.as_str();
                let field = |n: &str| jget(k, n).and_then(|x| jnum(b, x));
                match name {
                    "TailCall" => "tc".to_string(),
                    "Jump" => format!("(j {})", jnum(b, k)?),
                    "CJump" => format!("(cj {})", jnum(b, k)?),
                    "PushString" | "GetField" | "TestPolyTag" => format!("(s {})", jnum(b, k)?),
                    "ConstructPolyVariant" => format!("(s {})", field("tag")?),
                    "NewRecord" | "ConstructRecord" => format!("(r {} {})", field("record")?, field("args")?),
                    "PushUpVar" => format!("(u {})", jnum(b, k)?),
                    "MakeClosure" | "NewClosure" => {
                        let (j, u) = (field("function_index")?, field("upvars")?);
                        inner_upvars.entry(j).or_insert(u);
                        format!("(c {} {})", j, u)
                    }
                    _ => "x".to_string(),
                }
            }
            _ => return None,
        };
        instrs.push(s);
    }
    let mut inner = vec![];
    for (j, g) in jget(f, "inner_functions")?.kids.iter().enumerate() {
        // the number of upvars a function expects: its debug info lists them by name; without
        // debug info fall back to the creating instruction
        let declared = jget(g, "debug_info").and_then(|d| jget(d, "upvars")).map(|u| u.kids.len() as u64);
        let up = match (declared, inner_upvars.get(&(j as u64)).copied()) {
            (Some(d), Some(u)) if d == 0 && u > 0 && jget(g, "debug_info").and_then(|d| jget(d, "local_map")).map_or(true, |m| jget(m, "map").map_or(true, |x| x.kids.is_empty())) => u,
            (Some(d), _) => d,
            (None, u) => u.unwrap_or(0),
        };
        inner.push(fn_sexp(b, g, up)?);
    }
    Some(format!("(fn {} {} {} ({}) ({}) ({}))", max, upvars, nstr, recs.join(" "), instrs.join(" "), inner.join(" ")))
}

fn module_fn_sexp(b: &[u8]) -> Option<String> {
    let root = jscan(b)?;
    let m = jget(&root, "module")?;
    let globals = jget(m, "module_globals")?.kids.len() as u64;
    fn_sexp(b, jget(m, "function")?, globals)
}

/// What the `mod` request needs of one function of the serialised module.
struct ModFn {
    sexp: String,
    n: u64,
    adj: i64,
    supported: bool,
    reser_same: bool,
    first_diff: String,
}

/// `(fn args max upvars nstrings (record sizes) "<instructions text>" nosplits|(k…) (inner…))` for the
/// function at `path`, the text taken verbatim from the real `compile_to_bytecode` output.
fn mod_fn(b: &[u8], f: &JNode, upvars: u64, path: &mut Vec<usize>, dump: &[bytecode::FnDump]) -> Option<ModFn> {
    use gluon::vm::types::Instruction;
    let args = jnum(b, jget(f, "args")?)?;
    let max = jnum(b, jget(f, "max_stack_size")?)?;
    let nstr = jget(f, "strings")?.kids.len();
    let recs: Vec<String> = jget(f, "records")?.kids.iter().map(|r| r.kids.len().to_string()).collect();
    let ins = jget(f, "instructions")?;
    let text = std::str::from_utf8(&b[ins.start..ins.end]).ok()?.to_string();
    // the real reader / writer on this array
    let real: Vec<Instruction> = serde_json::from_str(&text).ok()?;
    let again = serde_json::to_string(&real).ok()?;
    let reser_same = again == text;
    let first_diff = if reser_same {
        String::new()
    } else {
        let at = again.bytes().zip(text.bytes()).position(|(x, y)| x != y).unwrap_or(0);
        let from = text[..at].rfind('{').unwrap_or(0);
        text[from..].chars().skip(2).take_while(|c| c.is_ascii_alphanumeric()).collect()
    };
    let adj: i64 = real.iter().map(|i| i.adjust() as i64).sum();
    let has_split = real.iter().any(|i| matches!(i, Instruction::Split));
    let has_closedata = real.iter().any(|i| matches!(i, Instruction::CloseData { .. }));
    // split arities: C07's annotation for the function at the same path, if it describes this array
    let ann = dump.iter().find(|d| d.path == *path && d.instrs == real).and_then(|d| d.splits.clone());
    let splits = match &ann {
        Some(ks) => format!("({})", ks.iter().map(|k| k.to_string()).collect::<Vec<_>>().join(" ")),
        None => "nosplits".to_string(),
    };
    let mut supported = !has_closedata && (ann.is_some() || !has_split);
    let mut inner_upvars: std::collections::HashMap<u64, u64> = Default::default();
    for i in &real {
        match *i {
            Instruction::MakeClosure { function_index, upvars } | Instruction::NewClosure { function_index, upvars } => {
                inner_upvars.entry(function_index as u64).or_insert(upvars as u64);
            }
            _ => (),
        }
    }
    let mut n = real.len() as u64;
    let mut adj_total = adj;
    let mut same_all = reser_same;
    let mut diff_all = first_diff;
    let mut inner = vec![];
    for (j, g) in jget(f, "inner_functions")?.kids.iter().enumerate() {
        // as in `fn_sexp`: the number of upvars a function expects
        let declared = jget(g, "debug_info").and_then(|d| jget(d, "upvars")).map(|u| u.kids.len() as u64);
        let up = match (declared, inner_upvars.get(&(j as u64)).copied()) {
            (Some(d), Some(u)) if d == 0 && u > 0 && jget(g, "debug_info").and_then(|d| jget(d, "local_map")).map_or(true, |m| jget(m, "map").map_or(true, |x| x.kids.is_empty())) => u,
            (Some(d), _) => d,
            (None, u) => u.unwrap_or(0),
        };
        path.push(j);
        let m = mod_fn(b, g, up, path, dump)?;
        path.pop();
        n += m.n;
        adj_total += m.adj;
        supported &= m.supported;
        if same_all && !m.reser_same {
            diff_all = m.first_diff.clone();
        }
        same_all &= m.reser_same;
        inner.push(m.sexp);
    }
    INSTR_POOL.with(|pool| {
        let mut pool = pool.borrow_mut();
        if reser_same && pool.len() < 4000 && text.len() < 6000 && real.len() >= 2 {
            pool.push(text.clone());
        }
    });
    Some(ModFn {
        sexp: format!("(fn {} {} {} {} ({}) {} {} ({}))", args, max, upvars, nstr, recs.join(" "), gv::quote(&text), splits, inner.join(" ")),
        n,
        adj: adj_total,
        supported,
        reser_same: same_all,
        first_diff: diff_all,
    })
}

fn emitted_module_case(out: &mut Out, vm: &Thread, p: &Prog, bytes: &[u8], replay: &dyn Fn(serde_json::Value) -> serde_json::Value) {
    let root = match jscan(bytes) {
        Some(r) => r,
        None => return,
    };
    let dump = match bytecode::compile(vm, &p.name, &p.src) {
        Ok(c) => c.fns,
        Err(_) => {
            out.count("mod:annotation-compile-failed");
            vec![]
        }
    };
    let m = (|| {
        let m = jget(&root, "module")?;
        let globals = jget(m, "module_globals")?.kids.len() as u64;
        mod_fn(bytes, jget(m, "function")?, globals, &mut vec![], &dump)
    })();
    let m = match m {
        Some(m) => m,
        None => {
            out.count("mod:not-scanned");
            return;
        }
    };
    if !m.reser_same {
        // the property's own statement on the real code: what was loaded is what was written
        out.oracle_fail(
            &format!("instr-reserialise-differs:{}", m.first_diff),
            "an instruction array read by the real Deserialize and written again differs from the text it was read from",
            replay(json!({})),
        );
    }
    let verdict = if m.supported { "accept" } else { "operands-accept" };
    out.case(
        &format!("mod {}", m.sexp),
        &format!("(n {} adj {} rt {} range ok {})", m.n, m.adj, if m.reser_same { "same" } else { "differs" }, verdict),
    );
    out.count(&format!("mod:{}", verdict));
    out.add("mod:instructions", m.n);
    out.class(format!("mod:{}:{}", p.feats.join("+"), verdict));
}

/// Sequence-shaped nodes of the serialised VALUE form: (kind, the array node whose trailing elements can
/// be deleted, number of leading elements that are not payload, the count field if the form has one).
fn seq_nodes<'a>(n: &'a JNode, parent: Option<&'a JNode>, out: &mut Vec<(&'static str, &'a JNode, usize, Option<&'a JNode>)>) {
    let key = n.key.as_ref().map(|k| k.2.as_str()).unwrap_or("");
    match (key, &n.kind) {
        // [ {"Marked":id}, function, upvar count, upvar… ]
        ("Closure", JK::Arr) if n.kids.len() >= 3 && n.kids[2].kind == JK::Num => out.push(("closure", n, 3, Some(&n.kids[2]))),
        ("fields", JK::Arr) => {
            if let Some(tag) = parent.and_then(|p| jget(p, "tag")) {
                let kind = if jget(tag, "Record").is_some() { "record" } else { "variant" };
                out.push((kind, n, 0, None));
            }
        }
        ("args", JK::Arr) if parent.map_or(false, |p| jget(p, "function").is_some()) => out.push(("partial-application", n, 0, None)),
        ("Array", JK::Obj) => {
            let inner = jget(n, "Plain").or_else(|| jget(n, "Marked").and_then(|m| m.kids.get(1)));
            if let Some(a) = inner {
                if a.kind == JK::Arr {
                    out.push(("array", a, 0, None));
                }
            }
        }
        _ => (),
    }
    for k in &n.kids {
        seq_nodes(k, Some(n), out);
    }
}

fn load_outcome(vm: &RootedThread, text: &[u8]) -> String {
    match gv::catch(|| de_value(vm, text).map(|_| ())) {
        Err(p) => format!("(panic {})", gv::quote(&p)),
        Ok(Err(e)) => format!("(error {})", err_class(&e.to_string())),
        Ok(Ok(())) => "(ok)".to_string(),
    }
}

/// Structural truncation of serialised values (wave-2 strengthening): trailing elements of a
/// sequence-shaped node deleted at element boundaries (the JSON stays well formed) and the count field
/// raised / lowered by one. Where the form is redundant (closure: explicit upvar count; record: one value
/// per field name) the real `DeSeed` must answer `Err`; a success is a load of something that was never
/// written. Forms without redundancy (variant arguments, array elements, partial-application arguments:
/// a shorter list is a well-formed different value) are only counted.
fn stream_struct(out: &mut Out, rng: &mut Rng, n: usize) {
    let vm = mk_vm(false, false);
    let mut vm2 = mk_vm(false, false);
    for i in 0..n {
        let a: Vec<i64> = (0..8).map(|_| rng.range(0, 50)).collect();
        let defs = format!(
            "type W = | W3 Int Int Int | W0\n\
             let mk3 a b c = \\z -> a #Int+ b #Int+ c #Int+ z\n\
             let mk2 a b = \\z -> a #Int+ b #Int+ z\n\
             let mk1 a = \\z -> a #Int+ z\n\
             let counter lim step =\n    rec let go x = if x #Int< lim then go (x #Int+ step) else x\n    in go\n\
             let add3 x y z = x #Int+ y #Int+ z\n\
             let nest p = \\q -> {{ p, q, h = mk2 p q }}\n"
        );
        let roots: [(&str, String); 9] = [
            ("clo3", format!("mk3 {} {} {}", a[0], a[1], a[2])),
            ("clo2", format!("mk2 {} {}", a[0], a[1])),
            ("clo1", format!("mk1 {}", a[3])),
            ("rec-clo", format!("counter {} {}", a[4] + 1, a[5] + 1)),
            ("variant", format!("W3 {} {} {}", a[0], a[1], a[2])),
            ("array", format!("[{}, {}, {}, {}]", a[0], a[1], a[2], a[3])),
            ("pap", format!("add3 {} {}", a[6], a[7])),
            ("record", format!("{{ x = {}, y = \"s\", z = {}.5, w = mk1 {} }}", a[0], a[1], a[2])),
            ("nest", format!("nest {}", a[0])),
        ];
        let which = if i % 3 == 0 { 9 } else { rng.below(9) as usize };
        let (shape, body): (&str, String) = if which == 9 {
            ("all", format!("{{ {} }}", roots.iter().enumerate().map(|(k, r)| format!("f{} = {}", k, r.1)).collect::<Vec<_>>().join(", ")))
        } else {
            (roots[which].0, roots[which].1.clone())
        };
        let src = format!("{}{}\n", defs, body);
        let name = format!("st{}", i);
        let v = match gv::catch(|| vm.run_expr::<OpaqueValue<RootedThread, Hole>>(&name, &src)) {
            Ok(Ok((v, _))) => v,
            Ok(Err(e)) => {
                out.count("struct:rejected-by-gluon");
                out.stats.insert("struct:rejected-sample".into(), json!({"src": src, "err": e.to_string()}));
                continue;
            }
            Err(pn) => {
                out.oracle_fail("panic:run-value-program", &format!("running a value program panicked: {}", pn), json!({"kind": "dag", "src": src}));
                continue;
            }
        };
        let bytes = match ser_value(v.get_variant()) {
            Ok(b) => b,
            Err(_) => {
                out.count("struct:ser-error");
                continue;
            }
        };
        let text = String::from_utf8_lossy(&bytes).into_owned();
        let root = match jscan(&bytes) {
            Some(r) => r,
            None => continue,
        };
        let intact = load_outcome(&vm2, &bytes);
        if !intact.starts_with("(ok") {
            // the intact text must load (cycles through records do not: not generated here)
            out.count(&format!("struct:intact-not-loaded:{}", shape));
            if out.stats.get("struct:intact-not-loaded-sample").is_none() {
                out.stats.insert("struct:intact-not-loaded-sample".into(), json!({"src": src, "de": intact}));
            }
            continue;
        }
        out.count(&format!("struct:program:{}", shape));
        let mut nodes = vec![];
        seq_nodes(&root, None, &mut nodes);
        let mut damaged: Vec<(&'static str, String, String)> = vec![];
        for (kind, arr, lead, count) in &nodes {
            let payload = arr.kids.len().saturating_sub(*lead);
            for k in 1..=payload {
                // delete the last k elements (and the comma before them)
                let first = &arr.kids[arr.kids.len() - k];
                let last = &arr.kids[arr.kids.len() - 1];
                let from = if arr.kids.len() - k == 0 { first.start } else { arr.kids[arr.kids.len() - k - 1].end };
                damaged.push((kind, format!("drop-last-{}", if k == payload && k > 1 { "all".to_string() } else { k.to_string() }), format!("{}{}", &text[..from], &text[last.end..])));
            }
            if let Some(c) = count {
                if let Some(v) = jnum(&bytes, c) {
                    damaged.push((kind, "count+1".into(), format!("{}{}{}", &text[..c.start], v + 1, &text[c.end..])));
                    if v > 0 {
                        damaged.push((kind, "count-1".into(), format!("{}{}{}", &text[..c.start], v - 1, &text[c.end..])));
                    }
                }
            }
        }
        for (kind, dmg, t) in damaged {
            if jscan(t.as_bytes()).is_none() || serde_json::from_str::<serde_json::Value>(&t).is_err() {
                out.count("struct:damage-not-wellformed");
                continue;
            }
            let r = load_outcome(&vm2, t.as_bytes());
            let redundant = kind == "closure" || kind == "record";
            // what was loaded, written again: identical to the damaged text = the loader took the short
            // element list as it stands; different = it made something up
            // (compared by the element counts of all sequence nodes in walk order: the Marked/Plain wrappers
            // depend on reference counts and may differ after a reload)
            let shape_of = |b: &[u8]| -> Option<Vec<(&'static str, usize)>> {
                let r = jscan(b)?;
                let mut ns = vec![];
                seq_nodes(&r, None, &mut ns);
                Some(ns.iter().map(|(k, a, lead, _)| (*k, a.kids.len().saturating_sub(*lead))).collect())
            };
            let as_written = r.starts_with("(ok")
                && matches!(gv::catch(|| de_value(&vm2, t.as_bytes()).ok().and_then(|v| ser_value(v.get_variant()).ok())),
                            Ok(Some(b)) if shape_of(&b).is_some() && shape_of(&b) == shape_of(t.as_bytes()));
            let outcome = if r.starts_with("(ok") {
                if as_written { "loaded-as-written" } else { "loaded-changed" }
            } else if r.starts_with("(panic") {
                "panic"
            } else {
                "err"
            };
            out.count(&format!("struct:{}:{}:{}", kind, dmg, outcome));
            out.class(format!("struct:{}:{}:{}:{}", shape, kind, dmg, outcome));
            if outcome == "panic" {
                out.oracle_fail(
                    &format!("panic:structural:{}:{}", kind, dmg),
                    &format!("deserialising a structurally truncated value panicked: {}", r),
                    json!({"kind": "dag", "src": src, "damage": dmg, "node": kind, "text": t}),
                );
                vm2 = mk_vm(false, false);
            } else if outcome == "loaded-changed" || (outcome == "loaded-as-written" && kind == "closure") {
                let _ = redundant;
                let what = if as_written {
                    "a value whose element list was cut short / whose count was changed loads (with made-up slots) instead of failing"
                } else {
                    "a value whose element list was cut short / whose count was changed loads as something else instead of failing"
                };
                out.oracle_fail(
                    &format!("loads-truncated:{}:{}", kind, dmg),
                    what,
                    json!({"kind": "dag", "src": src, "damage": dmg, "node": kind, "text": t, "loaded": r, "intact": intact}),
                );
            }
        }
    }
}

/// Hand-damaged instruction arrays: the real `Deserialize` of `Vec<Instruction>` (then `Serialize`) vs
/// the model's `decodeList` (then `encodeList`), exact.
fn stream_instrs(out: &mut Out, rng: &mut Rng, n: usize) {
    use gluon::vm::types::Instruction;
    let pool: Vec<String> = INSTR_POOL.with(|p| p.borrow().clone());
    if pool.is_empty() {
        out.count("instrs:empty-pool");
        return;
    }
    let real = |text: &str| -> String {
        match serde_json::from_str::<Vec<Instruction>>(text) {
            Ok(v) => format!("(ok {})", gv::quote(&serde_json::to_string(&v).unwrap())),
            Err(_) => "err".to_string(),
        }
    };
    const U32S: &[&str] = &["0", "1", "4294967295", "4294967296", "-1", "1.5", "\"3\"", "null", "true", "18446744073709551616", "[1]", "1e2"];
    const U8S: &[&str] = &["0", "255", "256", "-1", "2.0", "\"a\""];
    const I64S: &[&str] = &["9223372036854775807", "9223372036854775808", "-9223372036854775808", "-9223372036854775809", "0.5", "null", "12345678901234567890123"];
    const F64S: &[&str] = &["3", "-7", "0", "123456789012", "\"x\"", "null", "[]", "2.5", "-1.25e-9"];
    for _ in 0..n {
        let text = rng.pick(&pool).clone();
        let b = text.as_bytes();
        let root = match jscan(b) {
            Some(r) if r.kind == JK::Arr && !r.kids.is_empty() => r,
            _ => continue,
        };
        // prefer an element of the wanted shape
        let want = rng.below(4);
        let cands: Vec<&JNode> = root
            .kids
            .iter()
            .filter(|e| match want {
                0 => e.kind == JK::Str,
                1 | 2 => e.kind == JK::Obj && e.kids.len() == 1 && e.kids[0].kind == JK::Obj,
                _ => e.kind == JK::Obj && e.kids.len() == 1 && e.kids[0].kind == JK::Num,
            })
            .collect();
        let e: &JNode = if cands.is_empty() { &root.kids[rng.below(root.kids.len() as u64) as usize] } else { cands[rng.below(cands.len() as u64) as usize] };
        let el = &text[e.start..e.end];
        let (kind, new_el): (&str, String) = match e.kind {
            JK::Str => {
                let name = &el[1..el.len() - 1];
                match rng.below(6) {
                    0 => ("unit-as-null-object", format!("{{\"{}\":null}}", name)),
                    1 => ("unit-as-zero-object", format!("{{\"{}\":0}}", name)),
                    2 => ("unit-as-array-object", format!("{{\"{}\":[]}}", name)),
                    3 => ("unknown-variant", "\"Nop\"".to_string()),
                    4 => ("element-number", "7".to_string()),
                    _ => ("unit-two-members", format!("{{\"{}\":null,\"Return\":null}}", name)),
                }
            }
            JK::Obj if e.kids.len() == 1 => {
                let k = &e.kids[0];
                let name = k.key.as_ref().map(|x| x.2.clone()).unwrap_or_default();
                if k.kind == JK::Obj {
                    let members: Vec<(String, String)> =
                        k.kids.iter().map(|m| (m.key.as_ref().unwrap().2.clone(), text[m.start..m.end].to_string())).collect();
                    let obj = |ms: &[(String, String)]| {
                        format!("{{\"{}\":{{{}}}}}", name, ms.iter().map(|(a, v)| format!("\"{}\":{}", a, v)).collect::<Vec<_>>().join(","))
                    };
                    match rng.below(9) {
                        0 => {
                            let mut ms = members.clone();
                            ms.reverse();
                            ("members-reversed", obj(&ms))
                        }
                        1 => {
                            let mut ms = members.clone();
                            let at = rng.below(ms.len() as u64 + 1) as usize;
                            ms.insert(at, ("zz".into(), "[1,{\"a\":null},\"s\\\"q\"]".into()));
                            ("unknown-member", obj(&ms))
                        }
                        2 => {
                            let mut ms = members.clone();
                            let d = ms[rng.below(ms.len() as u64) as usize].clone();
                            ms.push(d);
                            ("duplicate-member", obj(&ms))
                        }
                        3 => {
                            let mut ms = members.clone();
                            ms.remove(rng.below(ms.len() as u64) as usize);
                            ("missing-member", obj(&ms))
                        }
                        4 => ("payload-array", format!("{{\"{}\":[{}]}}", name, members.iter().map(|m| m.1.clone()).collect::<Vec<_>>().join(","))),
                        5 => ("payload-array-long", format!("{{\"{}\":[{},0]}}", name, members.iter().map(|m| m.1.clone()).collect::<Vec<_>>().join(","))),
                        6 => ("payload-array-short", format!("{{\"{}\":[{}]}}", name, members.iter().skip(1).map(|m| m.1.clone()).collect::<Vec<_>>().join(","))),
                        7 => {
                            let mut ms = members.clone();
                            let at = rng.below(ms.len() as u64) as usize;
                            ms[at].1 = rng.pick(U32S).to_string();
                            ("member-value", obj(&ms))
                        }
                        _ => ("struct-as-string", format!("\"{}\"", name)),
                    }
                } else {
                    let vals: &[&str] = match name.as_str() {
                        "PushByte" => U8S,
                        "PushInt" => I64S,
                        "PushFloat" => F64S,
                        _ => U32S,
                    };
                    match rng.below(8) {
                        0 => ("newtype-as-string", format!("\"{}\"", name)),
                        1 => ("two-variants", format!("{{\"{}\":{},\"Pop\":1}}", name, &text[k.start..k.end])),
                        2 => ("empty-object", "{}".to_string()),
                        3 => ("unknown-variant", format!("{{\"Nop\":{}}}", &text[k.start..k.end])),
                        _ => ("operand-value", format!("{{\"{}\":{}}}", name, rng.pick(vals))),
                    }
                }
            }
            _ => continue,
        };
        let damaged = format!("{}{}{}", &text[..e.start], new_el, &text[e.end..]);
        let r = real(&damaged);
        out.case(&format!("instrs {}", gv::quote(&damaged)), &r);
        let outcome = if r == "err" { "err" } else { "ok" };
        out.count(&format!("instrs:{}:{}", kind, outcome));
        out.class(format!("instrs:{}:{}:{}", kind, &el.chars().filter(|c| c.is_ascii_alphabetic()).take(24).collect::<String>(), outcome));
    }
    // the intact arrays themselves
    for text in pool.iter().take(40) {
        out.case(&format!("instrs {}", gv::quote(text)), &real(text));
        out.count("instrs:intact");
    }
}

/// Paths whose damage the type-free part of the verifier specification (`operandsOkDeep`) must catch.
fn is_table_operand_path(path: &str) -> bool {
    ["instructions/Jump", "instructions/CJump", "instructions/PushString", "instructions/PushUpVar", "instructions/GetField",
     "instructions/TestPolyTag", "NewClosure/function_index", "MakeClosure/function_index", "NewClosure/upvars",
     "MakeClosure/upvars", "ConstructRecord/record", "NewRecord/record", "ConstructRecord/args", "NewRecord/args",
     "ConstructPolyVariant/tag"].contains(&path)
}

/// Is the JSON path an instruction operand / a function-header count that the interpreter trusts?
fn is_operand_path(path: &str) -> bool {
    const INSTR: &[&str] = &[
        "instructions", "PushInt", "PushByte", "PushString", "PushUpVar", "Push", "Call", "TailCall",
        "ConstructVariant", "ConstructPolyVariant", "NewVariant", "NewRecord", "CloseData",
        "ConstructRecord", "ConstructArray", "GetOffset", "GetField", "TestTag", "TestPolyTag", "Jump",
        "CJump", "Pop", "Slide", "MakeClosure", "NewClosure", "CloseClosure",
    ];
    let parts: Vec<&str> = path.split('/').collect();
    parts.iter().any(|p| INSTR.contains(p)) || matches!(parts.last(), Some(&"max_stack_size") | Some(&"args"))
}

fn judge_damaged(
    out: &mut Out,
    damaged: Vec<(String, Vec<u8>, serde_json::Value, &'static str, String, bool)>,
) {
    let cases: Vec<(String, Vec<u8>)> = damaged.iter().map(|d| (d.0.clone(), d.1.clone())).collect();
    // the chunks (same boundaries as ever) run in child processes side by side: wall-clock time on a
    // loaded machine; the order of the results is that of the cases
    let mut res = vec![];
    let per_chunk: Vec<Vec<LoadOutcome>> = std::thread::scope(|s| {
        let hs: Vec<_> = cases.chunks(1500).map(|chunk| s.spawn(move || run_batch(chunk))).collect();
        hs.into_iter().map(|h| h.join().expect("run_batch thread")).collect()
    });
    for r in per_chunk {
        res.extend(r);
    }
    for (d, r) in damaged.iter().zip(res) {
        let (_, _, replay, kind, path, must_err) = d;
        if let (Some(w), Some(df)) = (replay.get("wanted").and_then(|x| x.as_array()), replay.get("defined").and_then(|x| x.as_array())) {
            // correspondence with `Loader.resolveGlobals`: a missing global decides the outcome
            let w: Vec<String> = w.iter().filter_map(|x| x.as_str().map(|s| s.to_string())).collect();
            let df: Vec<String> = df.iter().filter_map(|x| x.as_str().map(|s| s.to_string())).collect();
            let pl = match &r {
                LoadOutcome::Ok(_) => "ok",
                LoadOutcome::Err(_) => "error",
                LoadOutcome::Panic(_) => "panic",
                LoadOutcome::Crash(_) => "crash",
            };
            out.case(&format!("globals {} {}", strs_sexp(&df), strs_sexp(&w)), pl);
            out.count(&format!("globals:{}", pl));
        }
        let died = match &r {
            LoadOutcome::Panic(_) => true,
            LoadOutcome::Crash(how) => how != "timeout", // a loop is not a range violation
            _ => false,
        };
        // (an in-range change — e.g. another function of the same shape — can still crash the
        // interpreter through a type confusion; no range check can see that)
        if *kind == "number" && is_table_operand_path(path) && died && replay["out_of_range"].as_bool() == Some(true) {
            // whatever crashes the interpreter through a table / target operand is rejected by the
            // verifier specification
            if let Some(fs) = module_fn_sexp(&d.1) {
                out.case(&format!("operands {}", fs), "reject");
                out.count("verify-spec:crashing-reject");
            }
        }
        match r {
            LoadOutcome::Err(e) => {
                out.count(&format!("B:{}:err:{}", kind, err_class(&e)));
                out.class(format!("B:{}:{}:err:{}", kind, path, err_class(&e)));
            }
            LoadOutcome::Ok(_) => {
                out.count(&format!("B:{}:ok", kind));
                if *must_err {
                    out.oracle_fail(
                        &format!("damaged-accepted:{}", kind),
                        &format!("bytecode that is truncated / names something undefined ({}) loads without error", kind),
                        replay.clone(),
                    );
                } else {
                    out.class(format!("B:{}:{}:ok", kind, path));
                }
            }
            LoadOutcome::Panic(m) => {
                out.count(&format!("B:{}:panic", kind));
                let operand = (*kind == "number" && is_operand_path(path)) || (*kind == "string" && path.ends_with("/strings"));
                if operand {
                    out.count(&format!("B:unvalidated-operand:panic:{}", path));
                }
                let ice = m.contains("Global is missing from environment");
                if ice {
                    out.count(&format!("B:undefined-global:panic:{}", kind));
                }
                out.oracle_fail(
                    &if ice {
                        // whatever damage made the bytecode name an undefined global
                        "undefined-global:panic".to_string()
                    } else if operand {
                        "unvalidated-operand:panic".to_string()
                    } else {
                        format!("panic:{}:{}", kind, if *kind == "truncate" || *kind == "missing-module" || *kind == "rename-global" { crash_class(&m) } else { path.clone() })
                    },
                    &format!("loading damaged bytecode ({} at {}) panics instead of returning an error: {}", kind, path, m),
                    replay.clone(),
                );
            }
            LoadOutcome::Crash(how) if how == "timeout" && !*must_err => {
                // e.g. a changed operand that turns the program into a loop: not a loader fault
                out.count(&format!("B:{}:timeout-not-judged", kind));
            }
            LoadOutcome::Crash(how) => {
                out.count(&format!("B:{}:crash", kind));
                let sig = how.split(' ').next().unwrap_or("").to_string();
                let operand = (*kind == "number" && is_operand_path(path)) || (*kind == "string" && path.ends_with("/strings"));
                if operand {
                    out.count(&format!("B:unvalidated-operand:{}:{}", sig, path));
                }
                out.oracle_fail(
                    &if operand {
                        // any death of the process (abort on a failed huge allocation, stack
                        // overflow, kill): one class, the signal is in `what` and in the stats
                        "unvalidated-operand:process-killed".to_string()
                    } else {
                        format!("crash:{}:{}:{}", kind, sig, if *kind == "truncate" || *kind == "missing-module" || *kind == "rename-global" { String::new() } else { path.clone() })
                    },
                    &format!("loading damaged bytecode ({} at {}) kills the process: {}", kind, path, how),
                    replay.clone(),
                );
            }
        }
    }
}

fn replay_case(out: &mut Out, case: &serde_json::Value) {
    let kind = case["kind"].as_str().unwrap_or("");
    if kind == "dag" {
        println!("replay of a value-graph case: re-running stream C from the recorded seed is the supported way; source:\n{}", case["src"].as_str().unwrap_or(""));
        return;
    }
    let p = Prog {
        src: case["src"].as_str().unwrap_or("").to_string(),
        feats: vec![],
        prelude: case["prelude"].as_bool().unwrap_or(false),
        helper: case["helper"].as_bool().unwrap_or(false),
        name: case["name"].as_str().unwrap_or("test").to_string(),
    };
    let vs = vms(p.prelude, p.helper);
    let mut rng = Rng::new(0, 0);
    let mut damaged = vec![];
    println!("source:\n{}", p.src);
    println!("source result: {:?}", run_source(&mk_vm(p.prelude, p.helper), "test", &p.src));
    check_program(out, &mut rng, &p, &vs, true, &mut damaged, 0, 0, false);
    damaged.clear();
    if let Some(dmg) = case["damage"].as_str() {
        let flags = format!("{}{}", if p.prelude { "p" } else { "-" }, if p.helper { "h" } else { "" });
        let bytes = compile_bc(&vs.a, "test", &p.src).unwrap_or_default();
        let (fl, text): (String, Vec<u8>) = match dmg {
            "truncate" => (flags, bytes[..case["at"].as_u64().unwrap_or(0) as usize].to_vec()),
            "vm-without-gvmod" => (if p.prelude { "p".into() } else { "-".into() }, bytes),
            _ => (flags, case["text"].as_str().unwrap_or("").as_bytes().to_vec()),
        };
        let must = matches!(dmg, "truncate" | "vm-without-gvmod" | "rename-global");
        let kind: &'static str = match dmg {
            "truncate" => "truncate",
            "vm-without-gvmod" => "missing-module",
            "rename-global" => "rename-global",
            "number" => "number",
            "string" => "string",
            "drop-field" => "drop-field",
            "rename-key" => "rename-key",
            _ => "retype",
        };
        damaged.push((fl, text, case.clone(), kind, case["path"].as_str().unwrap_or("").to_string(), must));
        let r = run_batch(&[(damaged[0].0.clone(), damaged[0].1.clone())]);
        println!("damaged load: {:?}", r);
        judge_damaged(out, damaged);
    }
    println!("oracle failures reproduced: {}", out.n_oracle_fail);
}

fn main() {
    let argv: Vec<String> = std::env::args().collect();
    if argv.len() >= 3 && argv[1] == "--child" {
        gv::quiet_panics();
        if argv[2] == "load" {
            child_load();
        }
        return;
    }
    gv::quiet_panics();
    let args = Args::parse();
    let mut out = Out::new(&args.out);
    if let Some(f) = &args.replay {
        let v: serde_json::Value = serde_json::from_str(&std::fs::read_to_string(f).unwrap()).unwrap();
        replay_case(&mut out, &v["case"]);
        out.finish();
        return;
    }
    if let Some(i) = args.extra.iter().position(|x| x == "--probe") {
        // `--probe FILE [p][h]`: show the bytecode text and both results for one source file
        let src = std::fs::read_to_string(&args.extra[i + 1]).unwrap();
        let fl = args.extra.get(i + 2).cloned().unwrap_or_default();
        let vm = mk_vm(fl.contains('p'), fl.contains('h'));
        println!("src: {:?}", run_source(&vm, "test", &src));
        match compile_bc(&vm, "test", &src) {
            Ok(b) => {
                println!("{}", String::from_utf8_lossy(&b));
                println!("bc: {:?}", run_bc(&vm, "test", &b));
                let vm2 = mk_vm(fl.contains('p'), false);
                println!("bc in a VM without the helper module: {:?}", run_bc(&vm2, "test", &b));
            }
            Err(e) => println!("compile error {}", e),
        }
        if let Ok((v, _)) = vm.run_expr::<OpaqueValue<RootedThread, Hole>>("d", &src) {
            println!("value: {:?}", ser_value(v.get_variant()).map(|b| String::from_utf8_lossy(&b).into_owned()));
            if let Ok(b) = ser_value(v.get_variant()) {
                if let Some(r) = jscan(&b) {
                    let mut ps = vec![];
                    if pattern(&b, &r, "?", &mut ps).is_some() {
                        let raw: Vec<Pat> = ps.into_iter().map(|x| x.0).collect();
                        let mut map = Default::default();
                        let nz = normalise(&raw, &mut map);
                        println!("normalised: {}", nz.iter().map(pat_sexp).collect::<Vec<_>>().join(" "));
                        let vm2 = mk_vm(fl.contains('p'), fl.contains('h'));
                        println!("de: {}", de_payload(&vm2, &b));
                    }
                }
            }
        }
        return;
    }
    let thorough = args.thorough();
    let t_start = std::time::Instant::now();
    let phase = |name: &str| eprintln!("[c12] {:>6} ms  {}", t_start.elapsed().as_millis(), name);
    // ---- stream A/B
    let mut rng = Rng::new(args.seed, 12);
    let mut damaged = vec![];
    let n_plain = if thorough { 1000 } else { 220 };
    let n_helper = if thorough { 200 } else { 50 };
    let n_prelude = if thorough { 40 } else { 8 };
    let (n_trunc, n_corrupt) = if thorough { (8, 12) } else { (6, 8) };
    // corpus: minimised past failures run first (file name suffix `_h` = helper module, `_p` = prelude)
    if let Ok(rd) = std::fs::read_dir("/verif/corpus/C12") {
        let mut files: Vec<_> = rd.filter_map(|e| e.ok()).map(|e| e.path()).filter(|p| p.extension().map_or(false, |x| x == "glu")).collect();
        files.sort();
        for f in files {
            let stem = f.file_stem().unwrap().to_string_lossy().into_owned();
            let (prelude, helper) = (stem.ends_with("_p"), stem.ends_with("_h"));
            let p = Prog { src: std::fs::read_to_string(&f).unwrap(), feats: vec!["corpus"], prelude, helper, name: "test".into() };
            let vs = vms(prelude, helper);
            check_program(&mut out, &mut rng, &p, &vs, true, &mut damaged, n_trunc, n_corrupt, true);
            out.count("A:corpus-programs");
        }
    }
    for (prelude, helper, n) in [(false, false, n_plain), (false, true, n_helper), (true, false, n_prelude)] {
        let mut vs = vms(prelude, helper);
        for i in 0..n {
            if vs.uses >= 100 {
                vs = vms(prelude, helper);
            }
            vs.uses += 1;
            let p = gen_program(&mut rng, prelude, helper);
            let before = out.n_oracle_fail;
            check_program(&mut out, &mut rng, &p, &vs, i % 10 == 0, &mut damaged, n_trunc, n_corrupt, i < 3);
            if out.n_oracle_fail != before {
                // a panic inside a VM poisons its locks: start from new VMs after any failure
                vs.uses = 1000;
            }
        }
    }
    phase("A: corpus + generated programs done");
    // names / strings that need escaping, in every string-carrying position of the module
    {
        let n_names = if thorough { 600 } else { 120 };
        let mut vs = vms(false, false);
        for i in 0..n_names {
            if vs.uses >= 100 {
                vs = vms(false, false);
            }
            vs.uses += 1;
            let p = gen_names(&mut rng);
            let before = out.n_oracle_fail;
            check_program(&mut out, &mut rng, &p, &vs, i % 10 == 0, &mut damaged, 2, 3, false);
            if out.n_oracle_fail != before {
                vs.uses = 1000;
            }
        }
    }
    phase("A': names done");
    // exhaustive truncation of one small program: every byte position
    {
        let vs = vms(false, false);
        let src = "let f x = { a = x, b = \"s\", c = 1.5 }\nf 1\n";
        if let Ok(bytes) = compile_bc(&vs.a, "test", src) {
            let step = if thorough { 1 } else { 3 };
            for cut in (0..bytes.len()).step_by(step) {
                damaged.push((
                    "-".into(),
                    bytes[..cut].to_vec(),
                    json!({"kind": "program", "src": src, "prelude": false, "helper": false, "damage": "truncate", "at": cut}),
                    "truncate",
                    "exhaustive".into(),
                    true,
                ));
            }
            out.stats.insert("B:exhaustive-truncation-bytes".into(), (bytes.len() as u64).into());
        }
    }
    out.add("B:damaged-cases", damaged.len() as u64);
    judge_damaged(&mut out, damaged);
    phase("B: damaged loads judged");
    // ---- stream C
    let mut rng_c = Rng::new(args.seed, 1212);
    stream_c(&mut out, &mut rng_c, if thorough { 4000 } else { 500 });
    let mut rng_y = Rng::new(args.seed, 121212);
    stream_cyc(&mut out, &mut rng_y, if thorough { 300 } else { 60 });
    let mut rng_t = Rng::new(args.seed, 12121212);
    stream_text(&mut out, &mut rng_t, if thorough { 5000 } else { 600 });
    let mut rng_s = Rng::new(args.seed, 121212121212);
    stream_struct(&mut out, &mut rng_s, if thorough { 400 } else { 60 });
    phase("structural truncation done");
    let mut rng_i = Rng::new(args.seed, 1212121212);
    phase("C / cyclic / text done");
    stream_instrs(&mut out, &mut rng_i, if thorough { 6000 } else { 900 });
    phase("instrs done");
    out.finish();
}
