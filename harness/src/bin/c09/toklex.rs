//! C09, part 1b — tokenizer correspondence.
//!
//! The REAL `/repo/parser/src/token.rs` (+ `str_suffix.rs`, compiled in the crate root) is
//! included here textually: the module is private in gluon_parser and hook H4
//! (`gluon_parser::verif_tokens`) exposes neither `Tokenizer::errors` nor the end locations.
//! What the file imports and the harness does not have is shimmed in `real`: `codespan`
//! (re-export of gluon_base's), `ordered_float::NotNan` (a plain wrapper), `quick_error!`.
//! Any edit of token.rs / str_suffix.rs is picked up by the next `cargo build`.
//!
//! Each text goes through the real `Tokenizer` (every `next()` up to the first `EOF`, then
//! `Tokenizer::errors`) and through the Lean model `GluonModel.Tokenizer.tokenize`; compared:
//! every token (kind, start and end location = line/column/byte, payload = byte offsets of the
//! `&str` slice / the value of char, int and byte literals), every fatal error, every recorded
//! error with its span, and where the stream ended.

use gv::rng::Rng;
use gv::Out;

pub mod real {
    #![allow(dead_code, unused_imports, unused_variables, unused_macros)]
    mod codespan {
        pub use gluon_base::pos::ByteOffset;
    }
    mod ordered_float {
        #[derive(Clone, Copy, Debug, PartialEq)]
        pub struct NotNan<T>(pub T);
        impl NotNan<f64> {
            pub fn new(v: f64) -> Result<Self, ()> {
                if v.is_nan() {
                    Err(())
                } else {
                    Ok(NotNan(v))
                }
            }
        }
        impl Eq for NotNan<f64> {}
        impl std::hash::Hash for NotNan<f64> {
            fn hash<H: std::hash::Hasher>(&self, state: &mut H) {
                self.0.to_bits().hash(state)
            }
        }
    }
    macro_rules! quick_error {
        ( $(#[$m:meta])* pub enum $name:ident {
            $( $v:ident $( ( $($f:ident : $t:ty),* ) )? { display($s:expr) } )*
        } ) => {
            $(#[$m])*
            pub enum $name { $( $v $( ( $($t),* ) )? ),* }
            impl std::fmt::Display for $name {
                fn fmt(&self, f: &mut std::fmt::Formatter) -> std::fmt::Result {
                    match self { $( $name::$v $( ( $($f),* ) )? => write!(f, $s) ),* }
                }
            }
        };
    }
    include!("/repo/parser/src/token.rs");
}

use real::{Error as TErr, StringLiteral, Token, Tokenizer};

fn loc(l: &gluon_base::pos::Location) -> String {
    // `absolute` is `start_index (= 1 for str) + offset`
    format!("{} {} {}", l.line.to_usize(), l.column.to_usize(), l.absolute.to_usize() as i64 - 1)
}

fn off(input: &str, s: &str) -> String {
    let a = s.as_ptr() as usize - input.as_ptr() as usize;
    format!("{} {}", a, a + s.len())
}

fn err_name(e: &TErr) -> String {
    match e {
        TErr::EmptyCharLiteral => "emptyCharLiteral".into(),
        TErr::UnexpectedChar(c) => format!("unexpectedChar:{}", *c as u32),
        TErr::UnexpectedEof => "unexpectedEof".into(),
        TErr::UnexpectedEscapeCode(c) => format!("unexpectedEscapeCode:{}", *c as u32),
        TErr::UnterminatedCharLiteral => "unterminatedCharLiteral".into(),
        TErr::UnterminatedStringLiteral => "unterminatedStringLiteral".into(),
        TErr::InvalidRawStringDelimiter => "invalidRawStringDelimiter".into(),
        TErr::NonParseableInt => "nonParseableInt".into(),
        TErr::HexLiteralOverflow => "hexLiteralOverflow".into(),
        TErr::HexLiteralUnderflow => "hexLiteralUnderflow".into(),
        TErr::HexLiteralWrongPrefix => "hexLiteralWrongPrefix".into(),
        TErr::HexLiteralIncomplete => "hexLiteralIncomplete".into(),
    }
}

fn tok_text(input: &str, t: &Token<&str>) -> String {
    use gluon_base::metadata::CommentType;
    match t {
        Token::ShebangLine(s) => format!("shebang {}", off(input, s)),
        Token::Identifier(s) => format!("ident {}", off(input, s)),
        Token::Operator(s) => format!("op {}", off(input, s)),
        Token::StringLiteral(StringLiteral::Escaped(s)) => format!("str 0 {}", off(input, s)),
        Token::StringLiteral(StringLiteral::Raw(s)) => format!("str 1 {}", off(input, s)),
        Token::CharLiteral(c) => format!("chr {}", *c as u32),
        Token::IntLiteral(i) => format!("int {}", i),
        Token::ByteLiteral(b) => format!("byte {}", b),
        Token::FloatLiteral(_) => "float".into(),
        Token::DocComment(c) => format!(
            "doc {} {}",
            match c.typ {
                CommentType::Block => 1,
                CommentType::Line => 0,
            },
            off(input, c.content)
        ),
        Token::Rec => "kw-rec".into(),
        Token::Else => "kw-else".into(),
        Token::Forall => "kw-forall".into(),
        Token::If => "kw-if".into(),
        Token::In => "kw-in".into(),
        Token::Let => "kw-let".into(),
        Token::Do => "kw-do".into(),
        Token::Seq => "kw-seq".into(),
        Token::Match => "kw-match".into(),
        Token::Then => "kw-then".into(),
        Token::Type => "kw-type".into(),
        Token::With => "kw-with".into(),
        Token::At => "at".into(),
        Token::Colon => "colon".into(),
        Token::Comma => "comma".into(),
        Token::Dot => "dot".into(),
        Token::DotDot => "dotdot".into(),
        Token::Equals => "equals".into(),
        Token::Lambda => "lambda".into(),
        Token::Pipe => "pipe".into(),
        Token::RArrow => "rarrow".into(),
        Token::Question => "question".into(),
        Token::LBrace => "lbrace".into(),
        Token::LBracket => "lbracket".into(),
        Token::LParen => "lparen".into(),
        Token::RBrace => "rbrace".into(),
        Token::RBracket => "rbracket".into(),
        Token::RParen => "rparen".into(),
        Token::OpenBlock => "openBlock".into(),
        Token::CloseBlock => "closeBlock".into(),
        Token::Semi => "semi".into(),
        Token::AttributeOpen => "attrOpen".into(),
        Token::EOF => "eof".into(),
    }
}

/// One span as the oracle sees it: (what, start byte, end byte).
pub struct RealRun {
    pub payload: String,
    pub spans: Vec<(String, i64, i64, bool)>, // (kind, start, end, is_token)
    pub panic: Option<String>,
    pub fuel: bool,
    pub n_items: usize,
    pub kinds: Vec<String>,
    pub errs: Vec<String>,
}

pub fn run_real(text: &str) -> RealRun {
    let mut items = String::new();
    let mut spans = vec![];
    let mut kinds = vec![];
    let mut errs_seen = vec![];
    let mut n_items = 0;
    let budget = text.len() + 1;
    let r = gv::catch(|| {
        let mut fin = "fuel".to_string();
        let mut tk = Tokenizer::new(text);
        for _ in 0..budget {
            match tk.next() {
                Some(Ok(t)) => {
                    if t.value == Token::EOF {
                        fin = format!("(eof {})", loc(&t.span.start()));
                        break;
                    }
                    let tt = tok_text(text, &t.value);
                    let kind = tt.split(' ').next().unwrap().to_string();
                    items.push_str(&format!(" ({} {} {})", loc(&t.span.start()), loc(&t.span.end()), tt));
                    spans.push((
                        kind.clone(),
                        t.span.start().absolute.to_usize() as i64 - 1,
                        t.span.end().absolute.to_usize() as i64 - 1,
                        true,
                    ));
                    kinds.push(kind);
                    n_items += 1;
                }
                Some(Err(e)) => {
                    let n = err_name(&e.value);
                    items.push_str(&format!(" (err {} {} {})", n, loc(&e.span.start()), loc(&e.span.end())));
                    spans.push((
                        format!("fatal:{}", n.split(':').next().unwrap()),
                        e.span.start().absolute.to_usize() as i64 - 1,
                        e.span.end().absolute.to_usize() as i64 - 1,
                        false,
                    ));
                    errs_seen.push(n.split(':').next().unwrap().to_string());
                    n_items += 1;
                }
                None => {
                    fin = "none".into();
                    break;
                }
            }
        }
        let mut errs = String::new();
        for e in tk.errors.iter() {
            let n = err_name(&e.value);
            errs.push_str(&format!(" ({} {} {})", n, loc(&e.span.start()), loc(&e.span.end())));
            spans.push((
                format!("err:{}", n.split(':').next().unwrap()),
                e.span.start().absolute.to_usize() as i64 - 1,
                e.span.end().absolute.to_usize() as i64 - 1,
                false,
            ));
            errs_seen.push(n.split(':').next().unwrap().to_string());
        }
        (fin, errs)
    });
    match r {
        Ok((fin, errs)) => RealRun {
            payload: format!("({} (items{}) (errs{}))", fin, items, errs),
            fuel: fin == "fuel",
            spans,
            panic: None,
            n_items,
            kinds,
            errs: errs_seen,
        },
        Err(p) => RealRun {
            payload: "panic".into(),
            spans,
            panic: Some(p),
            fuel: false,
            n_items,
            kinds,
            errs: errs_seen,
        },
    }
}

fn short(p: &str) -> String {
    let mut s: String = p
        .chars()
        .filter(|c| c.is_ascii_alphanumeric() || *c == ' ' || *c == '-')
        .collect::<String>()
        .split_whitespace()
        .take(6)
        .collect::<Vec<_>>()
        .join("_");
    s.truncate(48);
    s
}

fn hex(b: &[u8]) -> String {
    let mut s = String::with_capacity(b.len() * 2);
    for x in b {
        s.push_str(&format!("{:02x}", x));
    }
    s
}

fn fnv(s: &str) -> u64 {
    let mut h = 0xcbf29ce484222325u64;
    for b in s.bytes() {
        h ^= b as u64;
        h = h.wrapping_mul(0x100000001b3);
    }
    h
}

/// Correspondence case + property oracle (model independent) for one text.
pub fn tok_case(out: &mut Out, text: &str, origin: &str) {
    let req = format!("lex x{}", hex(text.as_bytes()));
    let r = run_real(text);
    let replay = serde_json::json!({"kind": "lex", "text": text, "origin": origin});
    if let Some(p) = &r.panic {
        out.oracle_fail(
            &format!("panic:tokenizer:{}", short(p)),
            &format!("Tokenizer::next panicked: {}", p),
            replay.clone(),
        );
    }
    if r.fuel {
        out.oracle_fail(
            "hang:tokenizer:no-eof-after-len+1-calls",
            "Tokenizer::next did not yield EOF within len+1 calls (each call must consume at least one byte)",
            replay.clone(),
        );
    }
    // spans lie in the text, on char boundaries, start <= end; tokens are ordered
    let mut prev_end = 0i64;
    for (k, s, e, is_tok) in &r.spans {
        let bad = if *s < 0 || *e < 0 || *e as usize > text.len() || *s as usize > text.len() {
            Some("outside-text")
        } else if s > e {
            Some("start>end")
        } else if !text.is_char_boundary(*s as usize) || !text.is_char_boundary(*e as usize) {
            Some("not-on-char-boundary")
        } else if *is_tok && *s < prev_end {
            Some("overlaps-previous-token")
        } else {
            None
        };
        if let Some(b) = bad {
            out.oracle_fail(
                &format!("span:tokenizer:{}:{}", k, b),
                &format!("tokenizer span {}..{} of `{}`: {}", s, e, k, b),
                replay.clone(),
            );
        }
        if *is_tok {
            prev_end = *e;
        }
    }
    out.count(&format!("lex:origin:{}", origin));
    out.count(if r.panic.is_some() {
        "lex:end:panic"
    } else if r.fuel {
        "lex:end:fuel"
    } else {
        "lex:end:eof"
    });
    for k in &r.kinds {
        out.count(&format!("lex:tok:{}", k));
    }
    for e in &r.errs {
        out.count(&format!("lex:err:{}", e));
    }
    if !text.is_ascii() {
        out.count("lex:non-ascii-text");
    }
    let distinct: std::collections::BTreeSet<&String> = r.kinds.iter().collect();
    if distinct.len() >= 2 || !r.errs.is_empty() {
        let shape: Vec<&str> = r.kinds.iter().take(20).map(|s| s.as_str()).collect();
        out.class(format!("T:{:x}:{}", fnv(&format!("{:?}{:?}", shape, r.errs)), r.errs.len()));
    }
    if out.n_cases % 499 == 7 {
        out.sample(serde_json::json!({"lex_text": text.chars().take(200).collect::<String>(), "impl": r.payload.chars().take(500).collect::<String>()}));
    }
    out.case(&req, &r.payload);
}

// ------------------------------------------------------------------------------------------
// Generators
// ------------------------------------------------------------------------------------------

const LEXEMES: &[&str] = &[
    // identifiers, keywords
    "foo", "x'", "_a1", "A", "Bc_d", "import!", "x!", "rec", "else", "forall", "if", "in", "let", "do", "seq", "match",
    "then", "type", "with", "r", "rx", "b", "x", "lets", "r2",
    // punctuation / operators
    ",", "\\", "{", "[", "(", "}", "]", ")", "?", "@", ".", "..", "...", ":", "::", "=", "==", "|", "||", "->", "-->", "-",
    "+", "<|>", ">>=", "#", "#foo", "#foo+", "#Foo+-bar", "##", "#!", "#[", "#[x]", "+?", "\\\\", "~", "$", "%", "^", "&", "*", "/", "<", ">", "!",
    // numbers
    "0", "42", "-7", "1.5", "-0.25", "3.", "-3.", "1..2", "1.5.2", "0x1F", "-0xff", "0x", "-0x", "1x2", "12x", "0xZ", "0x1G", "0xFFFFFFFFFFFFFFFFF",
    "0x7FFFFFFFFFFFFFFF", "0x8000000000000000", "-0x8000000000000000", "-0x8000000000000001", "0x0000000000000000001", "255b", "256b", "-1b", "0b",
    "1bx", "7T", "12abc", "1.5e3", "1.5x", "99999999999999999999", "9223372036854775807", "-9223372036854775808", "9223372036854775808",
    "-9223372036854775809", "007", "-0", "1_000", "-a", "- 1", "--1",
    // strings
    "\"abc\"", "\"\"", "\"a\\nb\\t\\r\\\\\\'\\\"\\/\"", "\"\\q\"", "\"\\é\"", "\"\\😀x\"", "\"é→😀\"", "\"unterminated", "\"\\", "\"a\\", "\"",
    "\"multi\nline\"", "\"\\\n\"",
    // raw strings
    "r\"abc\"", "r\"\"", "r#\"a\"b\"#", "r##\"x\"#y\"##", "r#\"\"#", "r#\"\"\"#", "r#\"a\"#b\"#", "r#abc", "r#\"unterminated", "r#\"unterminated\"", "r#", "r##",
    "r\"", "r\"é\"", "r#\"😀\"#", "r#é", "r##\"a\"#",
    // chars
    "'a'", "'\\n'", "'\\''", "'\\\\'", "''", "'é'", "'→'", "'😀'", "'ab", "'aé", "'a😀", "'é", "'éa'", "'\\é'", "'\\😀'", "'\\q'", "'", "'\\", "'a",
    "'\\n", "'\n'", "'''", "'\"'", "'\\\"'",
    // comments
    "// c\n", "//\n", "/// doc\n", "///doc\n", "///", "/// ", "///  two\n", "////x\n", "//! x\n", "/// é→\n", "/* c */", "/* c * d */", "/** doc */", "/**doc*/",
    "/**/", "/***/", "/****/", "/** */", "/**  */", "/** \u{2003}x\u{a0} */", "/**\u{3000}\u{2028}*/", "/** é */", "/**é*/", "/** x\u{85}*/", "/* unterminated", "/*", "/**", "/** doc",
    "/*/", "/* * /", "*/", "/ /", "/* é 😀 */", "/*\n*/",
    // stray scalars and whitespace
    "é", "λ", "→", "😀", "\u{85}", "\u{a0}", "\u{2028}", "\u{3000}", "\u{0}", "\u{7f}", "\u{80}", "\u{7ff}", "\u{800}", "\u{ffff}", "\u{10000}",
    "\u{10ffff}", "\u{d7ff}", "\u{e000}", "\u{feff}", "`", ";", "\u{1}",
    " ", "  ", "\t", "\n", "\r\n", "\u{b}", "\u{c}", "\n  ", "\n\n",
];

const HOT: &[char] = &[
    '"', '\'', '\\', '#', 'r', '/', '*', '!', '.', 'x', 'b', '-', '0', '9', 'a', 'F', 'é', '😀', '→', '\n', ' ', '[', '_', '\u{a0}', '\u{85}',
    '\u{0}', '?', 'n', 't', '=', '|', '>',
];

fn rand_scalar(rng: &mut Rng) -> char {
    loop {
        let c = match rng.below(10) {
            0 | 1 => 0x20 + rng.below(0x5f) as u32,
            2 => rng.below(0x80) as u32,
            3 => 0x80 + rng.below(0x780) as u32,
            4 | 5 => 0x800 + rng.below(0xF800) as u32,
            6 => 0x10000 + rng.below(0x100000) as u32,
            7 => *rng.pick(&[0x7f, 0x80, 0x7ff, 0x800, 0xffff, 0x10000, 0x10ffff, 0xd7ff, 0xe000, 0x85, 0xa0, 0x1680, 0x2000, 0x200a, 0x2028, 0x2029, 0x202f, 0x205f, 0x3000, 0xfffd]),
            _ => *rng.pick(HOT) as u32,
        };
        if let Some(c) = char::from_u32(c) {
            return c;
        }
    }
}

fn rand_lexeme(rng: &mut Rng) -> String {
    match rng.below(12) {
        0 => {
            let n = 1 + rng.below(6);
            (0..n).map(|i| if i == 0 { *rng.pick(&['a', 'Z', '_', 'r', 'b']) } else { *rng.pick(&['a', 'Z', '_', '0', '9', '\'']) }).collect()
        }
        1 => {
            let n = 1 + rng.below(22);
            let mut s: String = if rng.chance(1, 3) { "-".into() } else { String::new() };
            s.extend((0..n).map(|_| (b'0' + rng.below(10) as u8) as char));
            if rng.chance(1, 3) {
                s.push(*rng.pick(&['.', 'x', 'b', 'e', 'T', '_']));
                let m = rng.below(18);
                s.extend((0..m).map(|_| *rng.pick(&['0', '1', '9', 'a', 'F', 'f', 'g'])));
            }
            s
        }
        2 => {
            let n = 1 + rng.below(4);
            (0..n).map(|_| *rng.pick(&['!', '#', '$', '%', '&', '*', '+', '-', '.', '/', '<', '=', '>', '?', '@', '\\', '^', '|', '~', ':'])).collect()
        }
        3 => {
            // string literal with random content
            let n = rng.below(8);
            let mut s = String::from("\"");
            for _ in 0..n {
                match rng.below(6) {
                    0 => {
                        s.push('\\');
                        s.push(rand_scalar(rng));
                    }
                    1 => s.push(rand_scalar(rng)),
                    _ => s.push((b'a' + rng.below(26) as u8) as char),
                }
            }
            if rng.chance(4, 5) {
                s.push('"');
            }
            s
        }
        4 => {
            // raw string
            let d = rng.below(3) as usize;
            let mut s = format!("r{}\"", "#".repeat(d));
            for _ in 0..rng.below(8) {
                s.push(*rng.pick(&['a', '"', '#', 'é', ' ', '\n', '😀']));
            }
            if rng.chance(4, 5) {
                s.push('"');
                s.push_str(&"#".repeat(if rng.chance(1, 5) { rng.below(3) as usize } else { d }));
            }
            s
        }
        5 => {
            // char literal
            let mut s = String::from("'");
            if rng.chance(1, 4) {
                s.push('\\');
            }
            if rng.chance(9, 10) {
                s.push(rand_scalar(rng));
            }
            if rng.chance(1, 6) {
                s.push(rand_scalar(rng));
            }
            if rng.chance(3, 4) {
                s.push('\'');
            }
            s
        }
        6 => {
            // comment
            let mut s = String::from(*rng.pick(&["//", "///", "/// ", "/*", "/**", "/** "]));
            for _ in 0..rng.below(8) {
                s.push(*rng.pick(&['a', '*', '/', ' ', 'é', '\u{a0}', '\u{2003}', '\t', '😀']));
            }
            if s.starts_with("/*") {
                if rng.chance(4, 5) {
                    s.push_str("*/");
                }
            } else if rng.chance(4, 5) {
                s.push('\n');
            }
            s
        }
        _ => rng.pick(LEXEMES).to_string(),
    }
}

fn soup(rng: &mut Rng, n: usize) -> String {
    let mut s = String::new();
    if rng.chance(1, 12) {
        s.push_str(*rng.pick(&["#!/bin/gluon  \n", "#!", "#! x\u{a0}\u{2003}\n", "#!\n", "#!é \t", " #!x\n"]));
    }
    for _ in 0..n {
        s.push_str(&rand_lexeme(rng));
        match rng.below(10) {
            0 | 1 => {}
            2 => s.push('\n'),
            3 => s.push_str("\n    "),
            _ => s.push(' '),
        }
    }
    s
}

/// A text for the tokenizer correspondence and its origin label.
pub fn gen_lex_text(rng: &mut Rng) -> (String, &'static str) {
    let mode = rng.below(100);
    if mode < 55 {
        let n = if rng.chance(1, 10) { 1 + rng.below(80) } else { 1 + rng.below(12) } as usize;
        (soup(rng, n), "lexeme-soup")
    } else if mode < 80 {
        // malformed stream: scalar-level edits of a soup
        let n = 1 + rng.below(10) as usize;
        let mut cs: Vec<char> = soup(rng, n).chars().collect();
        let edits = 1 + rng.below(4);
        for _ in 0..edits {
            if cs.is_empty() {
                cs.push(*rng.pick(HOT));
                continue;
            }
            let i = rng.below(cs.len() as u64) as usize;
            match rng.below(4) {
                0 => {
                    cs.remove(i);
                }
                1 => cs.insert(i, *rng.pick(HOT)),
                2 => cs[i] = *rng.pick(HOT),
                _ => cs.truncate(i),
            }
        }
        (cs.into_iter().collect(), "malformed")
    } else {
        // full-range Unicode scalars
        let n = rng.below(60) as usize;
        ((0..n).map(|_| rand_scalar(rng)).collect(), "unicode")
    }
}
