//! C15 correspondence + oracle: edit histories over in-memory module graphs on one long-lived VM.
//!
//! Every history runs in a child process (watchdog: a hang is an outcome). Per evaluating step the
//! child reports (a) the implementation's canonical answer (outcome class / value and the module
//! bodies that ran, observed through a counting extern function) for the Lean model to reproduce,
//! and (b) model-independent property-oracle facts:
//!   * fresh:  the long-lived VM answers what a FRESH VM given only the latest sources answers,
//!   * once:   no module body ran twice while no source changed,
//!   * cycle:  a reachable import cycle is reported as a cyclic-dependency error (and only then),
//!             and the printed path is a closed chain of imports of the latest sources.
use gluon::query::CompilationBase;
use gluon::vm::api::{Hole, OpaqueValue, ValueRef};
use gluon::vm::ExternModule;
use gluon::{primitive, record, RootedThread, Thread, ThreadExt};
use gv::{Args, Out};
use serde_json::{json, Value};
use std::io::{BufRead, Write};
use std::sync::Mutex;
use std::time::Duration;

const NMOD: usize = 6;

// ---------------------------------------------------------------------------------------------
// counting extern: `tick i v` logs that the body of module i ran
static LOG: Mutex<Vec<usize>> = Mutex::new(Vec::new());

fn tick(i: i64, v: i64) -> i64 {
    LOG.lock().unwrap().push(i as usize);
    v
}
fn tick_s(i: i64, v: String) -> String {
    LOG.lock().unwrap().push(i as usize);
    v
}
fn load_tick(vm: &Thread) -> gluon::vm::Result<ExternModule> {
    ExternModule::new(
        vm,
        record! { tick => primitive!(2, tick), tick_s => primitive!(2, tick_s) },
    )
}
fn take_log() -> Vec<usize> {
    std::mem::take(&mut *LOG.lock().unwrap())
}

fn mk_vm() -> RootedThread {
    let vm = gv::vm::new_vm();
    vm.get_database_mut().set_implicit_prelude(false);
    gluon::import::add_extern_module(&vm, "tick", load_tick);
    vm
}

// ---------------------------------------------------------------------------------------------
// histories
#[derive(Clone, Debug, PartialEq)]
struct Src {
    int: bool,
    c: u32,
    deps: Vec<(usize, bool)>,
}

#[derive(Clone, Debug)]
enum Step {
    Set(usize, Src),
    Load(usize, Src),
    Get(usize),
}

impl Src {
    fn text(&self, i: usize) -> String {
        let mut s = String::from("let t = import! tick\n");
        for (k, (d, _)) in self.deps.iter().enumerate() {
            s.push_str(&format!("let d{} = import! m{}\n", k, d));
        }
        let used: Vec<String> = self
            .deps
            .iter()
            .enumerate()
            .filter(|(_, (_, u))| *u)
            .map(|(k, _)| format!(" #Int+ d{}", k))
            .collect();
        if self.int {
            s.push_str(&format!("t.tick {} {}{}", i, self.c, used.concat()));
        } else {
            if !used.is_empty() {
                s.push_str(&format!("let u = 0{}\n", used.concat()));
            }
            s.push_str(&format!("t.tick_s {} \"s{}\"", i, self.c));
        }
        s
    }
    fn sexp(&self, m: usize) -> String {
        let mut s = format!("{} {} {}", m, if self.int { "int" } else { "str" }, self.c);
        for (d, u) in &self.deps {
            s.push_str(&format!(" ({} {})", d, *u as u8));
        }
        s
    }
    fn json(&self) -> Value {
        json!({"int": self.int, "c": self.c, "deps": self.deps.iter().map(|(d,u)| json!([d, *u as u8])).collect::<Vec<_>>()})
    }
    fn from_json(v: &Value) -> Src {
        Src {
            int: v["int"].as_bool().unwrap(),
            c: v["c"].as_u64().unwrap() as u32,
            deps: v["deps"]
                .as_array()
                .unwrap()
                .iter()
                .map(|p| (p[0].as_u64().unwrap() as usize, p[1].as_u64().unwrap() != 0))
                .collect(),
        }
    }
}

fn hist_json(h: &[Step]) -> Value {
    Value::Array(
        h.iter()
            .map(|s| match s {
                Step::Set(m, s) => json!({"op": "set", "m": m, "src": s.json()}),
                Step::Load(m, s) => json!({"op": "load", "m": m, "src": s.json()}),
                Step::Get(m) => json!({"op": "get", "m": m}),
            })
            .collect(),
    )
}
fn hist_from_json(v: &Value) -> Vec<Step> {
    v.as_array()
        .unwrap()
        .iter()
        .map(|s| {
            let m = s["m"].as_u64().unwrap() as usize;
            match s["op"].as_str().unwrap() {
                "set" => Step::Set(m, Src::from_json(&s["src"])),
                "load" => Step::Load(m, Src::from_json(&s["src"])),
                _ => Step::Get(m),
            }
        })
        .collect()
}
fn hist_request(h: &[Step]) -> String {
    let mut s = String::from("hist");
    for st in h {
        match st {
            Step::Set(m, src) => s.push_str(&format!(" (set {})", src.sexp(*m))),
            Step::Load(m, src) => s.push_str(&format!(" (load {})", src.sexp(*m))),
            Step::Get(m) => s.push_str(&format!(" (get {})", m)),
        }
    }
    s
}

// ---------------------------------------------------------------------------------------------
// observing one evaluation
#[derive(Clone, Debug, PartialEq)]
struct Obs {
    /// "ok" | "err"
    ok: bool,
    /// value rendering for ok: "int 11" / "str 3" / "" (load_script has no value)
    val: String,
    cyc: bool,
    missing: bool,
    ty: bool,
    other: bool,
    /// (named module, path) of every cyclic-dependency message
    cycles: Vec<(String, Vec<String>)>,
    msg: String,
}

impl Obs {
    fn primary(&self) -> &'static str {
        if self.ok {
            "ok"
        } else if self.cyc {
            "cycle"
        } else if self.missing {
            "missing"
        } else if self.ty {
            "type"
        } else {
            "other"
        }
    }
    fn set(&self) -> String {
        format!(
            "{}{}{}{}",
            if self.cyc { "C" } else { "" },
            if self.missing { "M" } else { "" },
            if self.ty { "T" } else { "" },
            if self.other { "O" } else { "" }
        )
    }
}

fn classify(msg: &str) -> Obs {
    let mut o = Obs {
        ok: false,
        val: String::new(),
        cyc: false,
        missing: false,
        ty: false,
        other: false,
        cycles: vec![],
        msg: msg.chars().take(600).collect(),
    };
    for line in msg.lines() {
        if let Some(p) = line.find("occurs in a cyclic dependency: `") {
            o.cyc = true;
            let named = line[..p]
                .rsplit("Module '")
                .next()
                .unwrap_or("")
                .trim_end_matches(|c| c == '\'' || c == ' ')
                .to_string();
            let rest = &line[p + "occurs in a cyclic dependency: `".len()..];
            let path = rest.split('`').next().unwrap_or("");
            o.cycles.push((named, path.split(" -> ").map(|s| s.to_string()).collect()));
        }
        if line.contains("Could not find module") {
            o.missing = true;
        }
        if line.contains("Expected the following types to be equal") {
            o.ty = true;
        }
    }
    if !(o.cyc || o.missing || o.ty) {
        o.other = true;
    }
    o
}

fn eval_get(vm: &Thread, m: usize) -> Obs {
    let r = gv::catch(|| vm.run_expr::<OpaqueValue<&Thread, Hole>>("top", &format!("import! m{}", m)));
    match r {
        Err(p) => {
            let mut o = classify("");
            o.msg = format!("PANIC {}", p);
            o
        }
        Ok(Ok((v, _t))) => {
            let val = match v.get_ref() {
                ValueRef::Int(i) => format!("int {}", i),
                ValueRef::String(s) => format!("str {}", s.trim_start_matches('s')),
                _ => "other".to_string(),
            };
            let mut o = classify("");
            o.ok = true;
            o.other = false;
            o.val = val;
            o
        }
        Ok(Err(e)) => classify(&e.to_string()),
    }
}

fn eval_load(vm: &Thread, m: usize, text: &str) -> Obs {
    let r = gv::catch(|| vm.load_script(&format!("m{}", m), text));
    match r {
        Err(p) => {
            let mut o = classify("");
            o.msg = format!("PANIC {}", p);
            o
        }
        Ok(Ok(())) => {
            let mut o = classify("");
            o.ok = true;
            o.other = false;
            o
        }
        Ok(Err(e)) => classify(&e.to_string()),
    }
}

/// The distinct printed cycle paths of a message, canonical: `((1 0 1) (2 2))`, sorted; a name that
/// is not `m<k>` is printed raw (the model never produces it, so it shows up as a mismatch).
fn paths_sexp(o: &Obs) -> String {
    let mut ps: Vec<Vec<u64>> = vec![];
    let mut raw: Vec<String> = vec![];
    for (_named, path) in &o.cycles {
        let idx: Option<Vec<u64>> = path
            .iter()
            .map(|s| s.strip_prefix('m').and_then(|x| x.parse::<u64>().ok()))
            .collect();
        match idx {
            Some(p) => ps.push(p),
            None => raw.push(format!("raw:{}", path.join("->").replace(' ', "_"))),
        }
    }
    ps.sort();
    ps.dedup();
    raw.sort();
    raw.dedup();
    let mut items: Vec<String> = ps
        .iter()
        .map(|p| format!("({})", p.iter().map(|x| x.to_string()).collect::<Vec<_>>().join(" ")))
        .collect();
    items.extend(raw);
    format!("({})", items.join(" "))
}

/// Is a cycle reachable from `m` in the import graph of `srcs` (through modules that exist)?
fn reaches_cycle(srcs: &[Option<Src>], m: usize) -> bool {
    fn go(srcs: &[Option<Src>], m: usize, stack: &mut Vec<usize>, done: &mut Vec<bool>) -> bool {
        if stack.contains(&m) {
            return true;
        }
        if done[m] {
            return false;
        }
        if let Some(Some(s)) = srcs.get(m) {
            stack.push(m);
            for (d, _) in &s.deps {
                if *d < srcs.len() && go(srcs, *d, stack, done) {
                    return true;
                }
            }
            stack.pop();
        }
        done[m] = true;
        false
    }
    go(srcs, m, &mut vec![], &mut vec![false; srcs.len()])
}

fn is_import_chain(srcs: &[Option<Src>], path: &[String]) -> bool {
    if path.len() < 2 || path.first() != path.last() {
        return false;
    }
    let idx = |s: &String| s.strip_prefix('m').and_then(|x| x.parse::<usize>().ok());
    for w in path.windows(2) {
        match (idx(&w[0]), idx(&w[1])) {
            (Some(a), Some(b)) => match srcs.get(a) {
                Some(Some(s)) if s.deps.iter().any(|(d, _)| *d == b) => {}
                _ => return false,
            },
            _ => return false,
        }
    }
    true
}

/// Runs one history; returns the JSON report the parent turns into a case + oracle failures.
fn run_history(h: &[Step]) -> Value {
    let _ = take_log();
    let vm = mk_vm();
    let mut srcs: Vec<Option<Src>> = vec![None; NMOD];
    let mut answers: Vec<String> = vec![];
    let mut oracle: Vec<Value> = vec![];
    let mut ran_since_change = [0u32; NMOD];
    // for fingerprints only: what kind of source edits happened since the last *changed text*
    let mut new_since_change = false;
    let mut classes: Vec<String> = vec![];
    let mut set_diffs = 0u64;
    for (k, st) in h.iter().enumerate() {
        let (m, is_load) = match st {
            Step::Set(m, s) | Step::Load(m, s) => {
                let was = srcs[*m].clone();
                if was.as_ref() != Some(s) {
                    ran_since_change = [0; NMOD];
                    if was.is_none() {
                        new_since_change = true;
                    } else {
                        new_since_change = false;
                    }
                }
                srcs[*m] = Some(s.clone());
                match st {
                    Step::Set(..) => {
                        vm.get_database_mut().add_module(format!("m{}", m), &s.text(*m));
                        answers.push("-".into());
                        continue;
                    }
                    _ => (*m, true),
                }
            }
            Step::Get(m) => (*m, false),
        };
        let live = if is_load {
            eval_load(&vm, m, &srcs[m].as_ref().unwrap().text(m))
        } else {
            eval_get(&vm, m)
        };
        let ran = take_log();
        // -- the implementation's canonical answer
        let ran_s = format!(
            "({})",
            ran.iter().map(|x| x.to_string()).collect::<Vec<_>>().join(" ")
        );
        let ans = if live.ok {
            if is_load {
                format!("(ok {})", ran_s)
            } else {
                format!("(ok {} {})", live.val, ran_s)
            }
        } else {
            format!("(err {} {} {})", live.primary(), ran_s, paths_sexp(&live))
        };
        answers.push(ans);
        classes.push(format!("{}:{}", if is_load { "load" } else { "get" }, live.primary()));
        // -- oracle 1: fresh VM given only the latest sources
        let fresh_vm = mk_vm();
        for (i, s) in srcs.iter().enumerate() {
            if let Some(s) = s {
                if !(is_load && i == m) {
                    fresh_vm.get_database_mut().add_module(format!("m{}", i), &s.text(i));
                }
            }
        }
        let fresh = if is_load {
            eval_load(&fresh_vm, m, &srcs[m].as_ref().unwrap().text(m))
        } else {
            eval_get(&fresh_vm, m)
        };
        let _ = take_log();
        drop(fresh_vm);
        let ctx = json!({"step": k, "hist": hist_json(h)});
        if live.msg.starts_with("PANIC") {
            oracle.push(json!({"fp": "panic:module-evaluation", "what": live.msg, "ctx": ctx}));
        } else if live.primary() != fresh.primary() || live.val != fresh.val {
            let kind = if new_since_change { "new-module" } else { "changed-text" };
            oracle.push(json!({
                "fp": format!("stale:{}:live={}:fresh={}", kind, live.primary(), fresh.primary()),
                "what": format!("after step {} the long-lived VM answers `{} {}` for m{} but a fresh VM given the latest sources answers `{} {}`; live message: {}",
                    k, live.primary(), live.val, m, fresh.primary(), fresh.val, live.msg.lines().next().unwrap_or("")),
                "ctx": ctx}));
        } else if live.set() != fresh.set() {
            set_diffs += 1;
        }
        // -- oracle 2: at most one evaluation of a body while no source changed
        for x in &ran {
            if *x < NMOD {
                ran_since_change[*x] += 1;
                if ran_since_change[*x] == 2 {
                    oracle.push(json!({
                        "fp": "evaluated-twice:no-source-change",
                        "what": format!("body of m{} ran twice although no module source changed in between (step {})", x, k),
                        "ctx": ctx}));
                }
            }
        }
        // -- oracle 3: cycles are reported, name a real cycle
        let cyc = reaches_cycle(&srcs, m);
        if cyc && !live.cyc && live.primary() == fresh.primary() {
            oracle.push(json!({
                "fp": format!("cycle-not-reported:live={}", live.primary()),
                "what": format!("an import cycle is reachable from m{} but the answer is `{}`", m, live.primary()),
                "ctx": ctx}));
        }
        if !cyc && live.cyc && fresh.primary() == live.primary() {
            oracle.push(json!({
                "fp": "cycle-reported-without-cycle",
                "what": format!("m{} reaches no import cycle but a cyclic dependency is reported", m),
                "ctx": ctx}));
        }
        if cyc && live.cyc {
            for (named, path) in &live.cycles {
                if !is_import_chain(&srcs, path) || path.last() != Some(named) {
                    let fresh_ok = fresh.cycles.iter().all(|(n, p)| is_import_chain(&srcs, p) && p.last() == Some(n));
                    oracle.push(json!({
                        "fp": format!("cycle-path-not-an-import-chain:fresh-vm-{}", if fresh_ok { "names-it" } else { "also-wrong" }),
                        "what": format!("the reported cycle `{}` (module '{}') is not a closed chain of imports of the latest sources; a fresh VM reports `{}`",
                            path.join(" -> "), named,
                            fresh.cycles.first().map(|c| c.1.join(" -> ")).unwrap_or_default()),
                        "ctx": ctx}));
                    break;
                }
            }
        }
    }
    json!({
        "answers": format!("({})", answers.join(" ")),
        "oracle": oracle,
        "classes": classes,
        "set_diffs": set_diffs,
    })
}

// ---------------------------------------------------------------------------------------------
// generator
fn gen_src(rng: &mut gv::rng::Rng, m: usize, nmods: usize, cur: &[Option<Src>]) -> Src {
    let nd = *rng.pick(&[0usize, 0, 1, 1, 1, 2, 2, 3]);
    let existing: Vec<usize> = (0..nmods).filter(|x| cur[*x].is_some() && *x != m).collect();
    let mut deps = vec![];
    for _ in 0..nd {
        // mostly existing modules (lower ids preferred, so many graphs are acyclic); sometimes the
        // module itself (self cycle) or any id (possibly not yet defined: missing module)
        let lower: Vec<usize> = existing.iter().cloned().filter(|x| *x < m).collect();
        let d = if rng.chance(1, 14) {
            m
        } else if !lower.is_empty() && rng.chance(1, 2) {
            *rng.pick(&lower)
        } else if !existing.is_empty() && rng.chance(3, 4) {
            *rng.pick(&existing)
        } else {
            rng.below(nmods as u64) as usize
        };
        deps.push((d, !rng.chance(1, 5)));
    }
    Src { int: !rng.chance(1, 4), c: rng.below(10) as u32, deps }
}

fn gen_history(rng: &mut gv::rng::Rng) -> Vec<Step> {
    let nmods = rng.range(2, NMOD as i64) as usize;
    let mut cur: Vec<Option<Src>> = vec![None; NMOD];
    let mut h = vec![];
    // the initial module graph (each module present with probability 3/4), registered without
    // evaluation; then 3..8 edit / evaluation steps
    for m in 0..nmods {
        if rng.chance(3, 4) {
            let s = gen_src(rng, m, nmods, &cur);
            cur[m] = Some(s.clone());
            h.push(Step::Set(m, s));
        }
    }
    let nsteps = h.len() + rng.range(3, 8) as usize;
    while h.len() < nsteps {
        let m = rng.below(nmods as u64) as usize;
        if rng.chance(2, 5) {
            h.push(Step::Get(m));
            continue;
        }
        let s = match cur[m].clone() {
            None => gen_src(rng, m, nmods, &cur),
            Some(mut s) => {
                match rng.below(8) {
                    0 => s.c = (s.c + 1 + rng.below(8) as u32) % 10, // change value
                    1 => s.int = !s.int,                              // change type
                    2 | 3 => {
                        // add an import edge; prefer one that closes a cycle
                        let back: Vec<usize> = (0..nmods)
                            .filter(|x| cur[*x].as_ref().map_or(false, |o| o.deps.iter().any(|(d, _)| *d == m)))
                            .collect();
                        let d = if !back.is_empty() && rng.chance(1, 2) {
                            *rng.pick(&back)
                        } else {
                            rng.below(nmods as u64) as usize
                        };
                        if s.deps.len() < 3 {
                            s.deps.push((d, !rng.chance(1, 5)));
                        } else {
                            s.deps[0] = (d, true);
                        }
                    }
                    4 => {
                        if !s.deps.is_empty() {
                            let i = rng.below(s.deps.len() as u64) as usize;
                            s.deps.remove(i); // remove an import edge
                        } else {
                            s.c = (s.c + 1) % 10;
                        }
                    }
                    5 => {} // same text again
                    6 => {
                        if let Some(d) = s.deps.first_mut() {
                            d.1 = !d.1; // use / do not use the import as an Int
                        } else {
                            s.int = !s.int;
                        }
                    }
                    _ => s = gen_src(rng, m, nmods, &cur),
                }
                s
            }
        };
        cur[m] = Some(s.clone());
        if rng.chance(1, 2) {
            h.push(Step::Load(m, s));
        } else {
            h.push(Step::Set(m, s));
        }
    }
    h
}

/// Hand-written shapes that must always be reached (also the minimised past findings).
fn corpus() -> Vec<Vec<Step>> {
    let i = |c: u32, deps: &[(usize, bool)]| Src { int: true, c, deps: deps.to_vec() };
    let s = |c: u32| Src { int: false, c, deps: vec![] };
    vec![
        // importer first, missing module added later (new module after an evaluation)
        vec![Step::Load(1, i(10, &[(0, true)])), Step::Load(0, i(1, &[])), Step::Get(1)],
        vec![Step::Set(1, i(10, &[(0, true)])), Step::Get(1), Step::Set(0, i(1, &[])), Step::Get(0), Step::Get(1)],
        // … the late module brings a type error / closes a cycle
        vec![Step::Set(1, i(10, &[(0, true)])), Step::Get(1), Step::Set(0, s(1)), Step::Get(1)],
        vec![Step::Set(1, i(10, &[(0, true)])), Step::Get(1), Step::Set(0, i(1, &[(1, true)])), Step::Get(1)],
        // value change, type change, type error introduced in a dependency
        vec![Step::Set(0, i(1, &[])), Step::Set(1, i(10, &[(0, true)])), Step::Get(1), Step::Set(0, i(2, &[])), Step::Get(1), Step::Set(0, s(3)), Step::Get(1), Step::Get(0)],
        // a reload introduces the cycle m1 -> m0 -> m1, then removes it
        vec![Step::Set(0, i(1, &[])), Step::Set(1, i(10, &[(0, true)])), Step::Get(1), Step::Set(0, i(3, &[(1, true)])), Step::Get(1), Step::Get(0), Step::Set(0, i(4, &[])), Step::Get(1)],
        // fresh cycles: 2, 3 entered from outside, self
        vec![Step::Set(0, i(3, &[(1, true)])), Step::Set(1, i(10, &[(0, true)])), Step::Get(1), Step::Get(0)],
        vec![Step::Set(0, i(3, &[(1, true)])), Step::Set(1, i(1, &[(2, true)])), Step::Set(2, i(1, &[(0, true)])), Step::Set(3, i(1, &[(0, true)])), Step::Get(3), Step::Get(1)],
        vec![Step::Set(4, i(3, &[(4, true)])), Step::Get(4)],
        // diamond: shared dependency evaluated once
        vec![Step::Set(0, i(1, &[])), Step::Set(1, i(1, &[(0, true)])), Step::Set(2, i(1, &[(0, true)])), Step::Set(3, i(1, &[(1, true), (2, true), (0, true)])), Step::Get(3), Step::Get(3), Step::Set(5, i(1, &[])), Step::Get(3)],
        // unrelated module changed: everything is re-run once, not twice
        vec![Step::Set(0, i(1, &[])), Step::Set(1, i(1, &[(0, true)])), Step::Set(2, i(7, &[])), Step::Get(1), Step::Get(2), Step::Set(2, i(8, &[])), Step::Get(1), Step::Get(1), Step::Get(2)],
    ]
}

// ---------------------------------------------------------------------------------------------
fn child_main() {
    gv::quiet_panics();
    let stdin = std::io::stdin();
    let stdout = std::io::stdout();
    for line in stdin.lock().lines() {
        let line = line.unwrap();
        if line.trim().is_empty() {
            continue;
        }
        let v: Value = serde_json::from_str(&line).unwrap();
        let h = hist_from_json(&v);
        let r = run_history(&h);
        let mut o = stdout.lock();
        writeln!(o, "{}", r).unwrap();
        o.flush().unwrap();
    }
}

fn emit(out: &mut Out, h: &[Step], r: &Value) {
    let req = hist_request(h);
    out.case(&req, r["answers"].as_str().unwrap());
    for o in r["oracle"].as_array().unwrap() {
        out.oracle_fail(o["fp"].as_str().unwrap(), o["what"].as_str().unwrap(), o["ctx"].clone());
        out.count(&format!("oracle:{}", o["fp"].as_str().unwrap()));
    }
    let cls: Vec<String> = r["classes"].as_array().unwrap().iter().map(|c| c.as_str().unwrap().to_string()).collect();
    for c in &cls {
        out.count(&format!("eval:{}", c));
    }
    out.add("secondary-class-set-differs-live-vs-fresh(not-demanded)", r["set_diffs"].as_u64().unwrap_or(0));
    for st in h {
        out.count(match st {
            Step::Set(..) => "step:set",
            Step::Load(..) => "step:load",
            Step::Get(..) => "step:get",
        });
    }
    if cls.len() >= 2 {
        let shape: Vec<String> = h
            .iter()
            .map(|s| match s {
                Step::Set(m, s) => format!("S{}{}{:?}", m, if s.int { 'i' } else { 's' }, s.deps.iter().map(|d| d.0).collect::<Vec<_>>()),
                Step::Load(m, s) => format!("L{}{}{:?}", m, if s.int { 'i' } else { 's' }, s.deps.iter().map(|d| d.0).collect::<Vec<_>>()),
                Step::Get(m) => format!("G{}", m),
            })
            .collect();
        out.class(format!("{}=>{}", shape.join(","), cls.join(",")));
    }
    if out.n_cases % 97 == 3 {
        out.sample(json!({"request": req, "impl": r["answers"]}));
    }
}

fn run_batch(out: &mut Out, hs: &[Vec<Step>]) {
    let mut start = 0;
    while start < hs.len() {
        let end = (start + 40).min(hs.len());
        let input: String = hs[start..end].iter().map(|h| format!("{}\n", hist_json(h))).collect();
        let ex = gv::child::run(&["--child"], input.as_bytes(), Duration::from_secs(120));
        let (stdout, class) = match &ex {
            gv::child::Exit::Ok(o) => (o.clone(), "ok".to_string()),
            gv::child::Exit::Code(_, o, _) | gv::child::Exit::Signal(_, o, _) => (o.clone(), ex.class()),
            gv::child::Exit::Timeout(o) => (o.clone(), "timeout".to_string()),
        };
        let lines: Vec<&str> = stdout.lines().filter(|l| !l.trim().is_empty()).collect();
        let mut done = 0;
        for (k, l) in lines.iter().enumerate() {
            if start + k >= end {
                break;
            }
            match serde_json::from_str::<Value>(l) {
                Ok(r) => {
                    emit(out, &hs[start + k], &r);
                    done += 1;
                }
                Err(_) => break,
            }
        }
        if start + done < end {
            // the history after the last completed one killed / hung the child
            let h = &hs[start + done];
            let fp = if class == "timeout" { "hang:history".to_string() } else { format!("abort:{}", class) };
            out.oracle_fail(
                &fp,
                &format!("the child process running this history ended with `{}` (watchdog 120 s per batch)", class),
                json!({"step": null, "hist": hist_json(h)}),
            );
            out.case(&hist_request(h), &class);
            done += 1;
        }
        start += done;
    }
}

fn main() {
    if std::env::args().any(|a| a == "--child") {
        child_main();
        return;
    }
    gv::quiet_panics();
    let args = Args::parse();
    if let Some(p) = &args.replay {
        let v: Value = serde_json::from_str(&std::fs::read_to_string(p).unwrap()).unwrap();
        let h = hist_from_json(&v["case"]["hist"]);
        println!("request: {}", hist_request(&h));
        for (i, s) in h.iter().enumerate() {
            if let Step::Set(m, s) | Step::Load(m, s) = s {
                println!("-- step {} source of m{}:\n{}", i, m, s.text(*m));
            }
        }
        let r = run_history(&h);
        println!("{}", serde_json::to_string_pretty(&r).unwrap());
        let mut out = Out::new(&args.out);
        emit(&mut out, &h, &r);
        out.finish();
        return;
    }
    let mut out = Out::new(&args.out);
    let mut rng = gv::rng::Rng::new(args.seed, 15);
    let mut hs = corpus();
    let n = if args.thorough() { 60000 } else { 5000 };
    for _ in 0..n {
        hs.push(gen_history(&mut rng));
    }
    run_batch(&mut out, &hs);
    out.finish();
}
