//! Ad-hoc probe: `probe fmt <file>` formats the file's text; `probe run <file>` evaluates it.
use gluon::ThreadExt;
use gluon::vm::thread::ThreadInternal;
fn main() {
    let a: Vec<String> = std::env::args().collect();
    let src = std::fs::read_to_string(&a[2]).unwrap();
    let vm = gv::vm::new_vm();
    match a[1].as_str() {
        "fmt" => {
            let r = gv::catch(|| vm.format_expr(&mut gluon_format::Formatter::default(), "probe", &src));
            match r {
                Ok(Ok(s)) => println!("OK\n{}", s),
                Ok(Err(e)) => println!("ERR {}", e),
                Err(p) => println!("PANIC {}", p),
            }
        }
        "run" => {
            let noprelude = a.get(3).map(|s| s == "noprelude").unwrap_or(false);
            if noprelude { vm.get_database_mut().set_implicit_prelude(false); }
            if std::env::var("NOOPT").is_ok() { vm.get_database_mut().set_optimize(false); }
            let r = vm.run_expr::<gv::vm::AnyValue>("probe", &src);
            match r {
                Ok((v, t)) => println!("OK {:?} : {}", v, t),
                Err(e) => println!("ERR {}", e),
            }
        }
        "d5" => {
            // failing deep recursions on one VM: stack values / memory must not accumulate
            vm.get_database_mut().set_implicit_prelude(false);
            let fail = "rec let f n = if n #Int== 0 then (1 #Int/ 0) else 1 #Int+ f (n #Int- 1) in f 3000";
            let ok = "rec let g n = if n #Int== 0 then 0 else 1 #Int+ g (n #Int- 1) in g 100";
            for i in 0..5 {
                let r = vm.run_expr::<gv::vm::AnyValue>(&format!("f{}", i), fail);
                vm.collect();
                let ctx_len = 0;
                println!("run {}: {} stack_len={} mem={}", i, if r.is_ok() { "ok" } else { "err" }, ctx_len, vm.allocated_memory());
            }
            let r = vm.run_expr::<i64>("ok", ok);
            println!("after: {:?}", r.map(|x| x.0).map_err(|e| e.to_string()));
        }
        _ => {}
    }
}
