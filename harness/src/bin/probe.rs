//! Ad-hoc probe: `probe fmt <file>` formats the file's text; `probe run <file>` evaluates it.
use gluon::ThreadExt;
fn main() {
    let a: Vec<String> = std::env::args().collect();
    let src = std::fs::read_to_string(&a[2]).unwrap();
    let vm = gv::vm::new_vm();
    match a[1].as_str() {
        "fmt" => {
            let r = gv::catch(|| vm.format_expr(&mut gluon_format::Formatter::default(), "probe", &src));
            match r {
                Ok(Ok(s)) => println!("OK\n{}", s),
                Ok(Err(e)) => println!("ERR {}", e),
                Err(p) => println!("PANIC {}", p),
            }
        }
        "run" => {
            let noprelude = a.get(3).map(|s| s == "noprelude").unwrap_or(false);
            if noprelude { vm.get_database_mut().set_implicit_prelude(false); }
            if std::env::var("NOOPT").is_ok() { vm.get_database_mut().set_optimize(false); }
            let r = vm.run_expr::<gv::vm::AnyValue>("probe", &src);
            match r {
                Ok((v, t)) => println!("OK {:?} : {}", v, t),
                Err(e) => println!("ERR {}", e),
            }
        }
        _ => {}
    }
}
