//! C18 correspondence + oracle: printed types read back as the same type.
//!
//! Generated types (own `Ty` AST) are built as real `ArcType<String>`s, rendered with the real
//! `Display` / `TypeFormatter::width(w)` / `pretty(..).nest(4)` (vm/src/api/typ.rs make_source),
//! tokenised, and parsed back with the real LALRPOP parser inside `let _ : <type> = ()` or
//! `type T = <type>`.
//!
//! * correspondence: token stream of the real rendering vs the Lean model's `print`; result of the
//!   real parser on that rendering vs the Lean model's `parse` on the model's tokens;
//! * oracle (no model involved): real print -> real parse == original (after normalising nested
//!   applications / rows), at every sampled width and for the make_source rendering.
use gluon_base::ast::{DisplayEnv, Expr, IdentEnv, KindedIdent, ValueBindings};
use gluon_base::kind::Kind;
use gluon_base::mk_ast_arena;
use gluon_base::types::pretty_print::TypeFormatter;
use gluon_base::types::{
    Alias, ArcType, ArgType, BuiltinType, Field, Generic, Type, TypeCache, TypePtr,
};
use gv::{quote, Args, Out};
use std::marker::PhantomData;

// ------------------------------------------------------------------------------------------
// The harness' own type AST (mirrors GluonModel.TypePrint.Ty)

#[derive(Clone, Debug, PartialEq)]
enum Ctor {
    Simple(Vec<Ty>),
    Gadt(Ty),
}

#[derive(Clone, Debug, PartialEq)]
enum Ty {
    Hole,
    /// builtin (`Int`, `Array` …) or upper-case identifier
    Con(String),
    /// lower-case generic
    Var(String),
    /// the bare function constructor `(->)`
    Arrow,
    Proj(Vec<String>),
    /// implicit?, argument, result
    Fun(bool, Box<Ty>, Box<Ty>),
    Forall(Vec<String>, Box<Ty>),
    /// binary application (the real `App(f, [a, b])` is `App(App(f, a), b)`)
    App(Box<Ty>, Box<Ty>),
    /// type fields, value fields, row tail, `cut` = number of value fields in the first
    /// `ExtendRow` node (== number of fields unless the row is a chain of two nodes)
    Record(Vec<(String, Vec<String>, Ty)>, Vec<(String, Ty)>, Option<Box<Ty>>, usize),
    Variant(Vec<(String, Ctor)>, Option<Box<Ty>>),
    Effect(Vec<(String, Ty)>, Option<Box<Ty>>),
}

fn strs(v: &[String]) -> String {
    v.iter().map(|s| quote(s)).collect::<Vec<_>>().join(" ")
}

fn rest_sexp(r: &Option<Box<Ty>>) -> String {
    match r {
        None => "(none)".into(),
        Some(t) => format!("(some {})", sexp(t)),
    }
}

fn sexp(t: &Ty) -> String {
    match t {
        Ty::Hole => "(hole)".into(),
        Ty::Con(n) => format!("(con {})", quote(n)),
        Ty::Var(n) => format!("(var {})", quote(n)),
        Ty::Arrow => "(arrow)".into(),
        Ty::Proj(ids) => format!("(proj {})", strs(ids)),
        Ty::Fun(i, a, r) => format!("(fun {} {} {})", if *i { "I" } else { "E" }, sexp(a), sexp(r)),
        Ty::Forall(vs, b) => format!("(forall ({}) {})", strs(vs), sexp(b)),
        Ty::App(f, a) => format!("(app {} {})", sexp(f), sexp(a)),
        Ty::Record(ts, fs, r, cut) => format!(
            "(record ({}) ({}) {} {})",
            ts.iter()
                .map(|(n, ps, t)| format!("(tf {} ({}) {})", quote(n), strs(ps), sexp(t)))
                .collect::<Vec<_>>()
                .join(" "),
            fields_sexp(fs),
            rest_sexp(r),
            cut
        ),
        Ty::Variant(cs, r) => format!(
            "(variant ({}) {})",
            cs.iter()
                .map(|(n, c)| match c {
                    Ctor::Simple(args) => format!(
                        "(simple {} ({}))",
                        quote(n),
                        args.iter().map(sexp).collect::<Vec<_>>().join(" ")
                    ),
                    Ctor::Gadt(t) => format!("(gadt {} {})", quote(n), sexp(t)),
                })
                .collect::<Vec<_>>()
                .join(" "),
            rest_sexp(r)
        ),
        Ty::Effect(fs, r) => format!("(effect ({}) {})", fields_sexp(fs), rest_sexp(r)),
    }
}

fn fields_sexp(fs: &[(String, Ty)]) -> String {
    fs.iter()
        .map(|(n, t)| format!("(f {} {})", quote(n), sexp(t)))
        .collect::<Vec<_>>()
        .join(" ")
}

// --- reading the S-expression back (replay) ------------------------------------------------

#[derive(Debug, Clone)]
enum Sx {
    A(String),
    S(String),
    L(Vec<Sx>),
}

fn sx_parse(cs: &[char], i: &mut usize) -> Option<Sx> {
    while *i < cs.len() && cs[*i].is_whitespace() {
        *i += 1;
    }
    if *i >= cs.len() {
        return None;
    }
    match cs[*i] {
        '(' => {
            *i += 1;
            let mut v = vec![];
            loop {
                while *i < cs.len() && cs[*i].is_whitespace() {
                    *i += 1;
                }
                if *i >= cs.len() {
                    return None;
                }
                if cs[*i] == ')' {
                    *i += 1;
                    return Some(Sx::L(v));
                }
                v.push(sx_parse(cs, i)?);
            }
        }
        '"' => {
            *i += 1;
            let mut s = String::new();
            while *i < cs.len() && cs[*i] != '"' {
                if cs[*i] == '\\' {
                    *i += 1;
                }
                s.push(cs[*i]);
                *i += 1;
            }
            *i += 1;
            Some(Sx::S(s))
        }
        _ => {
            let mut s = String::new();
            while *i < cs.len() && !cs[*i].is_whitespace() && cs[*i] != '(' && cs[*i] != ')' {
                s.push(cs[*i]);
                *i += 1;
            }
            Some(Sx::A(s))
        }
    }
}

fn sx_strs(x: &Sx) -> Option<Vec<String>> {
    match x {
        Sx::L(v) => v
            .iter()
            .map(|s| match s {
                Sx::S(s) => Some(s.clone()),
                _ => None,
            })
            .collect(),
        _ => None,
    }
}

fn sx_rest(x: &Sx) -> Option<Option<Box<Ty>>> {
    match x {
        Sx::L(v) => match (v.get(0), v.get(1)) {
            (Some(Sx::A(a)), None) if a == "none" => Some(None),
            (Some(Sx::A(a)), Some(t)) if a == "some" => Some(Some(Box::new(sx_ty(t)?))),
            _ => None,
        },
        _ => None,
    }
}

fn sx_fields(x: &Sx) -> Option<Vec<(String, Ty)>> {
    match x {
        Sx::L(v) => v
            .iter()
            .map(|f| match f {
                Sx::L(f) => match (&f[0], &f[1], &f[2]) {
                    (Sx::A(_), Sx::S(n), t) => Some((n.clone(), sx_ty(t)?)),
                    _ => None,
                },
                _ => None,
            })
            .collect(),
        _ => None,
    }
}

fn sx_ty(x: &Sx) -> Option<Ty> {
    let v = match x {
        Sx::L(v) => v,
        _ => return None,
    };
    let head = match v.get(0)? {
        Sx::A(a) => a.as_str(),
        _ => return None,
    };
    Some(match head {
        "hole" => Ty::Hole,
        "arrow" => Ty::Arrow,
        "con" => match v.get(1)? {
            Sx::S(s) => Ty::Con(s.clone()),
            _ => return None,
        },
        "var" => match v.get(1)? {
            Sx::S(s) => Ty::Var(s.clone()),
            _ => return None,
        },
        "proj" => Ty::Proj(sx_strs(&Sx::L(v[1..].to_vec()))?),
        "fun" => Ty::Fun(
            matches!(v.get(1)?, Sx::A(a) if a == "I"),
            Box::new(sx_ty(v.get(2)?)?),
            Box::new(sx_ty(v.get(3)?)?),
        ),
        "forall" => Ty::Forall(sx_strs(v.get(1)?)?, Box::new(sx_ty(v.get(2)?)?)),
        "app" => Ty::App(Box::new(sx_ty(v.get(1)?)?), Box::new(sx_ty(v.get(2)?)?)),
        "record" => {
            let ts = match v.get(1)? {
                Sx::L(ts) => ts
                    .iter()
                    .map(|t| match t {
                        Sx::L(t) => match (&t[1], &t[2], &t[3]) {
                            (Sx::S(n), ps, ty) => Some((n.clone(), sx_strs(ps)?, sx_ty(ty)?)),
                            _ => None,
                        },
                        _ => None,
                    })
                    .collect::<Option<Vec<_>>>()?,
                _ => return None,
            };
            let fs = sx_fields(v.get(2)?)?;
            let cut = match v.get(4) {
                Some(Sx::A(a)) => a.parse().ok()?,
                _ => fs.len(),
            };
            Ty::Record(ts, fs, sx_rest(v.get(3)?)?, cut)
        }
        "variant" => {
            let cs = match v.get(1)? {
                Sx::L(cs) => cs
                    .iter()
                    .map(|c| match c {
                        Sx::L(c) => match (&c[0], &c[1], &c[2]) {
                            (Sx::A(k), Sx::S(n), Sx::L(args)) if k == "simple" => Some((
                                n.clone(),
                                Ctor::Simple(args.iter().map(sx_ty).collect::<Option<Vec<_>>>()?),
                            )),
                            (Sx::A(k), Sx::S(n), t) if k == "gadt" => {
                                Some((n.clone(), Ctor::Gadt(sx_ty(t)?)))
                            }
                            _ => None,
                        },
                        _ => None,
                    })
                    .collect::<Option<Vec<_>>>()?,
                _ => return None,
            };
            Ty::Variant(cs, sx_rest(v.get(2)?)?)
        }
        "effect" => Ty::Effect(sx_fields(v.get(1)?)?, sx_rest(v.get(2)?)?),
        _ => return None,
    })
}

fn ty_of_sexp(s: &str) -> Option<Ty> {
    let cs: Vec<char> = s.chars().collect();
    let mut i = 0;
    sx_ty(&sx_parse(&cs, &mut i)?)
}

// ------------------------------------------------------------------------------------------
// Building the real type

type RT = ArcType<String>;

fn generic(n: &str) -> Generic<String> {
    Generic::new(n.to_string(), Kind::typ())
}

/// `split`: decides (deterministically from the shape) whether an application spine is built
/// flat (`App(f, [a, b])`) or nested (`App(App(f, [a]), [b])`) – both must print the same.
fn build(t: &Ty, split: u64) -> RT {
    match t {
        Ty::Hole => Type::hole(),
        Ty::Con(n) => match n.parse::<BuiltinType>() {
            Ok(b) => Type::builtin(b),
            Err(()) => {
                if split % 5 == 3 {
                    // an alias prints as its name
                    Type::alias(n.clone(), vec![], Type::int())
                } else {
                    Type::ident(KindedIdent::new(n.clone()))
                }
            }
        },
        Ty::Var(n) => Type::generic(generic(n)),
        Ty::Arrow => Type::builtin(BuiltinType::Function),
        Ty::Proj(ids) => Type::projection(ids.iter().cloned().collect()),
        Ty::Fun(false, a, r) if split % 7 == 5 => Type::app(
            Type::builtin(BuiltinType::Function),
            vec![build(a, split / 2), build(r, split / 3)].into_iter().collect(),
        ),
        Ty::Fun(i, a, r) => Type::function_type(
            if *i { ArgType::Implicit } else { ArgType::Explicit },
            vec![build(a, split / 2)],
            build(r, split / 3),
        ),
        Ty::Forall(vs, b) => Type::forall(vs.iter().map(|v| generic(v)).collect(), build(b, split / 2)),
        Ty::App(..) => {
            let mut args = vec![];
            let mut h = t;
            while let Ty::App(f, a) = h {
                args.push(&**a);
                h = f;
            }
            args.reverse();
            let head = build(h, split / 2);
            let n = args.len();
            let k = if n >= 2 && split % 3 == 1 { 1 + (split / 3) as usize % (n - 1) } else { n };
            let first = Type::app(
                head,
                args[..k].iter().enumerate().map(|(i, a)| build(a, split / 2 + i as u64)).collect(),
            );
            Type::app(
                first,
                args[k..].iter().enumerate().map(|(i, a)| build(a, split / 5 + i as u64)).collect(),
            )
        }
        Ty::Record(ts, fs, r, cut) => {
            let types = ts
                .iter()
                .map(|(n, ps, t)| {
                    Field::new(
                        n.clone(),
                        Alias::new(n.clone(), ps.iter().map(|p| generic(p)).collect(), build(t, split / 2)),
                    )
                })
                .collect();
            let mut fields: Vec<Field<String, RT>> = fs
                .iter()
                .enumerate()
                .map(|(i, (n, t))| Field::new(n.clone(), build(t, split / 2 + i as u64)))
                .collect();
            let mut rest = match r {
                None => Type::empty_row(),
                Some(r) => build(r, split / 2),
            };
            if *cut >= 1 && *cut < fields.len() {
                // the same row as two nested `ExtendRow`s (what substituting a row variable gives)
                let tail = fields.split_off(*cut);
                rest = Type::extend_row(tail, rest);
            }
            Type::poly_record(types, fields, rest)
        }
        Ty::Variant(cs, r) => {
            let fields = cs
                .iter()
                .enumerate()
                .map(|(i, (n, c))| {
                    Field::new(
                        n.clone(),
                        match c {
                            Ctor::Simple(args) => Type::function_type(
                                if split % 2 == 0 { ArgType::Constructor } else { ArgType::Explicit },
                                args.iter().map(|a| build(a, split / 2 + i as u64)).collect::<Vec<_>>(),
                                Type::opaque(),
                            ),
                            Ctor::Gadt(t) => build(t, split / 2 + i as u64),
                        },
                    )
                })
                .collect();
            match r {
                None => Type::variant(fields),
                Some(r) => Type::poly_variant(fields, build(r, split / 2)),
            }
        }
        Ty::Effect(fs, r) => {
            let fields = fs
                .iter()
                .enumerate()
                .map(|(i, (n, t))| Field::new(n.clone(), build(t, split / 2 + i as u64)))
                .collect();
            match r {
                None => Type::effect(fields),
                Some(r) => Type::poly_effect(fields, build(r, split / 2)),
            }
        }
    }
}

// ------------------------------------------------------------------------------------------
// Reading a parsed (or built) type back into `Ty` (this *is* `norm`: nested applications and
// nested rows are flattened, `App((->), [a, b])` is a function, aliases/identifiers/builtins are
// constructors by name).

fn sid<S: AsRef<str>>(s: &S) -> String {
    s.as_ref().to_string()
}

fn collect_row<'a, T>(
    mut row: &'a T,
    types: &mut Vec<(String, Vec<String>, Ty)>,
    fields: &mut Vec<(String, &'a T)>,
    first_group: &mut Option<usize>,
) -> Result<Option<Box<Ty>>, String>
where
    T: TypePtr,
    T::Id: AsRef<str>,
    T::SpannedId: AsRef<str>,
{
    loop {
        match &**row {
            Type::EmptyRow => return Ok(None),
            Type::ExtendRow { fields: fs, rest } => {
                for f in fs.iter() {
                    fields.push((sid(&f.name), &f.typ));
                }
                if first_group.is_none() {
                    *first_group = Some(fs.len());
                }
                row = rest;
            }
            Type::ExtendTypeRow { types: ts, rest } => {
                for f in ts.iter() {
                    types.push((
                        sid(&f.name),
                        f.typ.params().iter().map(|g| sid(&g.id)).collect(),
                        read(f.typ.unresolved_type())?,
                    ));
                }
                row = rest;
            }
            _ => return Ok(Some(Box::new(read(row)?))),
        }
    }
}

fn is_simple_ctor<T: TypePtr>(t: &T) -> bool {
    // base/src/types/mod.rs:1281 is_simple_constructor (private there)
    let mut cur = t;
    while let Some((_, r)) = cur.as_function() {
        cur = r;
    }
    matches!(**cur, Type::Opaque)
}

fn read<T>(t: &T) -> Result<Ty, String>
where
    T: TypePtr,
    T::Id: AsRef<str>,
    T::SpannedId: AsRef<str>,
{
    if let Some((at, a, r)) = t.as_function_with_type() {
        return Ok(Ty::Fun(at == ArgType::Implicit, Box::new(read(a)?), Box::new(read(r)?)));
    }
    Ok(match &**t {
        Type::Hole => Ty::Hole,
        Type::Builtin(BuiltinType::Function) => Ty::Arrow,
        Type::Builtin(b) => Ty::Con(b.to_str().to_string()),
        Type::Ident(id) => Ty::Con(sid(&id.name)),
        Type::Alias(a) => Ty::Con(sid(&a.name)),
        Type::Generic(g) => Ty::Var(sid(&g.id)),
        Type::Projection(ids) => Ty::Proj(ids.iter().map(|i| sid(i)).collect()),
        Type::Forall(vs, b) => Ty::Forall(vs.iter().map(|g| sid(&g.id)).collect(), Box::new(read(b)?)),
        Type::App(f, args) => {
            let mut r = read(f)?;
            for a in args.iter() {
                r = Ty::App(Box::new(r), Box::new(read(a)?));
            }
            r
        }
        Type::Record(row) => {
            let (mut ts, mut fs) = (vec![], vec![]);
            let mut fg = None;
            let rest = collect_row(row, &mut ts, &mut fs, &mut fg)?;
            let fs = fs
                .into_iter()
                .map(|(n, t)| Ok((n, read(t)?)))
                .collect::<Result<Vec<_>, String>>()?;
            let cut = fg.unwrap_or(0);
            Ty::Record(ts, fs, rest, cut)
        }
        Type::Effect(row) => {
            let (mut ts, mut fs) = (vec![], vec![]);
            let mut fg = None;
            let rest = collect_row(row, &mut ts, &mut fs, &mut fg)?;
            if !ts.is_empty() {
                return Err("type field in effect row".into());
            }
            let fs = fs
                .into_iter()
                .map(|(n, t)| Ok((n, read(t)?)))
                .collect::<Result<Vec<_>, String>>()?;
            Ty::Effect(fs, rest)
        }
        Type::Variant(row) => {
            let (mut ts, mut fs) = (vec![], vec![]);
            let mut fg = None;
            let rest = collect_row(row, &mut ts, &mut fs, &mut fg)?;
            if !ts.is_empty() {
                return Err("type field in variant row".into());
            }
            let mut cs = vec![];
            for (n, t) in fs {
                if is_simple_ctor(t) {
                    let mut args = vec![];
                    let mut cur = t;
                    while let Some((a, r)) = cur.as_function() {
                        args.push(read(a)?);
                        cur = r;
                    }
                    cs.push((n, Ctor::Simple(args)));
                } else {
                    cs.push((n, Ctor::Gadt(read(t)?)));
                }
            }
            Ty::Variant(cs, rest)
        }
        other => {
            return Err(format!(
                "unsupported node {}",
                match other {
                    Type::Opaque => "opaque",
                    Type::Error => "error",
                    Type::Variable(_) => "variable",
                    Type::Skolem(_) => "skolem",
                    Type::EmptyRow => "empty-row",
                    Type::ExtendRow { .. } => "extend-row",
                    Type::ExtendTypeRow { .. } => "extend-type-row",
                    _ => "?",
                }
            ))
        }
    })
}

// ------------------------------------------------------------------------------------------
// The real parser

pub struct MockEnv<T>(PhantomData<T>);
impl<T: AsRef<str>> DisplayEnv for MockEnv<T> {
    type Ident = T;
    fn string<'a>(&'a self, ident: &'a Self::Ident) -> &'a str {
        ident.as_ref()
    }
}
impl<T> IdentEnv for MockEnv<T>
where
    T: AsRef<str> + for<'a> From<&'a str>,
{
    fn from_str(&mut self, s: &str) -> Self::Ident {
        T::from(s)
    }
}

#[derive(Clone, Copy, PartialEq, Debug)]
enum Ctx {
    /// `let _ : <Type> = ()`  (grammar rule `Type`)
    Ann,
    /// `type T = <TypeTop>`   (grammar rule `TypeTop`: also accepts a variant)
    Top,
}

fn indent_cont(text: &str) -> String {
    text.replace('\n', "\n        ")
}

fn embed(ctx: Ctx, text: &str) -> String {
    match ctx {
        Ctx::Ann => format!("let _ : {} = ()\n()\n", indent_cont(text)),
        Ctx::Top => format!("type Zz =\n        {}\n()\n", indent_cont(text)),
    }
}

/// Parse `src` with the real parser and read the type of the first binding.
fn parse_src(ctx: Ctx, src: &str) -> Result<Ty, String> {
    mk_ast_arena!(arena);
    let mut env: MockEnv<String> = MockEnv(PhantomData);
    let cache: TypeCache<String, ArcType<String>> = TypeCache::default();
    let r = gv::catch(|| gluon_parser::parse_partial_expr((*arena).borrow(), &mut env, &cache, src));
    let e = match r {
        Err(p) => return Err(format!("panic:{}", p)),
        Ok(Err((_, errs))) => return Err(format!("parse-error:{}", errs.to_string().replace('\n', " "))),
        Ok(Ok(e)) => e,
    };
    match (&e.value, ctx) {
        (Expr::LetBindings(ValueBindings::Plain(b), _), Ctx::Ann) => match &b.typ {
            Some(t) => read(t),
            None => Err("no-annotation".into()),
        },
        (Expr::TypeBindings(bs, _), Ctx::Top) => match bs.first() {
            Some(b) => read(b.alias.value.unresolved_type()),
            None => Err("no-binding".into()),
        },
        _ => Err("unexpected-ast".into()),
    }
}

fn is_top_variant(t: &Ty) -> bool {
    match t {
        Ty::Variant(..) => true,
        Ty::Forall(_, b) => matches!(**b, Ty::Variant(..)),
        _ => false,
    }
}

fn ctx_of(t: &Ty) -> Ctx {
    if is_top_variant(t) {
        Ctx::Top
    } else {
        Ctx::Ann
    }
}

// ------------------------------------------------------------------------------------------
// Rendering

#[derive(Clone, Copy, PartialEq, Debug)]
enum Site {
    /// `format!("{}", TypeFormatter::new(&t).width(w))` (== Display at 80)
    Fmt,
    /// vm/src/api/typ.rs:36 make_source: `t.pretty(&arena).nest(4).1.pretty(w)`
    Source,
}

fn render(t: &RT, site: Site, w: usize) -> Result<String, String> {
    gv::catch(|| match site {
        Site::Fmt => format!("{}", TypeFormatter::new(t).width(w)),
        Site::Source => {
            // `pretty::Arena` without naming the crate (it is not a dependency of the harness)
            let arena = Default::default();
            let doc = TypeFormatter::<String, RT, ()>::new(t).pretty(&arena).nest(4);
            format!("{}", doc.1.pretty(w))
        }
    })
}

fn is_op(c: char) -> bool {
    gluon_base::ast::is_operator_char(c)
}

/// The harness' tokeniser (identifier runs, operator-character runs, single brackets/commas).
fn tokens(text: &str) -> Vec<String> {
    let cs: Vec<char> = text.chars().collect();
    let mut i = 0;
    let mut out = vec![];
    while i < cs.len() {
        let c = cs[i];
        if c.is_whitespace() {
            i += 1;
        } else if c.is_alphanumeric() || c == '_' || c == '\'' {
            let s = i;
            while i < cs.len() && (cs[i].is_alphanumeric() || cs[i] == '_' || cs[i] == '\'') {
                i += 1;
            }
            out.push(cs[s..i].iter().collect());
        } else if is_op(c) {
            let s = i;
            while i < cs.len() && is_op(cs[i]) {
                i += 1;
            }
            out.push(cs[s..i].iter().collect());
        } else {
            out.push(c.to_string());
            i += 1;
        }
    }
    out
}

// ------------------------------------------------------------------------------------------
// The property oracle on one (type, site, width)

#[derive(Debug, Clone, PartialEq)]
enum Verdict {
    Ok,
    /// the rendering does not parse (message)
    Unparsable(String),
    /// it parses to a different type
    Different(Ty),
    /// rendering panicked
    Panic(String),
}

fn verdict(t: &Ty, split: u64, site: Site, w: usize) -> (Verdict, String) {
    let real = build(t, split);
    let text = match render(&real, site, w) {
        Ok(s) => s,
        Err(p) => return (Verdict::Panic(p), String::new()),
    };
    // the most permissive embedding: annotation position, and if that does not give the type
    // back, the right-hand side of a type binding (which also accepts a variant)
    let a = parse_src(Ctx::Ann, &embed(Ctx::Ann, &text));
    if a.as_ref().ok() == Some(t) {
        return (Verdict::Ok, text);
    }
    let b = parse_src(Ctx::Top, &embed(Ctx::Top, &text));
    if b.as_ref().ok() == Some(t) {
        return (Verdict::Ok, text);
    }
    let v = match (a, b) {
        (Ok(x), _) => Verdict::Different(x),
        (_, Ok(x)) => Verdict::Different(x),
        (Err(e), Err(_)) => Verdict::Unparsable(e),
    };
    (v, text)
}

fn children(t: &Ty) -> Vec<Ty> {
    let mut v = vec![];
    let rest = |r: &Option<Box<Ty>>, v: &mut Vec<Ty>| {
        if let Some(r) = r {
            v.push((**r).clone())
        }
    };
    match t {
        Ty::Fun(_, a, r) => {
            v.push((**a).clone());
            v.push((**r).clone());
        }
        Ty::Forall(_, b) => v.push((**b).clone()),
        Ty::App(f, a) => {
            v.push((**f).clone());
            v.push((**a).clone());
        }
        Ty::Record(ts, fs, r, _) => {
            v.extend(ts.iter().map(|x| x.2.clone()));
            v.extend(fs.iter().map(|x| x.1.clone()));
            rest(r, &mut v);
        }
        Ty::Variant(cs, r) => {
            for (_, c) in cs {
                match c {
                    Ctor::Simple(a) => v.extend(a.iter().cloned()),
                    Ctor::Gadt(t) => v.push(t.clone()),
                }
            }
            rest(r, &mut v);
        }
        Ty::Effect(fs, r) => {
            v.extend(fs.iter().map(|x| x.1.clone()));
            rest(r, &mut v);
        }
        _ => {}
    }
    v
}

/// One-step simplifications of `t` (smaller types of the same fragment).
fn shrinks(t: &Ty) -> Vec<Ty> {
    let mut out = children(t);
    let atom = Ty::Con("Int".into());
    if children(t).is_empty() {
        if *t != atom {
            out.push(atom.clone());
        }
        return out;
    }
    // replace one child by each of its shrinks
    let with_child = |t: &Ty, idx: usize, new: Ty| -> Ty {
        let mut k = 0;
        let mut new = Some(new);
        let mut put = |x: &Ty| -> Ty {
            let r = if k == idx { new.take().unwrap() } else { x.clone() };
            k += 1;
            r
        };
        match t {
            Ty::Fun(i, a, r) => {
                let a2 = put(a);
                let r2 = put(r);
                Ty::Fun(*i, Box::new(a2), Box::new(r2))
            }
            Ty::Forall(vs, b) => Ty::Forall(vs.clone(), Box::new(put(b))),
            Ty::App(f, a) => {
                let f2 = put(f);
                let a2 = put(a);
                Ty::App(Box::new(f2), Box::new(a2))
            }
            Ty::Record(ts, fs, r, cut) => {
                let ts2 = ts.iter().map(|x| (x.0.clone(), x.1.clone(), put(&x.2))).collect();
                let fs2 = fs.iter().map(|x| (x.0.clone(), put(&x.1))).collect();
                let r2 = r.as_ref().map(|r| Box::new(put(r)));
                Ty::Record(ts2, fs2, r2, *cut)
            }
            Ty::Variant(cs, r) => {
                let cs2 = cs
                    .iter()
                    .map(|(n, c)| {
                        (
                            n.clone(),
                            match c {
                                Ctor::Simple(a) => Ctor::Simple(a.iter().map(|x| put(x)).collect()),
                                Ctor::Gadt(t) => Ctor::Gadt(put(t)),
                            },
                        )
                    })
                    .collect();
                let r2 = r.as_ref().map(|r| Box::new(put(r)));
                Ty::Variant(cs2, r2)
            }
            Ty::Effect(fs, r) => {
                let fs2 = fs.iter().map(|x| (x.0.clone(), put(&x.1))).collect();
                let r2 = r.as_ref().map(|r| Box::new(put(r)));
                Ty::Effect(fs2, r2)
            }
            other => other.clone(),
        }
    };
    // drop list elements / tails / binders
    match t {
        Ty::Forall(vs, b) if vs.len() > 1 => {
            out.push(Ty::Forall(vs[..1].to_vec(), b.clone()));
        }
        Ty::Record(ts, fs, r, cut) => {
            let cut = *cut;
            if cut != fs.len() {
                out.push(Ty::Record(ts.clone(), fs.clone(), r.clone(), fs.len()));
            }
            for i in 0..ts.len() {
                let mut x = ts.clone();
                x.remove(i);
                out.push(Ty::Record(x, fs.clone(), r.clone(), cut));
            }
            for i in 0..fs.len() {
                let mut x = fs.clone();
                x.remove(i);
                let c2 = if cut == fs.len() {
                    x.len()
                } else if i < cut && cut >= 2 {
                    cut - 1
                } else {
                    cut.min(x.len())
                };
                out.push(Ty::Record(ts.clone(), x, r.clone(), c2));
            }
            if r.is_some() {
                out.push(Ty::Record(ts.clone(), fs.clone(), None, cut));
            }
            for i in 0..ts.len() {
                if !ts[i].1.is_empty() {
                    let mut x = ts.clone();
                    x[i].1.clear();
                    out.push(Ty::Record(x, fs.clone(), r.clone(), cut));
                }
            }
        }
        Ty::Variant(cs, r) => {
            for i in 0..cs.len() {
                let mut x = cs.clone();
                x.remove(i);
                if !x.is_empty() || r.is_some() {
                    out.push(Ty::Variant(x, r.clone()));
                }
                if let Ctor::Simple(a) = &cs[i].1 {
                    for j in 0..a.len() {
                        let mut a2 = a.clone();
                        a2.remove(j);
                        let mut x = cs.clone();
                        x[i].1 = Ctor::Simple(a2);
                        out.push(Ty::Variant(x, r.clone()));
                    }
                }
            }
            if r.is_some() && !cs.is_empty() {
                out.push(Ty::Variant(cs.clone(), None));
            }
        }
        Ty::Effect(fs, r) => {
            for i in 0..fs.len() {
                let mut x = fs.clone();
                x.remove(i);
                out.push(Ty::Effect(x, r.clone()));
            }
            if r.is_some() {
                out.push(Ty::Effect(fs.clone(), None));
            }
        }
        _ => {}
    }
    let ch = children(t);
    for (i, c) in ch.iter().enumerate() {
        for s in shrinks(c) {
            out.push(with_child(t, i, s));
        }
    }
    out
}

fn size(t: &Ty) -> usize {
    let extra = match t {
        Ty::Forall(vs, _) => vs.len(),
        Ty::Record(ts, fs, _, cut) => {
            ts.iter().map(|x| 1 + x.1.len()).sum::<usize>() + fs.len() + if *cut != fs.len() { 1 } else { 0 }
        }
        Ty::Variant(cs, _) => cs.len(),
        Ty::Effect(fs, _) => fs.len(),
        Ty::Proj(ids) => ids.len(),
        _ => 0,
    };
    let own = match t {
        Ty::Con(n) if n == "Int" => 1,
        Ty::Con(_) | Ty::Var(_) | Ty::Hole | Ty::Arrow | Ty::Proj(_) => 2,
        _ => 2,
    };
    own + extra + children(t).iter().map(size).sum::<usize>()
}

/// The fragment the generator draws from (the minimiser must stay inside it): application
/// heads are constructors / variables / projections (well-kinded types).
fn well_formed(t: &Ty) -> bool {
    let here = match t {
        Ty::App(f, _) => {
            let mut h = &**f;
            while let Ty::App(g, _) = h {
                h = g;
            }
            matches!(h, Ty::Con(_) | Ty::Var(_) | Ty::Proj(_))
        }
        Ty::Variant(cs, r) => !cs.is_empty() || r.is_some(),
        _ => true,
    };
    here && children(t).iter().all(well_formed)
}

fn same_kind(a: &Verdict, b: &Verdict) -> bool {
    std::mem::discriminant(a) == std::mem::discriminant(b)
}

/// Greedy minimisation keeping the kind of failure.
fn minimise(t: &Ty, split: u64, site: Site, w: usize, v0: &Verdict) -> Ty {
    let mut cur = t.clone();
    let mut budget = 400;
    'outer: loop {
        let mut cands = shrinks(&cur);
        cands.sort_by_key(size);
        for c in cands {
            if size(&c) >= size(&cur) || !well_formed(&c) {
                continue;
            }
            if budget == 0 {
                break 'outer;
            }
            budget -= 1;
            let (v, _) = verdict(&c, split, site, w);
            if v != Verdict::Ok && same_kind(&v, v0) {
                cur = c;
                continue 'outer;
            }
        }
        break;
    }
    cur
}

fn field_class(n: &str) -> String {
    if n.starts_with(is_op) {
        "op".into()
    } else if n.starts_with('_') && n[1..].parse::<usize>().is_ok() {
        n.to_string()
    } else {
        "x".into()
    }
}

/// Names abstracted away: the *shape* of a (minimised) failing type.
fn skeleton(t: &Ty) -> String {
    let rest = |r: &Option<Box<Ty>>| match r {
        None => String::new(),
        Some(r) => format!("|{}", skeleton(r)),
    };
    match t {
        Ty::Hole => "_".into(),
        Ty::Con(_) => "C".into(),
        Ty::Var(_) => "v".into(),
        Ty::Arrow => "(->)".into(),
        Ty::Proj(_) => "proj".into(),
        Ty::Fun(i, a, r) => format!("fun{}({},{})", if *i { "I" } else { "" }, skeleton(a), skeleton(r)),
        Ty::Forall(_, b) => format!("forall({})", skeleton(b)),
        Ty::App(f, a) => format!("app({},{})", skeleton(f), skeleton(a)),
        Ty::Record(ts, fs, r, cut) => format!(
            "rec[{}{}{}]",
            ts.iter().map(|x| format!("T={};", skeleton(&x.2))).collect::<String>(),
            fs.iter()
                .enumerate()
                .map(|(i, x)| format!(
                    "{}{}:{};",
                    if i == *cut && i > 0 { "/" } else { "" },
                    field_class(&x.0),
                    skeleton(&x.1)
                ))
                .collect::<String>(),
            rest(r)
        ),
        Ty::Variant(cs, r) => format!(
            "var[{}{}]",
            cs.iter()
                .map(|(_, c)| match c {
                    Ctor::Simple(a) => format!("K({});", a.iter().map(skeleton).collect::<Vec<_>>().join(",")),
                    Ctor::Gadt(t) => format!("K:{};", skeleton(t)),
                })
                .collect::<String>(),
            rest(r)
        ),
        Ty::Effect(fs, r) => format!(
            "eff[{}{}]",
            fs.iter()
                .map(|x| format!("{}:{};", field_class(&x.0), skeleton(&x.1)))
                .collect::<String>(),
            rest(r)
        ),
    }
}

/// A variant anywhere but at the root (the only place `TypeTop` accepts one).
fn has_inner_variant(t: &Ty, top: bool) -> bool {
    match t {
        Ty::Variant(..) if !top => true,
        _ => children(t).iter().any(|c| has_inner_variant(c, false)),
    }
}

/// A record whose row is a chain of two `ExtendRow` nodes.
fn has_split_row(t: &Ty) -> bool {
    match t {
        Ty::Record(_, fs, _, cut) if *cut != fs.len() => true,
        _ => children(t).iter().any(has_split_row),
    }
}

/// A GADT-style constructor with an implicit argument on the spine of its type.
fn has_gadt_implicit(t: &Ty) -> bool {
    fn spine_implicit(t: &Ty) -> bool {
        match t {
            Ty::Fun(i, _, r) => *i || spine_implicit(r),
            _ => false,
        }
    }
    match t {
        Ty::Variant(cs, _) if cs.iter().any(|c| matches!(&c.1, Ctor::Gadt(g) if spine_implicit(g))) => true,
        _ => children(t).iter().any(has_gadt_implicit),
    }
}

fn fingerprint(min: &Ty, v: &Verdict) -> String {
    let kind = match v {
        Verdict::Ok => "ok",
        Verdict::Unparsable(_) => "unparsable",
        Verdict::Different(_) => "misread",
        Verdict::Panic(_) => "panic",
    };
    if has_inner_variant(min, true) {
        return format!("{}:variant-not-at-top", kind);
    }
    if has_split_row(min) {
        return format!("{}:record-split-row", kind);
    }
    if has_gadt_implicit(min) {
        return format!("{}:gadt-ctor-implicit-arg", kind);
    }
    format!("{}:{}", kind, skeleton(min))
}

// ------------------------------------------------------------------------------------------
// Generator

const CONS0: &[&str] = &["Int", "String", "Float", "Char", "Byte", "Bool", "Unit", "Ordering", "Test"];
const CONS1: &[&str] = &["Option", "Array", "List", "IO", "Lazy", "Functor"];
const CONS2: &[&str] = &["Result", "Map", "Eff", "State"];
const VARS: &[&str] = &["a", "b", "c", "r", "m", "f", "e", "k'", "value_type"];
const FIELDS: &[&str] = &[
    "x", "y", "z", "foo", "bar", "map", "wrap", "flat_map", "+", "<>", ">>=", "==", "*", "<|", "_0", "_1",
    "looooooooooooooooooooooong_field", "record_looooooooooooooooooooooooooooooooooong", "id",
];
const CTORS: &[&str] = &["A", "B", "Some", "None", "Cons", "Nil", "Ok", "Err", "Leaf", "Loooooooooooooooooooooooooooong"];
const TYPE_FIELDS: &[&str] = &["Test", "Elem", "Key", "Looooooooooooooooooooooong"];

struct Gen {
    rng: gv::rng::Rng,
    /// probability (per mille) of a variant in a non-top position
    inner_variant: u64,
}

impl Gen {
    fn pick(&mut self, xs: &[&str]) -> String {
        xs[self.rng.below(xs.len() as u64) as usize].to_string()
    }

    fn atom(&mut self) -> Ty {
        match self.rng.below(20) {
            0..=7 => Ty::Con(self.pick(CONS0)),
            8..=14 => Ty::Var(self.pick(VARS)),
            15 => Ty::Hole,
            16 => Ty::Arrow,
            17 => Ty::Proj(vec![self.pick(&["std", "m", "list"]), self.pick(&["List", "Map", "t"])]),
            18 => Ty::Record(vec![], vec![], None, 0),
            _ => Ty::Con(self.pick(CONS1)),
        }
    }

    fn head(&mut self) -> Ty {
        match self.rng.below(10) {
            0..=4 => Ty::Con(self.pick(CONS1)),
            5..=6 => Ty::Con(self.pick(CONS2)),
            7..=8 => Ty::Var(self.pick(&["m", "f", "t"])),
            _ => Ty::Proj(vec!["std".into(), "map".into(), "Map".into()]),
        }
    }

    fn fields(&mut self, n: usize, budget: usize, names: &[&str]) -> Vec<(String, Ty)> {
        let mut out: Vec<(String, Ty)> = vec![];
        for _ in 0..n {
            let name = self.pick(names);
            if out.iter().any(|f| f.0 == name) {
                continue;
            }
            let t = self.ty(budget / n.max(1));
            out.push((name, t));
        }
        out
    }

    fn rest(&mut self) -> Option<Box<Ty>> {
        if self.rng.chance(1, 3) {
            Some(Box::new(Ty::Var(self.pick(&["r", "s", "rest"]))))
        } else {
            None
        }
    }

    fn variant(&mut self, budget: usize) -> Ty {
        let n = self.rng.range(1, 4) as usize;
        let mut cs: Vec<(String, Ctor)> = vec![];
        for _ in 0..n {
            let name = self.pick(CTORS);
            if cs.iter().any(|c| c.0 == name) {
                continue;
            }
            let c = if self.rng.chance(1, 4) {
                // GADT style: ends in an application of a constructor
                let mut t = Ty::App(Box::new(Ty::Con("T".into())), Box::new(self.atom()));
                for _ in 0..self.rng.below(3) {
                    // (rarely) an implicit argument: the grammar turns every arrow on a GADT
                    // constructor's spine into ArgType::Constructor (grammar.lalrpop:401-408)
                    let implicit = self.rng.chance(1, 12);
                    t = Ty::Fun(implicit, Box::new(self.ty(budget / 4)), Box::new(t));
                }
                if self.rng.chance(1, 4) {
                    t = Ty::Forall(vec![self.pick(VARS)], Box::new(t));
                }
                Ctor::Gadt(t)
            } else {
                let k = self.rng.below(4) as usize;
                Ctor::Simple((0..k).map(|_| self.ty(budget / 4)).collect())
            };
            cs.push((name, c));
        }
        let rest = if self.rng.chance(1, 5) { Some(Box::new(Ty::Var("r".into()))) } else { None };
        Ty::Variant(cs, rest)
    }

    fn ty(&mut self, budget: usize) -> Ty {
        if budget <= 1 {
            return self.atom();
        }
        if self.rng.below(1000) < self.inner_variant {
            return self.variant(budget);
        }
        match self.rng.below(100) {
            0..=14 => self.atom(),
            15..=36 => {
                let implicit = self.rng.chance(1, 5);
                let a = self.ty(budget / 2);
                let r = self.ty(budget - budget / 2 - 1);
                Ty::Fun(implicit, Box::new(a), Box::new(r))
            }
            37..=46 => {
                let n = self.rng.range(1, 3) as usize;
                let mut vs: Vec<String> = vec![];
                for _ in 0..n {
                    let v = self.pick(VARS);
                    if !vs.contains(&v) {
                        vs.push(v);
                    }
                }
                Ty::Forall(vs, Box::new(self.ty(budget - 1)))
            }
            47..=68 => {
                let n = self.rng.range(1, 3) as usize;
                let mut t = self.head();
                for _ in 0..n {
                    t = Ty::App(Box::new(t), Box::new(self.ty(budget / (n + 1))));
                }
                t
            }
            69..=86 => {
                let nt = if self.rng.chance(1, 3) { self.rng.range(1, 2) as usize } else { 0 };
                let nf = self.rng.range(0, 4) as usize;
                let mut ts: Vec<(String, Vec<String>, Ty)> = vec![];
                for _ in 0..nt {
                    let name = self.pick(TYPE_FIELDS);
                    if ts.iter().any(|t| t.0 == name) {
                        continue;
                    }
                    let np = self.rng.below(3) as usize;
                    let ps = (0..np).map(|i| VARS[i].to_string()).collect();
                    ts.push((name, ps, self.ty(budget / 3)));
                }
                let fs = if self.rng.chance(1, 6) {
                    // tuple-like field names
                    let k = self.rng.range(1, 3) as usize;
                    (0..k).map(|i| (format!("_{}", i), self.ty(budget / 3))).collect()
                } else {
                    self.fields(nf, budget, FIELDS)
                };
                let rest = if fs.is_empty() && ts.is_empty() && !self.rng.chance(1, 8) { None } else { self.rest() };
                let cut = if fs.len() >= 2 && self.rng.chance(1, 12) {
                    1 + self.rng.below(fs.len() as u64 - 1) as usize
                } else {
                    fs.len()
                };
                Ty::Record(ts, fs, rest, cut)
            }
            87..=93 => {
                let nf = self.rng.range(0, 3) as usize;
                let fs = self.fields(nf, budget, &["state", "reader", "error", "lift", "alt", "+"]);
                let rest = self.rest();
                let e = Ty::Effect(fs, rest);
                if self.rng.chance(1, 2) {
                    Ty::App(
                        Box::new(Ty::App(Box::new(Ty::Con("Eff".into())), Box::new(e))),
                        Box::new(self.atom()),
                    )
                } else {
                    e
                }
            }
            _ => {
                // tuple
                let k = self.rng.range(2, 4) as usize;
                let fs: Vec<(String, Ty)> = (0..k).map(|i| (format!("_{}", i), self.ty(budget / k))).collect();
                Ty::Record(vec![], fs, None, k)
            }
        }
    }

    fn top(&mut self, budget: usize) -> Ty {
        match self.rng.below(100) {
            0..=11 => self.variant(budget),
            12..=13 => Ty::Forall(vec![self.pick(VARS)], Box::new(self.variant(budget))),
            _ => self.ty(budget),
        }
    }
}

// ------------------------------------------------------------------------------------------

fn constructs(t: &Ty, res: &mut Vec<&'static str>) {
    let mut out: Vec<&'static str> = vec![];
    let k = match t {
        Ty::Hole => "hole",
        Ty::Con(_) => "con",
        Ty::Var(_) => "var",
        Ty::Arrow => "arrow",
        Ty::Proj(_) => "proj",
        Ty::Fun(true, ..) => "fun-implicit",
        Ty::Fun(false, ..) => "fun",
        Ty::Forall(..) => "forall",
        Ty::App(..) => "app",
        Ty::Record(ts, fs, r, cut) => {
            if *cut != fs.len() {
                out.push("record-split-row");
            }
            if !ts.is_empty() {
                out.push("record-type-field");
            }
            if r.is_some() {
                out.push("record-row-tail");
            }
            if fs.iter().any(|f| f.0.starts_with(is_op)) {
                out.push("operator-field");
            }
            if ts.is_empty()
                && fs.iter().enumerate().all(|(i, f)| f.0 == format!("_{}", i))
            {
                "tuple"
            } else {
                "record"
            }
        }
        Ty::Variant(cs, r) => {
            if cs.iter().any(|c| matches!(c.1, Ctor::Gadt(_))) {
                out.push("gadt-ctor");
            }
            if r.is_some() {
                out.push("variant-row-tail");
            }
            "variant"
        }
        Ty::Effect(..) => "effect",
    };
    res.push(k);
    res.extend(out);
    for c in children(t) {
        constructs(&c, res);
    }
}

/// context classes: (parent construct, child position, child construct) triples – the
/// nestings parenthesisation depends on
fn nestings(t: &Ty, out: &mut Vec<String>) {
    let k = |t: &Ty| -> &'static str {
        match t {
            Ty::Fun(true, ..) => "ifun",
            Ty::Fun(false, ..) => "fun",
            Ty::Forall(..) => "forall",
            Ty::App(..) => "app",
            Ty::Record(..) => "rec",
            Ty::Variant(..) => "var",
            Ty::Effect(..) => "eff",
            _ => "atom",
        }
    };
    let pos: Vec<&'static str> = match t {
        Ty::Fun(..) => vec!["arg", "ret"],
        Ty::Forall(..) => vec!["body"],
        Ty::App(..) => vec!["head", "carg"],
        _ => vec![],
    };
    for (i, c) in children(t).iter().enumerate() {
        let p = pos.get(i).copied().unwrap_or("field");
        if k(c) != "atom" {
            out.push(format!("{}.{}<{}", k(t), p, k(c)));
        }
        nestings(c, out);
    }
}

struct Run<'a> {
    out: &'a mut Out,
    reported: std::collections::BTreeSet<String>,
}

impl<'a> Run<'a> {
    fn one(&mut self, t: &Ty, split: u64, widths: &[usize]) {
        let real = build(t, split);
        // sanity of the harness itself: the built type reads back as `t`
        match read(&real) {
            Ok(ref x) if x == t => {}
            other => {
                self.out.count("skipped:build-read-mismatch");
                let _ = other;
                return;
            }
        }
        let req_t = sexp(t);
        let mut cs = vec![];
        constructs(t, &mut cs);
        cs.sort();
        cs.dedup();
        for c in &cs {
            self.out.count(&format!("construct:{}", c));
        }
        let mut ns = vec![];
        nestings(t, &mut ns);
        ns.sort();
        ns.dedup();

        // 1. print correspondence, at 80 and at the sampled widths
        let mut ws: Vec<usize> = vec![80];
        ws.extend_from_slice(widths);
        for &w in &ws {
            let payload = match render(&real, Site::Fmt, w) {
                Ok(text) => {
                    if text.contains('\n') {
                        self.out.count("rendering:multi-line");
                    } else {
                        self.out.count("rendering:single-line");
                    }
                    format!(
                        "(toks {})",
                        tokens(&text).iter().map(|s| quote(s)).collect::<Vec<_>>().join(" ")
                    )
                }
                Err(_) => "panic".to_string(),
            };
            self.out.case(&format!("print {} {}", w, req_t), &payload);
        }
        // 2. parse correspondence: the real parser on the width-80 rendering, in the context
        //    chosen from the root construct
        let ctx = ctx_of(t);
        let text80 = render(&real, Site::Fmt, 80).unwrap_or_default();
        let parsed = parse_src(ctx, &embed(ctx, &text80));
        let payload = match &parsed {
            Ok(x) => format!("(ok {})", sexp(x)),
            Err(e) if e.starts_with("unsupported node") => "(ok unsupported)".to_string(),
            Err(_) => "fail".to_string(),
        };
        self.out.count(&format!(
            "reparse:{}",
            match &parsed {
                Ok(x) if x == t => "same",
                Ok(_) => "different",
                Err(_) => "fail",
            }
        ));
        self.out.case(
            &format!("reparse {} {}", if ctx == Ctx::Top { "top" } else { "ann" }, req_t),
            &payload,
        );
        if self.out.n_cases % 997 < 4 {
            self.out.sample(serde_json::json!({"type": req_t, "text": text80, "reparse": payload}));
        }

        // 3. the property oracle
        let mut all_ok = true;
        let mut sites: Vec<(Site, usize)> = ws.iter().map(|w| (Site::Fmt, *w)).collect();
        sites.push((Site::Source, 80));
        for (site, w) in sites {
            let (v, text) = verdict(t, split, site, w);
            self.out.count("oracle:renderings-checked");
            if v == Verdict::Ok {
                continue;
            }
            all_ok = false;
            let min = minimise(t, split, site, w, &v);
            let (vmin, tmin) = verdict(&min, split, site, w);
            let (min, vmin, tmin) = if vmin == Verdict::Ok { (t.clone(), v.clone(), text.clone()) } else { (min, vmin, tmin) };
            let fp = fingerprint(&min, &vmin);
            self.out.count(&format!("finding:{}", fp));
            if self.reported.insert(fp.clone()) {
                let what = match &vmin {
                    Verdict::Unparsable(e) => format!(
                        "type {} is rendered as `{}` which the type grammar rejects ({})",
                        sexp(&min),
                        tmin,
                        e.chars().take(120).collect::<String>()
                    ),
                    Verdict::Different(x) => format!(
                        "type {} is rendered as `{}` which reads back as the different type {}",
                        sexp(&min),
                        tmin,
                        sexp(x)
                    ),
                    Verdict::Panic(p) => format!("rendering type {} panics: {}", sexp(&min), p),
                    Verdict::Ok => unreachable!(),
                };
                self.out.oracle_fail(
                    &fp,
                    &what,
                    serde_json::json!({
                        "type": sexp(&min), "split": split, "width": w,
                        "site": format!("{:?}", site),
                        "original_type": req_t, "original_text": text,
                    }),
                );
            }
        }
        for n in ns {
            self.out.count(&format!("nesting:{}", n));
            self.out.class(format!("{}:{}", n, if all_ok { "ok" } else { "bad" }));
        }
    }
}

fn replay(path: &std::path::Path) {
    let v: serde_json::Value = serde_json::from_str(&std::fs::read_to_string(path).unwrap()).unwrap();
    let c = &v["case"];
    let t = ty_of_sexp(c["type"].as_str().unwrap()).expect("type sexp");
    let split = c["split"].as_u64().unwrap_or(0);
    let w = c["width"].as_u64().unwrap_or(80) as usize;
    let site = if c["site"].as_str() == Some("Source") { Site::Source } else { Site::Fmt };
    let (v, text) = verdict(&t, split, site, w);
    println!("type     : {}", sexp(&t));
    println!("rendered : {:?}", text);
    println!("verdict  : {:?}", v);
    println!("fingerprint: {}", fingerprint(&t, &v));
}

fn main() {
    gv::quiet_panics();
    let args = Args::parse();
    if let Some(i) = args.extra.iter().position(|a| a == "--show") {
        // debugging aid: --show '<type sexp>' [width]
        let t = ty_of_sexp(&args.extra[i + 1]).expect("type sexp");
        let w = args.extra.get(i + 2).and_then(|s| s.parse().ok()).unwrap_or(80);
        for site in [Site::Fmt, Site::Source] {
            let (v, text) = verdict(&t, 0, site, w);
            println!("{:?}@{}:\n{}\n=> {:?}", site, w, text, v);
        }
        return;
    }
    if let Some(i) = args.extra.iter().position(|a| a == "--vmprobe") {
        // debugging aid: typecheck a program in a real VM and print the diagnostics
        use gluon::ThreadExt;
        let vm = gv::vm::new_vm();
        vm.get_database_mut().set_implicit_prelude(false);
        match vm.typecheck_str("probe", &args.extra[i + 1], None) {
            Ok((_, t)) => println!("type: {}", t),
            Err(e) => println!("error: {}", e),
        }
        return;
    }
    let mut out = Out::new(&args.out);
    if let Some(p) = &args.replay {
        replay(p);
        out.finish();
        return;
    }
    let mut run = Run { out: &mut out, reported: Default::default() };

    // corpus: hand-written shapes first (every known finding + the classic nestings)
    let corpus = std::path::Path::new("corpus/C18/types.txt");
    if let Ok(s) = std::fs::read_to_string(corpus) {
        for line in s.lines() {
            let line = line.trim();
            if line.is_empty() || line.starts_with('#') {
                continue;
            }
            match ty_of_sexp(line) {
                Some(t) => {
                    run.out.count("source:corpus");
                    run.one(&t, 0, &[20, 200]);
                }
                None => run.out.count("skipped:bad-corpus-line"),
            }
        }
    }

    let n = if args.thorough() { 12000 } else { 1500 };
    let mut g = Gen { rng: gv::rng::Rng::new(args.seed, 18), inner_variant: 12 };
    let mut wr = gv::rng::Rng::new(args.seed, 1801);
    for i in 0..n {
        let budget = if args.thorough() { 4 + (i % 17) } else { 3 + (i % 10) };
        let t = g.top(budget);
        let split = wr.next();
        let widths = [20 + wr.below(30) as usize, 20 + wr.below(181) as usize];
        run.out.count("source:generated");
        run.one(&t, split, &widths);
    }
    out.finish();
}
