//! C01b: ties the Lean model of core IR / bytecode compiler / VM (`GluonModel.Core`,
//! `GluonModel.Compile`, `GluonModel.Bytecode`) to the real pipeline.
//!
//! For every generated program (shared generator `gv::surf::Gen`, implicit prelude off,
//! optimisation off and on) a child process
//!   * compiles the program with the real pipeline (`Compileable::compile`), obtaining the real
//!     core IR (`CompileValue.core_expr`) and the real `CompiledModule`,
//!   * serialises both (own serialiser over the public types; everything the real compiler reads
//!     from *types* — variant tags, record field order, polymorphic-record flags — is resolved
//!     here with the same library calls `compiler.rs` uses, and travels as plain numbers),
//!   * runs that very `CompileValue` and reports the canonical outcome.
//! The parent then emits three correspondence cases per program and setting:
//!   (a) `evalcore`  : GluonModel.Core.evalCore(real core IR)         == real outcome
//!   (b) `compile`   : GluonModel.Compile.compileModule(real core IR) == real bytecode (exact)
//!   (c) `runbc`     : GluonModel.Bytecode.run(real bytecode)         == real outcome
use gluon::base::ast::{EmptyEnv, Typed};
use gluon::base::resolve;
use gluon::base::symbol::Symbol;
use gluon::base::types::{arg_iter, ArcType, BuiltinType, NullInterner, Type, TypeExt};
use gluon::compiler_pipeline::{Compileable, Executable};
use gluon::vm::api::ValueRef;
use gluon::vm::compiler::{CompiledFunction, CompiledModule};
use gluon::vm::core::{Alternative, Closure, Expr, Literal, Named, Pattern};
use gluon::vm::types::Instruction;
use gluon::{Thread, ThreadExt};
use gv::surf::{self, Gen};
use gv::{quote, Args, Out};
use std::collections::HashMap;
use std::fmt::Write as _;
use std::time::Duration;

// ---------------------------------------------------------------------------------------------
// Symbols: identity is pointer identity (base/src/symbol.rs `impl PartialEq for SymbolRef`), so
// every distinct pointer gets its own number, in first-seen order.

#[derive(Default)]
struct Namer {
    ids: HashMap<usize, usize>,
    /// constructs outside the fragment `GluonModel.Compile` models (the program is then not sent
    /// to the `compile` correspondence, and counted)
    outside: Vec<&'static str>,
}

const PRIM_INSTRS: &[&str] = &[
    "#Int+", "#Int-", "#Int*", "#Int/", "#Int<", "#Int==", "#Char<", "#Char==", "#Byte+", "#Byte-",
    "#Byte*", "#Byte/", "#Byte<", "#Byte==", "#Float+", "#Float-", "#Float*", "#Float/", "#Float<",
    "#Float==",
];

impl Namer {
    fn sym(&mut self, s: &Symbol) -> String {
        // globals are looked up by name (`globals.find_var`), whatever symbol object names them
        if s.is_global() {
            return quote(&format!("{}~0", s.as_str()));
        }
        let p = s.as_str().as_ptr() as usize;
        let n = self.ids.len() + 1;
        let k = *self.ids.entry(p).or_insert(n);
        // core/mod.rs:268 names binder variables after an address: keep the output deterministic
        let name = s.as_str();
        let name = if name.starts_with("bind_arg0x") { "bind_arg" } else { name };
        quote(&format!("{}~{}", name, k))
    }
}

fn empty_env() -> EmptyEnv<Symbol> {
    EmptyEnv::default()
}

// ---------------------------------------------------------------------------------------------
// Core IR -> S-expression

fn lit_sexp(l: &Literal) -> String {
    match l {
        Literal::Int(i) => format!("(ci {})", i),
        Literal::Byte(b) => format!("(cb {})", b),
        Literal::Float(f) => format!("(cf {})", f.into_inner().to_bits()),
        Literal::String(s) => format!("(cs {})", quote(s)),
        Literal::Char(c) => format!("(cc {})", *c as u32),
    }
}

/// compiler.rs:560 find_resolved_tag
fn resolved_tag(typ: &ArcType, ctor: &Symbol) -> String {
    match **typ {
        Type::Variant(ref row) => {
            let mut iter = row.row_iter();
            match iter.position(|f| f.name.name_eq(ctor)) {
                Some(index) => {
                    for _ in iter.by_ref() {}
                    if **iter.current_type() == Type::EmptyRow {
                        format!("(tag {})", index)
                    } else {
                        format!("(poly {})", quote(ctor.as_ref()))
                    }
                }
                None => "none".into(),
            }
        }
        _ => "none".into(),
    }
}

/// The `Data` arm of compiler.rs:921
fn data_kind(n: &mut Namer, id: &gluon::base::ast::TypedIdent<Symbol>) -> String {
    let env = empty_env();
    let typ = resolve::remove_aliases_cow(&env, &mut NullInterner, id.typ.remove_forall());
    match **typ.remove_forall() {
        Type::Record(_) => {
            let mut s = String::from("(rec");
            for f in typ.row_iter() {
                s.push(' ');
                s.push_str(&n.sym(&f.name));
            }
            s.push(')');
            s
        }
        Type::App(ref array, _) if **array == Type::Builtin(BuiltinType::Array) => "arr".into(),
        Type::Variant(_) => {
            // find_tag: remove aliases again, then find_resolved_tag
            let t2 = resolve::remove_aliases_cow(&env, &mut NullInterner, &typ);
            format!("(var {})", resolved_tag(&t2, &id.name))
        }
        _ => "bad".into(),
    }
}

/// compile_let_pattern (compiler.rs:1035) reads from the *scrutinee's* type: the number of
/// fields, whether the row is open, and (find_field, compiler.rs:537) the index of each field.
fn record_pat(
    n: &mut Namer,
    scrut_typ: &ArcType,
    fields: &[(gluon::base::ast::TypedIdent<Symbol>, Option<Symbol>)],
) -> String {
    let env = empty_env();
    let typ = resolve::remove_aliases(&env, &mut NullInterner, scrut_typ.remove_forall().clone());
    let typ = typ.remove_forall();
    match **typ {
        Type::Record(_) => {}
        _ => return "(pr-bad)".into(),
    }
    let mut field_iter = typ.row_iter();
    let number_of_fields = field_iter.by_ref().count();
    let is_polymorphic = **field_iter.current_type() != Type::EmptyRow;
    let mut s = format!("(pr {} {} (", number_of_fields, if is_polymorphic { 1 } else { 0 });
    for (f, bind) in fields {
        // find_field
        let t2 = resolve::remove_aliases_cow(&env, &mut NullInterner, typ);
        let mut iter = t2.remove_forall().row_iter();
        let idx = iter.by_ref().position(|x| x.name.name_eq(&f.name));
        let binder = bind.as_ref().unwrap_or(&f.name);
        let _ = write!(
            s,
            "({} {} {})",
            quote(f.name.as_ref()),
            match idx {
                Some(i) => format!("{}", i),
                None => "none".into(),
            },
            n.sym(binder)
        );
    }
    s.push_str(") (");
    // the Split path: one stack variable per field of the type, named after the first pattern
    // field with that name, if any
    for tf in typ.row_iter() {
        match fields.iter().find(|tup| tup.0.name.name_eq(&tf.name)) {
            Some((name, bind)) => {
                let b = bind.as_ref().unwrap_or(&name.name);
                s.push_str(&n.sym(b));
            }
            None => s.push_str("none"),
        }
        s.push(' ');
    }
    s.push_str("))");
    s
}

fn expr_sexp(n: &mut Namer, e: &Expr, out: &mut String) {
    match e {
        Expr::Const(l, _) => out.push_str(&lit_sexp(l)),
        Expr::Ident(id, _) => {
            let _ = write!(out, "(id {})", n.sym(&id.name));
        }
        Expr::Call(f, args) => {
            if let Expr::Ident(id, _) = f {
                let nm = id.name.as_str();
                if (nm == "&&" || nm == "||" || nm.starts_with('#'))
                    && !((nm == "&&" || nm == "||" || PRIM_INSTRS.contains(&nm)) && args.len() == 2)
                {
                    n.outside.push("primitive-call");
                }
            }
            out.push_str("(call ");
            expr_sexp(n, f, out);
            for a in args.iter() {
                out.push(' ');
                expr_sexp(n, a, out);
            }
            out.push(')');
        }
        Expr::Data(id, args, _) => {
            let _ = write!(out, "(data {}", data_kind(n, id));
            for a in args.iter() {
                out.push(' ');
                expr_sexp(n, a, out);
            }
            out.push(')');
        }
        Expr::Let(lb, body) => match &lb.expr {
            Named::Expr(b) => {
                let _ = write!(out, "(let {} ", n.sym(&lb.name.name));
                expr_sexp(n, b, out);
                out.push(' ');
                expr_sexp(n, body, out);
                out.push(')');
            }
            Named::Recursive(cs) => {
                out.push_str("(letrec (");
                for c in cs {
                    closure_sexp(n, c, out);
                }
                out.push_str(") ");
                expr_sexp(n, body, out);
                out.push(')');
            }
        },
        Expr::Match(scrut, alts) => {
            out.push_str("(match ");
            expr_sexp(n, scrut, out);
            let env = empty_env();
            // compiler.rs:800
            let typ = alts[0].pattern.env_type_of(&env);
            let typ = resolve::remove_aliases_cow(&env, &mut NullInterner, typ.remove_forall());
            for alt in alts.iter() {
                alt_sexp(n, scrut, &typ, alt, out);
            }
            out.push(')');
        }
        Expr::Cast(e, _) => {
            out.push_str("(cast ");
            expr_sexp(n, e, out);
            out.push(')');
        }
    }
}

fn closure_sexp(n: &mut Namer, c: &Closure, out: &mut String) {
    if c.args.is_empty() {
        n.outside.push("rec-value");
    }
    let _ = write!(out, "({} (", n.sym(&c.name.name));
    for (i, a) in c.args.iter().enumerate() {
        if i > 0 {
            out.push(' ');
        }
        out.push_str(&n.sym(&a.name));
    }
    out.push_str(") ");
    expr_sexp(n, c.expr, out);
    out.push(')');
}

fn alt_sexp(n: &mut Namer, scrut: &Expr, typ: &ArcType, alt: &Alternative, out: &mut String) {
    out.push_str(" (");
    match &alt.pattern {
        Pattern::Constructor(id, args) => {
            let _ = write!(out, "(pc {} (", resolved_tag(typ, &id.name));
            for (i, a) in args.iter().enumerate() {
                if i > 0 {
                    out.push(' ');
                }
                out.push_str(&n.sym(&a.name));
            }
            out.push_str("))");
        }
        Pattern::Record { fields, .. } => {
            let env = empty_env();
            let st = scrut.env_type_of(&env);
            out.push_str(&record_pat(n, &st, fields));
        }
        Pattern::Ident(id) => {
            let _ = write!(out, "(pi {})", n.sym(&id.name));
        }
        Pattern::Literal(l) => {
            let _ = write!(out, "(pl {})", lit_sexp(l));
        }
    }
    out.push(' ');
    expr_sexp(n, alt.expr, out);
    out.push(')');
}

// ---------------------------------------------------------------------------------------------
// The fragment of the proved rung (`GluonModel.Proofs.Compile.inF`), re-implemented here over the
// real IR so that the evidence can say how many real function bodies the theorem
// `compile_correct_F1` speaks about; the driver answers the same question with `inF` itself and
// the two counts are compared like any other correspondence case.

/// `patOk` of a record pattern (closed row): on the `GetOffset` path of compile_let_pattern every
/// field must be found in the type; on the `Split` path the pattern's bindings and the variables
/// registered per type field must denote the same fields (`splitOk` of the Lean side, computed
/// here on the real symbols).
fn record_pat_in_frag(
    scrut_typ: &ArcType,
    fields: &[(gluon::base::ast::TypedIdent<Symbol>, Option<Symbol>)],
) -> bool {
    let env = empty_env();
    let typ = resolve::remove_aliases(&env, &mut NullInterner, scrut_typ.remove_forall().clone());
    let typ = typ.remove_forall();
    match **typ {
        Type::Record(_) => {}
        _ => return false,
    }
    let mut field_iter = typ.row_iter();
    let n = field_iter.by_ref().count();
    let poly = **field_iter.current_type() != Type::EmptyRow;
    if poly {
        return false;
    }
    // index of every pattern field in the type
    let mut idx = vec![];
    for (f, _) in fields {
        match typ.row_iter().position(|x| x.name.name_eq(&f.name)) {
            Some(i) => idx.push(i),
            None => return false,
        }
    }
    if fields.is_empty() || (n > 4 && n / fields.len() >= 4) {
        return true;
    }
    // Split path: one variable per field of the type (first pattern field of that name)
    let binder = |k: usize| fields[k].1.as_ref().unwrap_or(&fields[k].0.name);
    let names: Vec<Option<&Symbol>> = typ
        .row_iter()
        .map(|tf| fields.iter().position(|t| t.0.name.name_eq(&tf.name)).map(|k| binder(k)))
        .collect();
    for k in 0..fields.len() {
        let b = binder(k);
        // slot the compiler's scope resolves `b` to: the last type field registered under `b`
        let slot = names.iter().rposition(|x| x.map_or(false, |s| s == b));
        // field the pattern binds `b` to: the last pattern field with that binder
        let last = (0..fields.len()).rev().find(|j| binder(*j) == b).map(|j| idx[j]);
        if slot != last {
            return false;
        }
    }
    true
}

/// Fragment membership of `e`: `.0` for F1 (`inF []`), `.1` for F2 relative to `phi` (`inF Φ`:
/// the function variables in scope — names bound by enclosing `Named::Recursive` groups to
/// closures with at least one parameter — with their arity). `counts`: (function bodies seen,
/// bodies inside F1, bodies inside F2).
fn in_frag(e: &Expr, phi: &Vec<(usize, usize)>, counts: &mut (u64, u64, u64, u64)) -> (bool, bool) {
    let env = empty_env();
    let key = |s: &Symbol| s.as_str().as_ptr() as usize;
    let and = |a: (bool, bool), b: (bool, bool)| (a.0 && b.0, a.1 && b.1);
    match e {
        Expr::Const(..) => (true, true),
        // a function variable may only be the head of a call
        Expr::Ident(id, _) => (true, !phi.iter().any(|p| p.0 == key(&id.name))),
        Expr::Cast(e, _) => in_frag(e, phi, counts),
        Expr::Let(lb, body) => match &lb.expr {
            Named::Expr(b) => {
                let a = in_frag(b, phi, counts);
                let c = in_frag(body, phi, counts);
                and(a, c)
            }
            Named::Recursive(cs) => {
                let mut phi2 = phi.clone();
                for c in cs {
                    if !c.args.is_empty() {
                        phi2.push((key(&c.name.name), c.args.len()));
                    }
                }
                for c in cs {
                    let ok = in_frag(c.expr, &phi2, counts);
                    counts.0 += 1;
                    if ok.0 {
                        counts.1 += 1;
                    }
                    if ok.1 {
                        counts.2 += 1;
                    }
                    if in_f3(c.expr, &phi2) {
                        counts.3 += 1;
                    }
                }
                in_frag(body, &phi2, counts);
                (false, false)
            }
        },
        Expr::Call(f, args) => {
            let mut all = (true, true);
            for a in args.iter() {
                all = and(all, in_frag(a, phi, counts));
            }
            let head = match f {
                Expr::Ident(id, _) => {
                    let nm = id.name.as_str();
                    if nm == "&&" || nm == "||" || nm.starts_with('#') {
                        let ok = (nm == "&&" || nm == "||" || PRIM_INSTRS.contains(&nm)) && args.len() == 2;
                        (ok, ok)
                    } else {
                        (false, phi.iter().rev().find(|p| p.0 == key(&id.name)).map_or(false, |p| p.1 == args.len()))
                    }
                }
                other => {
                    in_frag(other, phi, counts);
                    (false, false)
                }
            };
            and(head, all)
        }
        Expr::Data(id, args, _) => {
            let mut all = (true, true);
            for a in args.iter() {
                all = and(all, in_frag(a, phi, counts));
            }
            let mut dummy = Namer::default();
            let k = data_kind(&mut dummy, id);
            let kind_ok = k.starts_with("(rec") || k == "arr" || k.starts_with("(var (tag");
            and((kind_ok, kind_ok), all)
        }
        Expr::Match(scrut, alts) => {
            let mut all = in_frag(scrut, phi, counts);
            let typ = alts[0].pattern.env_type_of(&env);
            let typ = resolve::remove_aliases_cow(&env, &mut NullInterner, typ.remove_forall());
            for alt in alts.iter() {
                let pat_ok = match &alt.pattern {
                    Pattern::Constructor(id, _) => resolved_tag(&typ, &id.name).starts_with("(tag"),
                    Pattern::Ident(_) => true,
                    Pattern::Literal(Literal::Int(_))
                    | Pattern::Literal(Literal::Char(_))
                    | Pattern::Literal(Literal::Byte(_)) => true,
                    Pattern::Record { fields, .. } => {
                        alts.len() == 1 && record_pat_in_frag(&scrut.env_type_of(&env), fields)
                    }
                    _ => false,
                };
                let b = in_frag(alt.expr, phi, counts);
                all = and(all, and((pat_ok, pat_ok), b));
            }
            all
        }
    }
}

/// F3 (partial) membership of a function body (`GluonModel.Proofs.Compile.inF3`, without its
/// well-scopedness side condition, which holds for checked programs and is evaluated by the
/// driver): an F2 expression preceded by a chain of one-element `Named::Recursive` lambda bindings
/// (body in F2 relative to the enclosing function variables and the bound name itself) and plain
/// `let`s with an F2 right-hand side.
fn in_f3(e: &Expr, phi: &Vec<(usize, usize)>) -> bool {
    let key = |s: &Symbol| s.as_str().as_ptr() as usize;
    let mut dummy = (0u64, 0u64, 0u64, 0u64);
    match e {
        Expr::Let(lb, body) => match &lb.expr {
            Named::Recursive(cs) => {
                if cs.len() != 1 || cs[0].args.is_empty() {
                    return false;
                }
                let c = &cs[0];
                let f = key(&c.name.name);
                if phi.iter().any(|p| p.0 == f) {
                    return false;
                }
                let mut phi2 = phi.clone();
                phi2.push((f, c.args.len()));
                if c.args.iter().any(|a| phi2.iter().any(|p| p.0 == key(&a.name))) {
                    return false;
                }
                in_frag(c.expr, &phi2, &mut dummy).1 && in_f3(body, &phi2)
            }
            Named::Expr(b) => {
                if in_frag(e, phi, &mut dummy).1 {
                    return true;
                }
                let x = key(&lb.name.name);
                !phi.iter().any(|p| p.0 == x) && in_frag(b, phi, &mut dummy).1 && in_f3(body, phi)
            }
        },
        Expr::Match(scrut, alts) => {
            if in_frag(e, phi, &mut dummy).1 {
                return true;
            }
            if alts.len() != 1 {
                return false;
            }
            match &alts[0].pattern {
                Pattern::Record { fields, .. } => {
                    let env = empty_env();
                    let fresh = fields.iter().all(|f| {
                        let b = key(f.1.as_ref().unwrap_or(&f.0.name));
                        !phi.iter().any(|p| p.0 == b)
                    });
                    in_frag(scrut, phi, &mut dummy).1
                        && record_pat_in_frag(&scrut.env_type_of(&env), fields)
                        && fresh
                        && in_f3(alts[0].expr, phi)
                }
                _ => false,
            }
        }
        _ => in_frag(e, phi, &mut dummy).1,
    }
}

// ---------------------------------------------------------------------------------------------
// Bytecode -> S-expression

fn instr_sexp(i: &Instruction) -> String {
    use Instruction::*;
    match *i {
        PushInt(i) => format!("(PushInt {})", i),
        PushByte(b) => format!("(PushByte {})", b),
        PushFloat(f) => format!("(PushFloat {})", f64::from(f).to_bits()),
        PushString(i) => format!("(PushString {})", i),
        PushUpVar(i) => format!("(PushUpVar {})", i),
        Push(i) => format!("(Push {})", i),
        Call(n) => format!("(Call {})", n),
        TailCall(n) => format!("(TailCall {})", n),
        ConstructVariant { tag, args } => format!("(ConstructVariant {} {})", tag, args),
        ConstructPolyVariant { tag, args } => format!("(ConstructPolyVariant {} {})", tag, args),
        NewVariant { tag, args } => format!("(NewVariant {} {})", tag, args),
        NewRecord { record, args } => format!("(NewRecord {} {})", record, args),
        CloseData { index } => format!("(CloseData {})", index),
        ConstructRecord { record, args } => format!("(ConstructRecord {} {})", record, args),
        ConstructArray(n) => format!("(ConstructArray {})", n),
        GetOffset(i) => format!("(GetOffset {})", i),
        GetField(i) => format!("(GetField {})", i),
        Split => "(Split)".into(),
        TestTag(t) => format!("(TestTag {})", t),
        TestPolyTag(i) => format!("(TestPolyTag {})", i),
        Jump(i) => format!("(Jump {})", i),
        CJump(i) => format!("(CJump {})", i),
        Pop(n) => format!("(Pop {})", n),
        Slide(n) => format!("(Slide {})", n),
        MakeClosure { function_index, upvars } => format!("(MakeClosure {} {})", function_index, upvars),
        NewClosure { function_index, upvars } => format!("(NewClosure {} {})", function_index, upvars),
        CloseClosure(n) => format!("(CloseClosure {})", n),
        AddInt => "(AddInt)".into(),
        SubtractInt => "(SubtractInt)".into(),
        MultiplyInt => "(MultiplyInt)".into(),
        DivideInt => "(DivideInt)".into(),
        IntLT => "(IntLT)".into(),
        IntEQ => "(IntEQ)".into(),
        AddByte => "(AddByte)".into(),
        SubtractByte => "(SubtractByte)".into(),
        MultiplyByte => "(MultiplyByte)".into(),
        DivideByte => "(DivideByte)".into(),
        ByteLT => "(ByteLT)".into(),
        ByteEQ => "(ByteEQ)".into(),
        AddFloat => "(AddFloat)".into(),
        SubtractFloat => "(SubtractFloat)".into(),
        MultiplyFloat => "(MultiplyFloat)".into(),
        DivideFloat => "(DivideFloat)".into(),
        FloatLT => "(FloatLT)".into(),
        FloatEQ => "(FloatEQ)".into(),
        Return => "(Return)".into(),
    }
}

fn function_sexp(n: &mut Namer, f: &CompiledFunction, out: &mut String) {
    let _ = write!(out, "(fn {} (", f.args);
    for (k, i) in f.instructions.iter().enumerate() {
        if k > 0 {
            out.push(' ');
        }
        out.push_str(&instr_sexp(i));
    }
    out.push_str(") (");
    for (k, s) in f.strings.iter().enumerate() {
        if k > 0 {
            out.push(' ');
        }
        out.push_str(&quote(s));
    }
    out.push_str(") (");
    for r in &f.records {
        out.push('(');
        for (k, s) in r.iter().enumerate() {
            if k > 0 {
                out.push(' ');
            }
            out.push_str(&n.sym(s));
        }
        out.push(')');
    }
    out.push_str(") (");
    for g in &f.inner_functions {
        function_sexp(n, g, out);
    }
    out.push_str("))");
}

fn module_sexp(n: &mut Namer, m: &CompiledModule) -> String {
    let mut out = String::from("(module (");
    for (k, g) in m.module_globals.iter().enumerate() {
        if k > 0 {
            out.push(' ');
        }
        out.push_str(&n.sym(g));
    }
    out.push_str(") ");
    function_sexp(n, &m.function, &mut out);
    out.push(')');
    out
}

// ---------------------------------------------------------------------------------------------
// Globals the program refers to (`std.prim`, `std.types`): a model value for each. Functions
// are opaque to the host API; they travel as `(ext "<global>.<field>" <arity>)` with the arity
// read off the field's type.

fn count_args(t: &ArcType) -> usize {
    let env = empty_env();
    let t = resolve::remove_aliases_cow(&env, &mut NullInterner, t.remove_forall());
    arg_iter(t.remove_forall()).count()
}

fn global_value(vm: &Thread, name: &str) -> String {
    let env = vm.get_env();
    let (value, typ) = match env.get_binding(name) {
        Ok(x) => x,
        Err(_) => return "(unknown)".into(),
    };
    let e = empty_env();
    let typ = resolve::remove_aliases_cow(&e, &mut NullInterner, typ.remove_forall());
    let names: Vec<(String, ArcType)> =
        typ.remove_forall().row_iter().map(|f| (f.name.as_ref().to_string(), f.typ.clone())).collect();
    fn go(v: gluon::vm::Variants, path: &str, arity: usize, names: Option<&[(String, ArcType)]>, depth: usize) -> String {
        match v.as_ref() {
            ValueRef::Int(i) => format!("(int {})", i),
            ValueRef::Byte(b) => format!("(byte {})", b),
            ValueRef::Float(f) => format!("(float {})", f.to_bits()),
            ValueRef::String(s) => format!("(str {})", quote(s)),
            ValueRef::Data(d) => {
                let mut s = String::new();
                match names {
                    Some(ns) if ns.len() == d.len() => {
                        s.push_str("(rec (");
                        for (k, (nm, _)) in ns.iter().enumerate() {
                            if k > 0 {
                                s.push(' ');
                            }
                            s.push_str(&quote(nm));
                        }
                        s.push(')');
                        for (k, (nm, t)) in ns.iter().enumerate() {
                            s.push(' ');
                            s.push_str(&go(
                                d.get_variant(k).unwrap(),
                                &format!("{}.{}", path, nm),
                                count_args(t),
                                None,
                                depth + 1,
                            ));
                        }
                        s.push(')');
                    }
                    _ => {
                        let _ = write!(s, "(data {}", d.tag());
                        if depth < 3 {
                            for k in 0..d.len() {
                                s.push(' ');
                                s.push_str(&go(d.get_variant(k).unwrap(), &format!("{}.{}", path, k), 0, None, depth + 1));
                            }
                        }
                        s.push(')');
                    }
                }
                s
            }
            _ => format!("(ext {} {})", quote(path), arity),
        }
    }
    go(value.get_variant(), name, count_args(&typ), Some(&names), 0)
}

// ---------------------------------------------------------------------------------------------

/// One program through the real pipeline: dumps + outcome, as a JSON object string.
fn process(vm: &Thread, name: &str, src: &str) -> String {
    let compiled = gv::catch(|| {
        futures::executor::block_on(src.compile(
            &mut vm.module_compiler(&mut vm.get_database()),
            vm,
            name,
            src,
            None,
        ))
    });
    let cv = match compiled {
        Err(p) => {
            return serde_json::json!({"result": format!("panic {}", quote(&p.chars().take(80).collect::<String>()))})
                .to_string()
        }
        Ok(Err(e)) => {
            return serde_json::json!({"result": surf::classify_error(&format!("{}", e))}).to_string()
        }
        Ok(Ok(cv)) => cv,
    };
    let mut n = Namer::default();
    let mut core = String::new();
    expr_sexp(&mut n, cv.core_expr.value.expr(), &mut core);
    for (marker, why) in [
        ("(var none)", "poly-variant"),
        ("(var (poly", "poly-variant"),
        ("(pc none", "poly-variant"),
        ("(pc (poly", "poly-variant"),
        ("(pr-bad)", "untyped-record-pattern"),
        ("(data bad", "untyped-data"),
    ] {
        if core.contains(marker) {
            n.outside.push(why);
        }
    }
    let outside = n.outside.first().map(|s| s.to_string());
    // compiler.rs:866-868: the index of `string_eq` in the type of `std.prim`
    let se_idx = vm
        .get_env()
        .get_binding("std.prim")
        .ok()
        .and_then(|(_, typ)| {
            let e = empty_env();
            let typ = resolve::remove_aliases_cow(&e, &mut NullInterner, typ.remove_forall()).into_owned();
            let i = typ.remove_forall().row_iter().position(|f| f.name.declared_name() == "string_eq");
            i
        })
        .unwrap_or(0);
    let bc = module_sexp(&mut n, &cv.module);
    let mut frag = (0u64, 0u64, 0u64, 0u64);
    let top = in_frag(cv.core_expr.value.expr(), &vec![], &mut frag);
    if in_f3(cv.core_expr.value.expr(), &vec![]) {
        frag.3 += 1;
    }
    frag.0 += 1;
    if top.0 {
        frag.1 += 1;
    }
    if top.1 {
        frag.2 += 1;
    }
    let mut globals = String::from("(");
    for g in &cv.module.module_globals {
        let _ = write!(globals, "({} {})", n.sym(g), global_value(vm, g.definition_name()));
    }
    globals.push(')');
    let nfun = {
        fn count(f: &CompiledFunction) -> usize {
            1 + f.inner_functions.iter().map(count).sum::<usize>()
        }
        count(&cv.module.function)
    };
    let r = gv::catch(|| {
        futures::executor::block_on(cv.run_expr(
            &mut vm.module_compiler(&mut vm.get_database()),
            vm.root_thread(),
            name,
            src,
            (),
        ))
    });
    let result = match r {
        Err(p) => format!("panic {}", quote(&p.chars().take(80).collect::<String>())),
        Ok(Ok(v)) => format!("(ok {})", surf::canon_value(v.value.get_variant())),
        Ok(Err(e)) => surf::classify_error(&format!("{}", e)),
    };
    serde_json::json!({"core": core, "bc": bc, "globals": globals, "result": result, "nfun": nfun, "outside": outside, "se_idx": se_idx, "frag_total": frag.0, "frag_in": frag.1, "frag_in2": frag.2, "frag_in3": frag.3}).to_string()
}

fn child(optimize: bool) {
    let vm = gv::vm::new_vm();
    gv::vm::settings(&vm, false, optimize);
    let mut i = 0;
    gv::child::serve(|src| {
        i += 1;
        process(&vm, &format!("p{}", i), src)
    });
}

/// `gv::child::run` writes the whole input before it starts reading the child's output, and the
/// dumps coming back are large: keep each batch's input below the pipe buffer size so that the
/// write never waits for a child that is itself waiting for its output to be read.
fn batch_small(mode: &str, inputs: &[String]) -> Vec<Result<String, String>> {
    let mut out = Vec::with_capacity(inputs.len());
    let mut start = 0;
    while start < inputs.len() {
        let mut end = start;
        let mut bytes = 0;
        while end < inputs.len() && (end == start || bytes + inputs[end].len() * 2 + 16 < 40_000) {
            bytes += inputs[end].len() * 2 + 16;
            end += 1;
        }
        let n = end - start;
        out.extend(gv::child::batch(&["--child", mode], &inputs[start..end], n, Duration::from_secs(300)));
        start = end;
    }
    out
}

fn main() {
    gv::quiet_panics();
    let a: Vec<String> = std::env::args().collect();
    if a.get(1).map(|s| s.as_str()) == Some("--child") {
        child(a.get(2).map(|s| s.as_str()) == Some("opt"));
        return;
    }
    if a.get(1).map(|s| s.as_str()) == Some("--dump") {
        // debugging aid: c01b --dump file.glu [opt]
        let src = std::fs::read_to_string(&a[2]).unwrap();
        let vm = gv::vm::new_vm();
        gv::vm::settings(&vm, false, a.get(3).map(|s| s.as_str()) == Some("opt"));
        let r = process(&vm, "dump", &src);
        let v: serde_json::Value = serde_json::from_str(&r).unwrap();
        for k in ["core", "bc", "globals", "result"] {
            println!("{}: {}", k, v[k].as_str().unwrap_or("-"));
        }
        return;
    }
    let args = Args::parse();
    let mut out = Out::new(&args.out);
    if let Some(rp) = &args.replay {
        let v: serde_json::Value = serde_json::from_str(&std::fs::read_to_string(rp).unwrap()).unwrap();
        let src = v["case"]["source"].as_str().unwrap().to_string();
        println!("{}", src);
        for mode in ["noopt", "opt"] {
            let r = gv::child::batch(&["--child", mode], &[src.clone()], 1, Duration::from_secs(60));
            println!("{} => {:?}", mode, r[0]);
        }
        out.finish();
        return;
    }
    let n = if args.thorough() { 4000 } else { 300 };
    // the same stream as c01 (same salt), so the programs are the ones compared with Surf.eval
    let mut rng = gv::rng::Rng::new(args.seed, 1);
    let mut progs = vec![];
    for i in 0..n {
        let mut g = Gen::new(&mut rng);
        let depth = 2 + (i % 4) as u32;
        let (e, _t) = g.program(depth);
        let src = surf::program_text(&e);
        progs.push((e, src));
    }
    let inputs: Vec<String> = progs.iter().map(|p| p.1.clone()).collect();
    // outcome without optimisation, to notice (and only count: that is C04's property, not
    // C01's) programs whose outcome the optimiser changes
    let mut first_outcome: Vec<Option<String>> = vec![None; progs.len()];
    for mode in ["noopt", "opt"] {
        let results = batch_small(mode, &inputs);
        for (i, ((e, src), res)) in progs.iter().zip(results.iter()).enumerate() {
            let v: serde_json::Value = match res {
                Ok(r) => serde_json::from_str(r).unwrap_or(serde_json::json!({"result": "abort bad-json"})),
                Err(class) => serde_json::json!({"result": format!("abort {}", class)}),
            };
            let result = v["result"].as_str().unwrap_or("abort none").to_string();
            let class =
                result.split(' ').next().unwrap().trim_matches(|c| c == '(' || c == ')').to_string();
            out.count(&format!("{}:outcome:{}", mode, class));
            if mode == "noopt" {
                first_outcome[i] = Some(result.clone());
            } else if let Some(r0) = &first_outcome[i] {
                if *r0 != result {
                    out.count("note:optimisation-changes-outcome(C04)");
                    out.sample(serde_json::json!({"note": "optimisation changes the outcome", "source": src,
                        "noopt": r0, "opt": result}));
                }
            }
            if class == "err:static" {
                out.count("skipped:static-error");
                continue;
            }
            if class == "panic" || class == "abort" || class.starts_with("wrong") {
                // internal failures of the pipeline are reported by c01's oracle (same stream);
                // no model outcome to compare with
                out.count("skipped:internal-failure(reported-by-c01)");
                continue;
            }
            let (core, bc, globals) = match (v["core"].as_str(), v["bc"].as_str(), v["globals"].as_str()) {
                (Some(a), Some(b), Some(c)) => (a, b, c),
                _ => {
                    out.count("skipped:no-dump");
                    continue;
                }
            };
            let cs = surf::constructs(e);
            if cs.len() >= 3 {
                let mut key: Vec<&str> = cs.iter().cloned().collect();
                key.push(mode);
                key.push(&class);
                out.class(key.join(","));
            }
            out.add("functions", v["nfun"].as_u64().unwrap_or(0));
            if i % 997 == 3 && mode == "noopt" {
                out.sample(serde_json::json!({"source": src, "impl": result, "core": core}));
            }
            out.case(&format!("evalcore {} {}", globals, core), &result);
            match v["outside"].as_str() {
                Some(why) => out.count(&format!("skipped:compile:{}", why)),
                None => {
                    out.add("functions-compiled-exactly", v["nfun"].as_u64().unwrap_or(0));
                    out.count("programs-compiled-exactly");
                    out.case(&format!("compile {} {}", v["se_idx"].as_u64().unwrap_or(0), core), bc);
                }
            }
            out.case(&format!("runbc {} {}", globals, bc), &result);
            let (ft, fi, f2, f3) = (
                v["frag_total"].as_u64().unwrap_or(0),
                v["frag_in"].as_u64().unwrap_or(0),
                v["frag_in2"].as_u64().unwrap_or(0),
                v["frag_in3"].as_u64().unwrap_or(0),
            );
            out.add("function-bodies", ft);
            out.add("function-bodies-in-proved-fragment-F1", fi);
            out.add("function-bodies-in-proved-fragment-F2(calls-of-known-closures)", f2);
            out.add("function-bodies-in-proved-fragment-F3partial(closure-creation-chains)", f3);
            out.case(&format!("fragcount {}", core), &format!("({} {} {} {})", ft, fi, f2, f3));
        }
    }
    out.finish();
}
