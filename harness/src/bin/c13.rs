//! C13 — heaps are isolated: a value moved between threads arrives equal (sharing and cycles
//! preserved), stays valid after the sender is collected / dropped, and no heap ever holds a
//! pointer into a heap that is neither itself nor an ancestor.
//!
//! One case = one child process: a VM with a thread tree of depth 3 (and an unrelated second VM),
//! a generated value built in a source thread, one transfer route (host `re_root`, host push as
//! a call argument, `std.channel` owned by a common ancestor, `re_root` into the unrelated VM),
//! then drops / collections of the threads involved in a generated order.
//!
//! * correspondence: the object graph below the source value (owner heap, kind, edges — taken
//!   through the cfg(gluon_verif) walk) goes to the Lean `deepClone`; the owner of every object
//!   below the received value and the sharing structure must be exactly what the model computes.
//! * oracle (model-independent): every pointer below any root goes to the same or an ancestor
//!   heap; the received value prints like the sent one and has an isomorphic object graph; it
//!   still does after the sender was collected and dropped; nothing below it was freed.
#[path = "c05/heapsnap.rs"]
mod heapsnap;
#[path = "c05/shapes.rs"]
mod shapes;

use gluon::vm::api::{FunctionRef, Hole, OpaqueValue, IO};
use gluon::{RootedThread, ThreadExt};
use gv::rng::Rng;
use gv::surf::canon_value;
use gv::{Args, Out};
use heapsnap::*;
use serde_json::{json, Value as J};
use std::collections::{BTreeSet, HashMap, HashSet};
use std::time::Duration;

type Any = OpaqueValue<RootedThread, Hole>;

/// Same walk as `GluonModel.GcHeap.below`: pre-order, edges left to right, `Thread` objects not
/// entered.
fn below(s: &Snap, root: usize) -> Vec<usize> {
    let mut vis: Vec<usize> = vec![];
    let mut seen = HashSet::new();
    let mut work = vec![root];
    while let Some(x) = work.pop() {
        if seen.contains(&x) {
            continue;
        }
        let o = match s.objs.get(&x) {
            Some(o) => o,
            None => continue,
        };
        seen.insert(x);
        vis.push(x);
        if !o.is_thread {
            for e in o.edges.iter().rev() {
                work.push(*e);
            }
        }
    }
    vis
}

fn new_root(before: &Snap, after: &Snap, thread_addr: usize) -> Option<usize> {
    let b = before.objs.get(&thread_addr).map(|o| o.edges.clone()).unwrap_or_default();
    let a = after.objs.get(&thread_addr).map(|o| o.edges.clone()).unwrap_or_default();
    let mut count: HashMap<usize, i64> = HashMap::new();
    for x in &a {
        *count.entry(*x).or_insert(0) += 1;
    }
    for x in &b {
        *count.entry(*x).or_insert(0) -= 1;
    }
    let mut extra: Vec<usize> = a.iter().cloned().filter(|x| count[x] > 0).collect();
    extra.dedup();
    if extra.len() == 1 {
        Some(extra[0])
    } else {
        None
    }
}

/// `((owner) (edge indices))…` of the graph below `root`, numbered in discovery order.
fn graph_sexp(s: &Snap, root: usize, vm_tag: usize, with_owner: bool) -> String {
    graph_sexp2(s, None, root, vm_tag, with_owner)
}

/// `other`: the snapshot of the source VM, to name the heap of an object the destination VM does
/// not own
fn graph_sexp2(s: &Snap, other: Option<&Snap>, root: usize, vm_tag: usize, with_owner: bool) -> String {
    let b = below(s, root);
    let idx: HashMap<usize, usize> = b.iter().enumerate().map(|(i, a)| (*a, i)).collect();
    let mut out = String::new();
    for a in &b {
        let o = &s.objs[a];
        let es: Vec<String> = if o.is_thread { vec![] } else { o.edges.iter().filter_map(|e| idx.get(e)).map(|i| i.to_string()).collect() };
        if with_owner {
            let ow = match (&o.owner, other.and_then(|x| x.objs.get(a)).and_then(|x| x.owner.clone())) {
                (Some(p), _) => tag_path(Some(p), vm_tag),
                (None, Some(p)) => p,
                (None, None) => vec![99],
            };
            out.push_str(&format!(" ({} ({}))", path_sexp(&ow), es.join(" ")));
        } else {
            out.push_str(&format!(" ({})", es.join(" ")));
        }
    }
    out
}

/// heap paths of the second VM start with 1 instead of 0; an object of no known heap is `(99)`
fn tag_path(p: Option<&[usize]>, vm_tag: usize) -> Path {
    match p {
        None => vec![99],
        Some(p) => {
            let mut p = p.to_vec();
            if !p.is_empty() {
                p[0] = vm_tag;
            }
            p
        }
    }
}

struct Vm {
    root: RootedThread,
    threads: Vec<(Path, RootedThread)>,
}

fn make_vm(tree: bool) -> Vm {
    let root = gv::vm::new_vm();
    gv::vm::settings(&root, false, false);
    root.get_database_mut().set_run_io(true);
    let _ = root.run_expr::<Any>("warm", &format!("{}let c = import! std.channel\n0", shapes::PRE));
    let mut threads = vec![(vec![0], root.clone())];
    if tree {
        let a = root.new_thread().unwrap();
        let b = root.new_thread().unwrap();
        let aa = a.new_thread().unwrap();
        let ba = b.new_thread().unwrap();
        threads.push((vec![0, 0], a));
        threads.push((vec![0, 1], b));
        threads.push((vec![0, 0, 0], aa));
        threads.push((vec![0, 1, 0], ba));
    } else {
        let a = root.new_thread().unwrap();
        threads.push((vec![0, 0], a));
    }
    Vm { root, threads }
}

fn thread_addr(s: &Snap, p: &[usize]) -> usize {
    s.thread_obj(p).unwrap()
}

fn relation(o: &[usize], p: &[usize]) -> &'static str {
    if o.is_empty() {
        "global-holds-thread-heap-value"
    } else if is_prefix(o, p) {
        "ancestor-holds-descendant-value"
    } else {
        "unrelated-heaps"
    }
}

fn one_case(input: &str) -> String {
    let inp: J = serde_json::from_str(input).unwrap();
    let seed = inp["seed"].as_u64().unwrap();
    let mut rng = Rng::new(seed, 0xC13);
    let fam: &'static str = shapes::FAMILIES.iter().find(|f| **f == inp["family"].as_str().unwrap()).cloned().unwrap();
    let route = inp["route"].as_str().unwrap().to_string();
    let si = inp["src"].as_u64().unwrap() as usize;
    let di = inp["dst"].as_u64().unwrap() as usize;
    let sh = shapes::shape_of(fam, &mut rng);
    let a = make_vm(true);
    let b = if route == "unrelated" { Some(make_vm(false)) } else { None };
    let mut res = serde_json::Map::new();
    let mut oracle: Vec<J> = vec![];
    macro_rules! done {
        ($status:expr) => {{
            res.insert("status".into(), json!($status));
            res.insert("oracle".into(), json!(oracle));
            let s = J::Object(res).to_string();
            std::mem::forget(a);
            std::mem::forget(b);
            return s;
        }};
    }
    let (spath, sthread) = a.threads[si].clone();
    let (dvm, dvm_tag): (&Vm, usize) = match &b {
        Some(b) => (b, 1),
        None => (&a, 0),
    };
    let (dpath, dthread) = dvm.threads[di % dvm.threads.len()].clone();
    // 1. build the value in the source thread
    // (a shape with `parent_cell`: the reference is made by the parent of the source thread and the
    // source thread builds the value around it)
    let mut parent_handle: Option<Any> = None;
    let mut builder: Option<FunctionRef<fn(Any) -> Any>> = None;
    if sh.parent_cell {
        if spath.len() < 2 {
            done!("no-parent");
        }
        let ppath = spath[..spath.len() - 1].to_vec();
        let pthread = a.threads.iter().find(|t| t.0 == ppath).unwrap().1.clone();
        match pthread.run_expr::<Any>("pc", &shapes::parent_cell_program(&mut rng)) {
            Ok((v, _)) => parent_handle = Some(v),
            Err(_) => done!("eval-error"),
        }
        match sthread.run_expr::<FunctionRef<fn(Any) -> Any>>("bld", &shapes::program(&sh)) {
            Ok((f, _)) => builder = Some(f),
            Err(e) => {
                res.insert("error".into(), json!(format!("{}", e).chars().take(200).collect::<String>()));
                done!("eval-error");
            }
        }
    }
    let s0 = snapshot(&a.root);
    let hv: Any = if let (Some(ph), Some(f)) = (&parent_handle, builder.as_mut()) {
        match f.call(ph.clone()) {
            Ok(v) => v,
            Err(_) => done!("eval-error"),
        }
    } else {
        match sthread.run_expr::<Any>("v", &shapes::program(&sh)) {
            Ok((v, _)) => v,
            Err(e) => {
                res.insert("error".into(), json!(format!("{}", e).chars().take(200).collect::<String>()));
                done!("eval-error");
            }
        }
    };
    let canon0 = canon_value(hv.get_variant());
    let s1 = snapshot(&a.root);
    let vroot = match new_root(&s0, &s1, thread_addr(&s1, &spath)) {
        Some(r) => r,
        None => done!("no-heap-root"),
    };
    let src_graph = graph_sexp(&s1, vroot, 0, false);
    // 2. transfer
    let d0 = snapshot(&dvm.root);
    let mut model_src = spath.clone();
    let mut model_dst = tag_path(Some(&dpath), dvm_tag);
    let w: Any = match route.as_str() {
        "reroot" | "unrelated" => match hv.clone().into_inner().re_root(dthread.clone()) {
            Ok(w) => Any::from_value(w),
            Err(_) => done!("refused"),
        },
        "push" => {
            let mut f: FunctionRef<fn(Any) -> Any> = match dthread.run_expr("idf", "\\x -> x") {
                Ok((f, _)) => f,
                Err(_) => done!("eval-error"),
            };
            match f.call(hv.clone()) {
                Ok(w) => w,
                Err(_) => done!("refused"),
            }
        }
        "channel" => {
            // owner: the deepest common ancestor-or-self of source and destination, or above it
            let mut common: Path = spath.iter().zip(dpath.iter()).take_while(|(x, y)| x == y).map(|(x, _)| *x).collect();
            if common.len() > 1 && rng.chance(1, 3) {
                common.pop();
            }
            let oi = a.threads.iter().position(|t| t.0 == common).unwrap();
            let othread = a.threads[oi].1.clone();
            let ch: Any = match othread.run_expr::<Any>("ch", "let { channel } = import! std.channel in channel 0") {
                Ok((c, _)) => c,
                Err(_) => done!("eval-error"),
            };
            let chv = ch.into_inner();
            let (sender, receiver) = match (chv.get(0), chv.get(1)) {
                (Some(s), Some(r)) => (Any::from_value(s), Any::from_value(r)),
                _ => done!("eval-error"),
            };
            let mut send: FunctionRef<fn(Any, Any) -> IO<Any>> = match sthread.run_expr("sendf", "let { send } = import! std.channel in \\s v -> send s v") {
                Ok((f, _)) => f,
                Err(_) => done!("eval-error"),
            };
            match send.call(sender, hv.clone()) {
                Ok(IO::Value(r)) => {
                    // `Err ()` when the value cannot be cloned
                    if canon_value(r.get_variant()).starts_with("(data 0") {
                        done!("refused");
                    }
                }
                _ => done!("refused"),
            }
            let mut recv: FunctionRef<fn(Any) -> IO<Any>> = match dthread.run_expr("recvf", "let { recv } = import! std.channel in \\r -> recv r") {
                Ok((f, _)) => f,
                Err(_) => done!("eval-error"),
            };
            let got = match recv.call(receiver) {
                Ok(IO::Value(r)) => r,
                _ => done!("refused"),
            };
            if canon_value(got.get_variant()).starts_with("(data 0") {
                done!("recv-empty");
            }
            model_src = common.clone();
            model_dst = common.clone();
            let d_mid = snapshot(&dvm.root);
            let field = match got.into_inner().get(0) {
                Some(f) => Any::from_value(f),
                None => done!("refused"),
            };
            let d_after = snapshot(&dvm.root);
            // the root of the received value is the newest root of the destination thread
            res.insert("chan_root".into(), json!(new_root(&d_mid, &d_after, thread_addr(&d_after, &dpath))));
            field
        }
        _ => done!("bad-route"),
    };
    let d1 = snapshot(&dvm.root);
    let wroot = match res.get("chan_root").and_then(|x| x.as_u64()) {
        Some(r) => Some(r as usize),
        None => new_root(&d0, &d1, thread_addr(&d1, &dpath)),
    };
    let wroot = match wroot {
        Some(r) => r,
        None => done!("no-heap-root"),
    };
    // ---- correspondence: what the cloner produced ----
    let kinds: Vec<(usize, char)> = {
        let b = below(&s1, vroot);
        let idx: HashMap<usize, usize> = b.iter().enumerate().map(|(i, a)| (*a, i)).collect();
        sh.kinds
            .iter()
            .filter_map(|(path, k)| {
                let mut cur = vroot;
                for e in path {
                    cur = *s1.objs.get(&cur)?.edges.get(*e)?;
                }
                Some((*idx.get(&cur)?, *k))
            })
            .collect()
    };
    let mut req = format!("clone {} {} {} (objs", if dvm_tag == 0 { 1 } else { 0 }, path_sexp(&model_src), path_sexp(&model_dst));
    {
        let bl = below(&s1, vroot);
        let idx: HashMap<usize, usize> = bl.iter().enumerate().map(|(i, a)| (*a, i)).collect();
        for (i, a) in bl.iter().enumerate() {
            let o = &s1.objs[a];
            let k = if o.is_thread { 't' } else { kinds.iter().find(|(j, _)| *j == i).map(|x| x.1).unwrap_or('p') };
            let es: Vec<String> = if o.is_thread { vec![] } else { o.edges.iter().filter_map(|e| idx.get(e)).map(|i| i.to_string()).collect() };
            let ow = o.owner.clone().unwrap_or(vec![99]);
            req.push_str(&format!(" ({} {} {} ({}))", path_sexp(&ow), path_sexp(&ow), k, es.join(" ")));
        }
    }
    req.push_str("))");
    let payload = format!("(ok{})", graph_sexp2(&d1, Some(&s1), wroot, dvm_tag, true));
    res.insert("req".into(), json!(req));
    res.insert("impl".into(), json!(payload));
    res.insert("objs".into(), json!(below(&s1, vroot).len()));
    // ---- oracle ----
    let mut poisoned = false;
    for (snap, tag) in [(&d1, dvm_tag)] {
        if let Some((o, p)) = snap.bad_edges().first() {
            let rel = relation(snap.objs[o].owner.as_deref().unwrap_or(&[]), snap.objs[p].owner.as_deref().unwrap_or(&[]));
            oracle.push(json!([
                format!("cross-heap-pointer:{}:{}", fam, rel),
                format!("after moving a `{}` value from thread {:?} to thread {:?} (route {}) an object of heap {:?} points to an object of heap {:?}", fam, spath, tag_path(Some(&dpath), tag), route, snap.objs[o].owner, snap.objs[p].owner)
            ]));
            poisoned = true;
        }
        if snap.problems.iter().any(|p| p == "reached-object-in-no-heap") {
            oracle.push(json!([
                format!("foreign-vm-pointer:{}", fam),
                format!("after moving a `{}` value into an unrelated VM (route {}) an object reachable from the destination's roots lives in no heap of the destination VM", fam, route)
            ]));
            poisoned = true;
        }
    }
    let canon1 = canon_value(w.get_variant());
    if canon1 != canon0 {
        oracle.push(json!([format!("value-changed:{}:{}", fam, route), format!("sent {} received {}", canon0.chars().take(200).collect::<String>(), canon1.chars().take(200).collect::<String>())]));
    }
    let dst_graph = graph_sexp(&d1, wroot, dvm_tag, false);
    if src_graph != dst_graph {
        oracle.push(json!([
            format!("sharing-not-preserved:{}", fam),
            format!("the object graph below the received `{}` value (route {}) is not isomorphic to the one sent: sent{} received{}", fam, route, src_graph.chars().take(160).collect::<String>(), dst_graph.chars().take(160).collect::<String>())
        ]));
    }
    // ---- aliasing oracle: a cell that had to be copied is independent of the original; a cell
    // the receiver may share (it lives in the receiver's heap or an ancestor) is the same cell ----
    let mut read_copy: Option<FunctionRef<fn(Any) -> Any>> = None;
    let mut cell_before_post: Option<String> = None;
    // (a record moved into an unrelated VM cannot be accessed by field name there — its field names
    // are the source VM's interned strings; `x.xs` panics with "Field `xs` does not exist" — so the
    // accessors that use field names are not run across VMs)
    let cell0 = sh.cell0.clone().filter(|(acc, _)| dvm_tag == 0 || !acc.contains('.'));
    if let Some((acc, cpath)) = &cell0 {
        let cell_owner: Option<Path> = {
            let mut cur = Some(vroot);
            for e in cpath {
                cur = cur.and_then(|c| s1.objs.get(&c)).and_then(|o| o.edges.get(*e).cloned());
            }
            cur.and_then(|c| s1.objs.get(&c)).and_then(|o| o.owner.clone())
        };
        let lib = "let st = import! std.st.reference.prim\nlet array = import! std.array.prim\n";
        let store_src = |n: i64| format!("{}\\x -> let u = st.(<-) ({}) [{}] in st.load ({})", lib, acc, n, acc);
        let read_src = format!("{}\\x -> st.load ({})", lib, acc);
        fn mk<'a>(t: &'a RootedThread, name: &str, src: &str) -> Option<FunctionRef<'a, fn(Any) -> Any>> {
            t.run_expr::<FunctionRef<fn(Any) -> Any>>(name, src).ok().map(|x| x.0)
        }
        if let (Some(ow), Some(mut st_dst), Some(mut rd_src), Some(mut st_src), Some(mut rd_dst)) = (
            cell_owner,
            mk(&dthread, "al1", &store_src(777)),
            mk(&sthread, "al2", &read_src),
            mk(&sthread, "al3", &store_src(888)),
            mk(&dthread, "al4", &read_src),
        ) {
            // the copy lives in the heap the value was cloned into: the destination thread's, or the
            // channel owner's (`model_dst`)
            let may_share = dvm_tag == 0 && is_prefix(&ow, &model_dst);
            let orig0 = rd_src.call(hv.clone()).ok().map(|v| canon_value(v.get_variant()));
            let _ = st_dst.call(w.clone());
            let orig1 = rd_src.call(hv.clone()).ok().map(|v| canon_value(v.get_variant()));
            let aliased1 = orig0 != orig1;
            let _ = st_src.call(hv.clone());
            let copy2 = rd_dst.call(w.clone()).ok().map(|v| canon_value(v.get_variant()));
            let aliased2 = copy2.as_deref() == Some("(arr (int 888))");
            res.insert("aliasing".into(), json!({"may_share": may_share, "store_via_copy_seen_by_original": aliased1, "store_via_original_seen_by_copy": aliased2}));
            if !may_share && (aliased1 || aliased2) {
                let rel = relation(&tag_path(Some(&dpath), dvm_tag), &ow);
                oracle.push(json!([
                    format!("cell-aliased-across-heaps:{}:{}", fam, rel),
                    format!("after moving a `{}` value from thread {:?} to thread {:?} (route {}) a reference cell of the sender (heap {:?}) and its copy are ONE cell: a store through the copy is {}seen by the original, a store through the original is {}seen by the copy", fam, spath, tag_path(Some(&dpath), dvm_tag), route, ow, if aliased1 { "" } else { "not " }, if aliased2 { "" } else { "not " })
                ]));
                poisoned = true;
            }
            if may_share && !(aliased1 && aliased2) {
                oracle.push(json!([
                    format!("shared-cell-copied:{}", fam),
                    format!("a reference cell that lives in heap {:?}, which the receiving thread {:?} may share, was replaced by a copy when the `{}` value holding it was moved (route {}): stores are no longer seen on the other side", ow, dpath, fam, route)
                ]));
            }
            cell_before_post = rd_dst.call(w.clone()).ok().map(|v| canon_value(v.get_variant()));
            read_copy = Some(rd_dst);
        }
    }
    // the stores above replaced cell contents: what must survive is what the copy holds NOW
    let d1 = if cell0.is_some() && !poisoned { snapshot(&dvm.root) } else { d1 };
    if poisoned {
        // memory safety cannot be relied on from here: the later steps are not run
        done!("flagged");
    }
    // 3. drop / collect the threads involved, in a generated order
    let mut post: Vec<&str> = vec!["drop-handle", "collect-src", "collect-dst", "collect-root", "churn-src", "churn-dst", "collect-src"];
    for i in (1..post.len()).rev() {
        let j = rng.below(i as u64 + 1) as usize;
        post.swap(i, j);
    }
    let mut hv = Some(hv);
    let mut order = vec![];
    for p in &post {
        order.push(p.to_string());
        match *p {
            "drop-handle" => {
                hv.take();
            }
            "collect-src" => sthread.collect(),
            "collect-dst" => dthread.collect(),
            "collect-root" => a.root.collect(),
            "churn-src" => {
                let _ = sthread.run_expr::<Any>("junk", &format!("{}[[901, 902], [903, 904, 905]]", shapes::PRE));
            }
            "churn-dst" => {
                let _ = dthread.run_expr::<Any>("junk", &format!("{}{{ a = string.append \"zz\" \"yy\", b = [1.5, 2.5] }}", shapes::PRE));
            }
            _ => {}
        }
    }
    hv.take();
    if b.is_some() {
        order.push("drop-source-vm".into());
    }
    res.insert("post".into(), json!(order));
    let d2 = snapshot(&dvm.root);
    let live: BTreeSet<usize> = d2.objs.keys().cloned().collect();
    let lost = below(&d1, wroot).iter().filter(|x| !live.contains(x)).count();
    if lost > 0 {
        oracle.push(json!([format!("copy-freed-after-sender-collected:{}", fam), format!("{} object(s) below the received value were freed by collecting the sender / receiver", lost)]));
        done!("flagged");
    }
    if !d2.bad_edges().is_empty() {
        oracle.push(json!([format!("cross-heap-pointer-later:{}", fam), "a pointer into a non-ancestor heap exists after the collections"]));
        done!("flagged");
    }
    if let (Some(rd), Some(before)) = (read_copy.as_mut(), cell_before_post.as_ref()) {
        let now = rd.call(w.clone()).ok().map(|v| canon_value(v.get_variant()));
        if now.as_ref() != Some(before) {
            oracle.push(json!([format!("cell-content-changed-after-sender-collected:{}:{}", fam, route), format!("a cell of the received value held {} and now reads {:?}", before, now)]));
        }
    }
    let canon2 = canon_value(w.get_variant());
    if canon2 != canon0 {
        oracle.push(json!([format!("value-changed-after-sender-collected:{}:{}", fam, route), format!("sent {} now {}", canon0.chars().take(200).collect::<String>(), canon2.chars().take(200).collect::<String>())]));
    }
    done!("ok");
}

fn gluon_program(fam: &'static str, rng: &mut Rng) -> (String, String) {
    // a value built inside a spawned (child) thread and sent to the parent through a channel the
    // parent owns; then the child is resumed to completion and the parent allocates
    let sh = shapes::shape_of(fam, rng);
    let direct = shapes::program(&sh);
    let prog = format!(
        "{}let {{ channel, send, recv }} = import! std.channel\nlet {{ spawn, resume }} = import! std.thread\nlet array = import! std.array.prim\nlet mk u = {}\nlet ch = channel (mk ())\nio.flat_map (\\c ->\n    io.flat_map (\\t ->\n        io.flat_map (\\r0 ->\n            let junk = array.append [1, 2, 3] [4, 5, 6]\n            io.flat_map (\\got -> io.wrap got) (recv c.receiver))\n            (resume t))\n        (spawn (io.flat_map (\\r -> io.wrap ()) (send c.sender (mk ())))))\n    ch",
        shapes::PRE, sh.expr
    );
    (direct, prog)
}

fn spawn_child() {
    gv::child::serve(|input| {
        let inp: J = serde_json::from_str(input).unwrap();
        let vm = gv::vm::new_vm();
        gv::vm::settings(&vm, false, false);
        vm.get_database_mut().set_run_io(true);
        let direct = vm.run_expr::<Any>("direct", inp["direct"].as_str().unwrap());
        let d = match &direct {
            Ok((v, _)) => canon_value(v.get_variant()),
            Err(e) => format!("error {}", format!("{}", e).lines().next().unwrap_or("")),
        };
        let via = vm.run_expr::<Any>("via", inp["prog"].as_str().unwrap());
        vm.collect();
        let v = match &via {
            Ok((v, _)) => canon_value(v.get_variant()),
            Err(e) => format!("error {}", format!("{}", e).lines().take(6).collect::<Vec<_>>().join(" / ")),
        };
        let snap = snapshot(&vm);
        let bad = snap.bad_edges().len();
        let r = json!({"direct": d, "via": v, "bad": bad}).to_string();
        std::mem::forget(direct);
        std::mem::forget(via);
        r
    });
}

fn parallel_batch(mode: &str, inputs: &[String], workers: usize) -> Vec<Result<String, String>> {
    let chunks: Vec<Vec<String>> = (0..workers).map(|w| inputs.iter().skip(w).step_by(workers).cloned().collect()).collect();
    let mode = mode.to_string();
    let handles: Vec<_> = chunks
        .into_iter()
        .map(|c| {
            let mode = mode.clone();
            std::thread::spawn(move || gv::child::batch(&["--child", &mode], &c, 1, Duration::from_secs(120)))
        })
        .collect();
    let results: Vec<Vec<Result<String, String>>> = handles.into_iter().map(|h| h.join().unwrap()).collect();
    let mut out = vec![];
    for i in 0..inputs.len() {
        out.push(results[i % workers][i / workers].clone());
    }
    out
}

fn main() {
    if std::env::var("C05_DEBUG").is_err() {
        gv::quiet_panics();
    }
    let av: Vec<String> = std::env::args().collect();
    if av.get(1).map(|s| s.as_str()) == Some("--child") {
        match av[2].as_str() {
            "case" => gv::child::serve(one_case),
            "spawn" => spawn_child(),
            _ => {}
        }
        return;
    }
    let args = Args::parse();
    let mut out = Out::new(&args.out);
    if let Some(rp) = &args.replay {
        let v: J = serde_json::from_str(&std::fs::read_to_string(rp).unwrap()).unwrap();
        let case = &v["case"];
        let mode = if case.get("prog").is_some() { "spawn" } else { "case" };
        let r = gv::child::batch(&["--child", mode], &[case.to_string()], 1, Duration::from_secs(120));
        println!("{} =>\n{:?}", case, r[0]);
        out.finish();
        return;
    }
    let mut rng = Rng::new(args.seed, 0x13);
    let n = if args.thorough() { 2500 } else { 80 };
    let routes = ["reroot", "push", "channel", "unrelated"];
    let mut inputs = vec![];
    // corpus first: the known shapes
    for (fam, route, s, d) in [("string-array", "reroot", 1, 0), ("string-array", "channel", 3, 1), ("shared-ref-cell", "reroot", 1, 2), ("closure", "unrelated", 0, 0), ("shared", "reroot", 3, 2)] {
        inputs.push(json!({"seed": 7, "family": fam, "route": route, "src": s, "dst": d}).to_string());
    }
    // arrays with userdata elements: every route, incl. sibling (1,2), cousin (3,4), uncle/nephew
    // (1,4) (4,1), parent/child (0,3) (3,0) (1,3) (3,1) and the unrelated VM
    {
        let ud = ["ref-array", "ref-array-shared", "lazy-array", "lazy-array-forced", "ref-array-nested", "rec-of-ref-array", "closure-of-ref-array", "parent-cell-array"];
        let pairs = [(1u64, 2u64), (3, 4), (1, 4), (4, 1), (0, 3), (3, 0), (1, 3), (3, 1), (2, 2)];
        let mut k = 0usize;
        for (fi, fam) in ud.iter().enumerate() {
            for (ri, route) in routes.iter().enumerate() {
                let reps = if args.thorough() { pairs.len() } else { 2 };
                for j in 0..reps {
                    let (sd, dd) = pairs[(fi + ri * 2 + j * 4 + k) % pairs.len()];
                    k += 1;
                    inputs.push(json!({"seed": args.seed * 7_000_000 + k as u64, "family": fam, "route": route, "src": sd, "dst": dd}).to_string());
                }
            }
        }
        // the pairs that matter most, always
        for fam in ["ref-array", "rec-of-ref-array", "parent-cell-array"] {
            for (sd, dd) in [(1u64, 2u64), (3, 4), (1, 4), (3, 1)] {
                for route in ["reroot", "push"] {
                    k += 1;
                    inputs.push(json!({"seed": args.seed * 7_000_000 + k as u64, "family": fam, "route": route, "src": sd, "dst": dd}).to_string());
                }
            }
        }
    }
    for i in 0..n {
        let fam = shapes::FAMILIES[i % shapes::FAMILIES.len()];
        let route = routes[(i / shapes::FAMILIES.len() + i) % routes.len()];
        inputs.push(json!({"seed": args.seed * 1_000_000 + i as u64, "family": fam, "route": route, "src": rng.below(5), "dst": rng.below(5)}).to_string());
    }
    let results = parallel_batch("case", &inputs, 4);
    for (inp, r) in inputs.iter().zip(results.iter()) {
        let case: J = serde_json::from_str(inp).unwrap();
        let fam = case["family"].as_str().unwrap();
        let route = case["route"].as_str().unwrap();
        match r {
            Err(class) => {
                out.count(&format!("status:crash:{}", class));
                out.oracle_fail(
                    &format!("crash:{}:{}", fam, route),
                    &format!("the process died ({}) while moving a `{}` value by route {} or collecting / dropping the threads involved afterwards", class, fam, route),
                    case.clone(),
                );
            }
            Ok(s) => {
                let v: J = serde_json::from_str(s).unwrap();
                let status = v["status"].as_str().unwrap();
                out.count(&format!("status:{}", status));
                out.count(&format!("route:{}", route));
                out.count(&format!("family:{}", fam));
                for o in v["oracle"].as_array().unwrap() {
                    out.oracle_fail(o[0].as_str().unwrap(), o[1].as_str().unwrap(), case.clone());
                }
                if let (Some(req), Some(imp)) = (v.get("req").and_then(|x| x.as_str()), v.get("impl").and_then(|x| x.as_str())) {
                    let sh = shapes::shape_of(shapes::FAMILIES.iter().find(|f| **f == fam).cloned().unwrap(), &mut Rng::new(1, 1));
                    let _ = &sh;
                    {
                        out.case(req, imp);
                        let s = case["src"].as_u64().unwrap();
                        let d = case["dst"].as_u64().unwrap();
                        out.class(format!("{}|{}|{}>{}|{}", fam, route, s, d, status));
                    }
                }
                if status == "ok" && out.samples.len() < 6 {
                    out.sample(json!({"case": case, "post_order": v["post"], "objects_below_value": v["objs"]}));
                }
            }
        }
    }
    // values sent from a spawned Gluon thread to its parent (std.thread + std.channel)
    let mut sp_inputs = vec![];
    let n_sp = if args.thorough() { 200 } else { 18 };
    for i in 0..n_sp {
        let expr_only: Vec<&'static str> = shapes::FAMILIES.iter().cloned().filter(|f| !["variant", "deep-list", "cyclic", "mutual-closures", "closure", "partial-app", "ref-cell", "shared-ref-cell", "ref-array", "ref-array-shared", "lazy-array", "lazy-array-forced", "ref-array-nested", "rec-of-ref-array", "closure-of-ref-array", "parent-cell-array"].contains(f)).collect();
        let fam = expr_only[i % expr_only.len()];
        let (direct, prog) = gluon_program(fam, &mut rng);
        sp_inputs.push(json!({"family": fam, "direct": direct, "prog": prog}).to_string());
    }
    let results = parallel_batch("spawn", &sp_inputs, 4);
    for (inp, r) in sp_inputs.iter().zip(results.iter()) {
        let case: J = serde_json::from_str(inp).unwrap();
        let fam = case["family"].as_str().unwrap();
        match r {
            Err(class) => {
                out.count(&format!("spawn-status:crash:{}", class));
                out.oracle_fail(&format!("crash:{}:spawned-sender", fam), &format!("the process died ({}) when a spawned thread sent a `{}` value to its parent", class, fam), case.clone());
            }
            Ok(s) => {
                let v: J = serde_json::from_str(s).unwrap();
                let d = v["direct"].as_str().unwrap();
                let via = v["via"].as_str().unwrap();
                out.add("spawn-evaluations", 1);
                if via.starts_with("error") || d.starts_with("error") {
                    out.count(&format!("spawn-status:error:{}", fam));
                    if std::env::var("C05_DEBUG").is_ok() {
                        eprintln!("{} {} {}", fam, d, via);
                    }
                    continue;
                }
                out.count("spawn-status:ok");
                // `recv` wraps the value in `Ok`
                let expect = format!("(data 1 {})", d);
                if via != expect {
                    out.oracle_fail(&format!("value-changed:{}:spawned-sender", fam), &format!("built directly {} but received from a spawned thread {}", d.chars().take(200).collect::<String>(), via.chars().take(200).collect::<String>()), case.clone());
                }
                if v["bad"].as_u64().unwrap() > 0 {
                    out.oracle_fail(&format!("cross-heap-pointer:{}:spawned-sender", fam), "a pointer into a non-ancestor heap exists after a spawned thread sent a value to its parent", case.clone());
                }
                out.class(format!("spawn|{}|{}", fam, via == expect));
            }
        }
    }
    out.finish();
}
