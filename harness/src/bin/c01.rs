//! C01: generated well-typed programs through the real pipeline vs the Lean reference
//! semantics `GluonModel.Surf.eval`.
//!
//! Every program runs twice — optimisation off, and with the DEFAULT settings (optimisation on) —
//! and both outcomes are compared with the reference exactly (the Lean driver answers the
//! `evalsurf` requests; the harness-side transcription `c01/refsem.rs` feeds the oracle). The one
//! liberty the optimised run has is the documented one: an unneeded *builtin* arithmetic failure
//! may be skipped (see refsem.rs, `Mode::Lenient`).
//!
//! Programs run in child processes in batches, so that an abort / native stack overflow of the
//! implementation is an *outcome* of one program and not the end of the run.
use gv::surf::{self, Gen};
use gv::{Args, Out};
use std::time::Duration;

#[path = "c01/family.rs"]
mod family;
#[path = "c01/refsem.rs"]
mod refsem;

/// Make a panic message usable as a stable fingerprint: addresses, numbers and generated
/// variable names are replaced.
fn normalize(msg: &str) -> String {
    let mut out = String::new();
    let cs: Vec<char> = msg.chars().collect();
    let mut i = 0;
    while i < cs.len() {
        if cs[i] == '0' && i + 1 < cs.len() && cs[i + 1] == 'x' {
            i += 2;
            while i < cs.len() && cs[i].is_ascii_hexdigit() {
                i += 1;
            }
            out.push_str("ADDR");
        } else if cs[i].is_ascii_digit() {
            while i < cs.len() && cs[i].is_ascii_digit() {
                i += 1;
            }
            out.push('#');
        } else {
            out.push(cs[i]);
            i += 1;
        }
    }
    out.chars().take(90).collect()
}

fn child(optimize: bool) {
    let vm = gv::vm::new_vm();
    gv::vm::settings(&vm, false, optimize);
    let mut i = 0;
    gv::capture_panics();
    gv::child::serve(|src| {
        i += 1;
        let r = surf::run_canon(&vm, &format!("p{}", i), src);
        if r.starts_with("panic ") {
            // identify a panic by its file and the first words of its message (line numbers
            // move with every edit of the file; messages embed addresses and generated names)
            let msg = normalize(r.trim_start_matches("panic ").trim_matches('"'));
            let words: Vec<&str> = msg.split_whitespace().take(3).collect();
            match gv::last_panic_location() {
                Some(loc) => {
                    let file = loc.rsplitn(2, ':').last().unwrap_or("?").to_string();
                    format!("panic @{}:{}", file, words.join("_"))
                }
                None => r,
            }
        } else {
            r
        }
    });
}

/// First word of a canonical outcome: `ok`, `err:arith`, `err:user`, `panic`, `abort`, `wrong:…`.
fn class_of(res: &str) -> String {
    res.split(' ').next().unwrap().trim_matches(|c| c == '(' || c == ')').to_string()
}

/// Fingerprint of an internal failure of the pipeline (panic / abort / VM shape complaint).
fn internal_fp(class: &str, res: &str) -> String {
    if class == "abort" {
        format!("abort:{}", res.trim_start_matches("abort "))
    } else if class == "panic" {
        // the panic message identifies the failing site
        if res.starts_with("panic @") {
            format!("panic:{}", res.trim_start_matches("panic "))
        } else {
            format!("panic:{}", normalize(res.trim_start_matches("panic ").trim_matches('"')))
        }
    } else {
        res.chars().take(70).collect::<String>()
    }
}

fn is_internal(class: &str) -> bool {
    class == "panic" || class == "abort" || class.starts_with("wrong")
}

fn main() {
    gv::quiet_panics();
    if std::env::args().nth(1).as_deref() == Some("--child") {
        child(false);
        return;
    }
    if std::env::args().nth(1).as_deref() == Some("--child-opt") {
        // the default settings of the language: optimisation on
        child(true);
        return;
    }
    let args = Args::parse();
    let mut out = Out::new(&args.out);
    if let Some(rp) = &args.replay {
        let v: serde_json::Value = serde_json::from_str(&std::fs::read_to_string(rp).unwrap()).unwrap();
        let src = v["case"]["source"].as_str().unwrap().to_string();
        println!("{}", src);
        let r = gv::child::batch(&["--child"], &[src.clone()], 1, Duration::from_secs(60));
        println!("optimisation off => {:?}", r[0]);
        let r = gv::child::batch(&["--child-opt"], &[src], 1, Duration::from_secs(60));
        println!("optimisation on (default) => {:?}", r[0]);
        if let Some(x) = v["case"]["reference"].as_str() {
            println!("reference semantics => {}", x);
        }
        out.finish();
        return;
    }
    let n = if args.thorough() { 8000 } else { 600 };
    // debugging aid: C01_RANDOM_N=0 runs the enumerated family alone
    let n = std::env::var("C01_RANDOM_N").ok().and_then(|v| v.parse().ok()).unwrap_or(n);
    let mut rng = gv::rng::Rng::new(args.seed, 1);
    // (program, text, family key)
    let mut progs: Vec<(surf::Expr, String, Option<String>)> = vec![];
    // the enumerated neighbourhood "binding whose right-hand side contains a call" first
    for c in family::enumerate(args.thorough()) {
        let src = surf::program_text(&c.expr);
        let key = c.key();
        progs.push((c.expr, src, Some(key)));
    }
    for i in 0..n {
        let mut g = Gen::new(&mut rng);
        let depth = 2 + (i % 4) as u32;
        let (e, _t) = g.program(depth);
        let src = surf::program_text(&e);
        progs.push((e, src, None));
    }
    let inputs: Vec<String> = progs.iter().map(|p| p.1.clone()).collect();
    let results = gv::child::batch(&["--child"], &inputs, 100, Duration::from_secs(300));
    let results_opt = gv::child::batch(&["--child-opt"], &inputs, 100, Duration::from_secs(300));
    // the harness-side transcription of the documented semantics (independent of the Lean model)
    let reference = refsem::outcomes(progs.iter().map(|p| p.0.clone()).collect());
    let flat = |r: &Result<String, String>| match r {
        Ok(r) => r.clone(),
        Err(class) => format!("abort {}", class),
    };
    for (i, (e, src, fam)) in progs.iter().enumerate() {
        let res = flat(&results[i]);
        let res_opt = flat(&results_opt[i]);
        let (strict, lenient, deferred) = &reference[i];
        let class = class_of(&res);
        let class_opt = class_of(&res_opt);
        let leg = if fam.is_some() { "family" } else { "random" };
        out.count(&format!("programs:{}", leg));
        out.count(&format!("outcome:{}", class));
        out.count(&format!("outcome-opt:{}", class_opt));
        if let Some(k) = fam {
            for (dim, part) in ["form", "shape", "behaviour", "position", "callee"].iter().zip(k.split('/')) {
                out.count(&format!("family:{}:{}", dim, part));
            }
        }
        if class == "err:static" {
            // the real checker rejects it: outside the fragment (or a generator slip); never
            // compared
            out.count("skipped:static-error");
            out.count(&format!("reject:{}", res));
            if let Some(k) = fam {
                let _ = k;
                out.count("skipped:family-static-error");
            }
            if std::env::var("C01_DUMP").is_ok() {
                use std::io::Write;
                let mut f = std::fs::OpenOptions::new().create(true).append(true).open("/tmp/c01_rejects.txt").unwrap();
                let _ = writeln!(f, "=== {}\n{}", res, src);
            }
            continue;
        }
        let replay = |optimize: bool| {
            serde_json::json!({"source": src, "optimize": optimize, "reference": strict, "family": fam})
        };
        let mut reported: Option<String> = None;
        if is_internal(&class) {
            let fp = internal_fp(&class, &res);
            out.oracle_fail(
                &fp,
                &format!("a generated program made the pipeline fail internally: {}", res),
                replay(false),
            );
            reported = Some(fp);
        }
        if is_internal(&class_opt) {
            let fp = internal_fp(&class_opt, &res_opt);
            if reported.as_deref() != Some(&fp) {
                out.oracle_fail(
                    &fp,
                    &format!("a generated program made the pipeline fail internally with the default settings (optimisation on): {}", res_opt),
                    replay(true),
                );
            }
        }
        let ref_usable = strict != "fuel" && !strict.starts_with("wrong:");
        if !ref_usable {
            out.count(&format!("skipped:reference-{}", class_of(strict)));
        }
        let cs = surf::constructs(e);
        // ---- leg 1: optimisation off ----------------------------------------------------
        if !is_internal(&class) {
            if ref_usable && &res != strict {
                out.oracle_fail(
                    &format!("wrong-without-optimisation:{}->{}", class_of(strict), class),
                    &format!(
                        "a well-typed program run with optimisation off yields {} where the documented strict semantics assigns {}",
                        res, strict
                    ),
                    replay(false),
                );
            }
            for c in &cs {
                out.count(&format!("construct:{}", c));
            }
            if cs.len() >= 3 {
                let mut key: Vec<&str> = cs.iter().cloned().collect();
                key.push(&class);
                out.class(key.join(","));
            }
            out.count(&format!("size:{}", (surf::size(e) / 10) * 10));
            if i % 97 == 3 {
                out.sample(serde_json::json!({"source": src, "impl": res, "impl_optimised": res_opt}));
            }
            out.case(&format!("evalsurf {}", surf::sexp(e)), &res);
        }
        // ---- leg 2: the default settings (optimisation on) --------------------------------
        if class_opt == "err:static" {
            // cannot happen when the unoptimised compile succeeded; never compared
            out.count("skipped:static-error-only-optimised");
            continue;
        }
        if is_internal(&class_opt) {
            continue;
        }
        let candidate = ref_usable && strict == "err:arith" && &res == strict;
        if candidate {
            // the reference outcome is a builtin-or-callee arithmetic failure and the
            // unoptimised run agrees: the only situation in which the optimiser's documented
            // liberty (an unused builtin arithmetic failure may be skipped) can apply
            out.count("opt:permitted-arith-skip-candidate");
            if let Some(k) = fam {
                // what the liberty would allow for this candidate, per callee behaviour: for a
                // failure INSIDE a callee the lenient outcome is still err:arith (nothing to skip)
                let beh = k.split('/').nth(2).unwrap_or("?");
                out.count(&format!("opt:candidate:{}:lenient-allows-{}", beh, class_of(lenient)));
            }
        }
        if ref_usable && &res_opt == strict {
            out.count("opt:agrees-with-reference");
        } else if candidate && &res_opt == lenient && *deferred > 0 {
            // … and it applies only if the optimised outcome is exactly what skipping unneeded
            // *builtin* failures gives (calls are never skipped; see refsem.rs)
            out.count("opt:permitted-arith-skip-taken");
            if let Some(k) = fam {
                out.count(&format!("opt:permitted-arith-skip-taken:{}", k.split('/').nth(2).unwrap_or("?")));
            }
            out.count("skipped:opt-permitted-arith-skip");
            if let Some(k) = fam {
                out.class(format!("family:{}:opt-skip", k));
            }
            continue;
        } else if ref_usable {
            out.oracle_fail(
                &format!("wrong-with-optimisation:{}->{}", class_of(strict), class_opt),
                &format!(
                    "a well-typed program run with the default settings (optimisation on) yields {} where the documented strict semantics assigns {} (optimisation off: {})",
                    res_opt, strict, res
                ),
                replay(true),
            );
        }
        if let Some(k) = fam {
            out.class(format!("family:{}:{}", k, class_opt));
        }
        out.case(&format!("evalsurf {}", surf::sexp(e)), &res_opt);
    }
    out.finish();
}
