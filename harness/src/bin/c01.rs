//! C01: generated well-typed programs through the real pipeline vs the Lean reference
//! semantics `GluonModel.Surf.eval`.
//!
//! Programs run in child processes in batches, so that an abort / native stack overflow of the
//! implementation is an *outcome* of one program and not the end of the run.
use gv::surf::{self, Gen};
use gv::{Args, Out};
use std::time::Duration;

/// Make a panic message usable as a stable fingerprint: addresses, numbers and generated
/// variable names are replaced.
fn normalize(msg: &str) -> String {
    let mut out = String::new();
    let cs: Vec<char> = msg.chars().collect();
    let mut i = 0;
    while i < cs.len() {
        if cs[i] == '0' && i + 1 < cs.len() && cs[i + 1] == 'x' {
            i += 2;
            while i < cs.len() && cs[i].is_ascii_hexdigit() {
                i += 1;
            }
            out.push_str("ADDR");
        } else if cs[i].is_ascii_digit() {
            while i < cs.len() && cs[i].is_ascii_digit() {
                i += 1;
            }
            out.push('#');
        } else {
            out.push(cs[i]);
            i += 1;
        }
    }
    out.chars().take(90).collect()
}

fn child() {
    let vm = gv::vm::new_vm();
    gv::vm::settings(&vm, false, false);
    let mut i = 0;
    gv::capture_panics();
    gv::child::serve(|src| {
        i += 1;
        let r = surf::run_canon(&vm, &format!("p{}", i), src);
        if r.starts_with("panic ") {
            // identify a panic by its site, not by its message
            // identify a panic by its file and the first words of its message (line numbers
            // move with every edit of the file; messages embed addresses and generated names)
            let msg = normalize(r.trim_start_matches("panic ").trim_matches('"'));
            let words: Vec<&str> = msg.split_whitespace().take(3).collect();
            match gv::last_panic_location() {
                Some(loc) => {
                    let file = loc.rsplitn(2, ':').last().unwrap_or("?").to_string();
                    format!("panic @{}:{}", file, words.join("_"))
                }
                None => r,
            }
        } else {
            r
        }
    });
}

fn main() {
    gv::quiet_panics();
    if std::env::args().nth(1).as_deref() == Some("--child") {
        child();
        return;
    }
    let args = Args::parse();
    let mut out = Out::new(&args.out);
    if let Some(rp) = &args.replay {
        let v: serde_json::Value = serde_json::from_str(&std::fs::read_to_string(rp).unwrap()).unwrap();
        let src = v["case"]["source"].as_str().unwrap().to_string();
        println!("{}", src);
        let r = gv::child::batch(&["--child"], &[src], 1, Duration::from_secs(60));
        println!("=> {:?}", r[0]);
        out.finish();
        return;
    }
    let n = if args.thorough() { 8000 } else { 600 };
    let mut rng = gv::rng::Rng::new(args.seed, 1);
    let mut progs = vec![];
    for i in 0..n {
        let mut g = Gen::new(&mut rng);
        let depth = 2 + (i % 4) as u32;
        let (e, _t) = g.program(depth);
        let src = surf::program_text(&e);
        progs.push((e, src));
    }
    let inputs: Vec<String> = progs.iter().map(|p| p.1.clone()).collect();
    let results = gv::child::batch(&["--child"], &inputs, 100, Duration::from_secs(300));
    for (i, ((e, src), res)) in progs.iter().zip(results.iter()).enumerate() {
        let res = match res {
            Ok(r) => r.clone(),
            Err(class) => format!("abort {}", class),
        };
        let class = res.split(' ').next().unwrap().trim_matches(|c| c == '(' || c == ')').to_string();
        out.count(&format!("outcome:{}", class));
        if class == "err:static" {
            // the real checker rejects it: outside the fragment (or a generator slip); never
            // compared
            out.count("skipped:static-error");
            out.count(&format!("reject:{}", res));
            if std::env::var("C01_DUMP").is_ok() {
                use std::io::Write;
                let mut f = std::fs::OpenOptions::new().create(true).append(true).open("/tmp/c01_rejects.txt").unwrap();
                let _ = writeln!(f, "=== {}\n{}", res, src);
            }
            continue;
        }
        if class == "panic" || class == "abort" || class.starts_with("wrong") {
            let fp = if class == "abort" {
                format!("abort:{}", res.trim_start_matches("abort "))
            } else if class == "panic" {
                // the panic message identifies the failing site
                if res.starts_with("panic @") {
                    format!("panic:{}", res.trim_start_matches("panic "))
                } else {
                    format!("panic:{}", normalize(res.trim_start_matches("panic ").trim_matches('"')))
                }
            } else {
                res.chars().take(70).collect::<String>()
            };
            out.oracle_fail(
                &fp,
                &format!("a generated program made the pipeline fail internally: {}", res),
                serde_json::json!({"source": src}),
            );
            // reported by the oracle (above); not a correspondence case
            continue;
        }
        let cs = surf::constructs(e);
        for c in &cs {
            out.count(&format!("construct:{}", c));
        }
        if cs.len() >= 3 {
            let mut key: Vec<&str> = cs.iter().cloned().collect();
            key.push(&class);
            out.class(key.join(","));
        }
        out.count(&format!("size:{}", (surf::size(e) / 10) * 10));
        if i % 97 == 3 {
            out.sample(serde_json::json!({"source": src, "impl": res}));
        }
        out.case(&format!("evalsurf {}", surf::sexp(e)), &res);
    }
    out.finish();
}
