//! C10 — the formatter preserves meaning and comments and is idempotent.
//! Part 1 (correspondence): `CommentIter` forward/reverse vs the Lean model.
//! Part 2 (oracle): the property statement evaluated on the real `format_expr`.
#[path = "c10/corr.rs"]
mod corr;

use gv::{Args, Out};

fn main() {
    gv::quiet_panics();
    let args = Args::parse();
    if let Some(i) = args.extra.iter().position(|a| a == "--iter") {
        let s = args.extra[i + 1].replace("\\n", "\n").replace("\\r", "\r");
        println!("fwd {}", corr::fwd(&s));
        println!("rev {}", corr::rev(&s));
        return;
    }
    let mut out = Out::new(&args.out);
    let mut rng = gv::rng::Rng::new(args.seed, 10);
    corr::run(&mut out, &mut rng, args.thorough());
    out.finish();
}
