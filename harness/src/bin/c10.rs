//! C10 — the formatter preserves meaning and comments and is idempotent.
//! Part 1 (correspondence): `CommentIter` forward/reverse vs the Lean model (c10/corr.rs).
//! Part 2 (oracle): the property statement evaluated on the real `format_expr` (c10/oracle.rs)
//!   over generated programs (c10/gen.rs) with comments inserted into every token gap, CRLF,
//!   whitespace perturbation, and over every .glu file of /repo/std and /repo/examples.
#[path = "c10/corr.rs"]
mod corr;
#[path = "c10/docs.rs"]
mod docs;
#[path = "c10/gen.rs"]
mod gen;
#[path = "c10/lex.rs"]
mod lex;
#[path = "c10/oracle.rs"]
mod oracle;
#[path = "c10/syn.rs"]
mod syn;

use gluon::RootedThread;
use gv::{Args, Out};
use lex::{Tok, K};
use oracle::{Failure, Verdict};
use serde_json::json;

/// Column (in chars) of byte offset `at`.
fn col_of(src: &str, at: usize) -> usize {
    let line_start = src[..at].rfind('\n').map_or(0, |i| i + 1);
    src[line_start..at].chars().count()
}

#[derive(Clone, Debug)]
struct Ins {
    gap: usize,
    style: u8,
    text: String,
}

/// The comment text for (style, tag).
fn comment_text(style: u8, tag: &str) -> String {
    match style {
        0 | 1 | 4 => format!("/* {} */", tag),
        _ => format!("// {}", tag),
    }
}

/// Insert comments into token gaps; `gap == i` is the gap before `toks[i]`, `toks.len()` the
/// gap after the last token. Columns of the following token are preserved where the comment
/// forces a line break, so that the layout algorithm sees the same indentation.
fn apply(src: &str, toks: &[Tok], ins: &[Ins]) -> String {
    let mut ins: Vec<Ins> = ins.to_vec();
    ins.sort_by_key(|i| i.gap);
    let mut out = String::new();
    let mut k = 0;
    for gi in 0..=toks.len() {
        let gstart = if gi == 0 { 0 } else { toks[gi - 1].end };
        let gend = if gi == toks.len() { src.len() } else { toks[gi].start };
        let gap = &src[gstart..gend];
        let mut here: Vec<&Ins> = vec![];
        while k < ins.len() && ins[k].gap == gi {
            here.push(&ins[k]);
            k += 1;
        }
        if here.is_empty() {
            out.push_str(gap);
        } else {
            let col = if gi == toks.len() { 0 } else { col_of(src, toks[gi].start) };
            let ind = " ".repeat(col);
            let has_nl = gap.contains('\n');
            let eof = gi == toks.len();
            let bof = gi == 0;
            // split the gap at its last newline: `head` (up to and incl. it) and `tail` (indentation)
            let (head, tail) = match gap.rfind('\n') {
                Some(i) => (&gap[..=i], &gap[i + 1..]),
                None => ("", gap),
            };
            let mut before = String::new(); // goes right after the previous token
            let mut own = String::new(); // own lines before the next token
            let mut inline = String::new(); // on the next token's line
            let mut force_break = false;
            for i in &here {
                match i.style {
                    0 => {
                        inline.push_str(&i.text);
                        inline.push(' ');
                    }
                    1 => {
                        before.push(' ');
                        before.push_str(&i.text);
                    }
                    2 => {
                        before.push(' ');
                        before.push_str(&i.text);
                        force_break = true;
                    }
                    _ => {
                        own.push_str(if has_nl { tail } else { &ind });
                        own.push_str(&i.text);
                        own.push('\n');
                    }
                }
            }
            if bof {
                // nothing before: comments start the file
                out.push_str(before.trim_start());
                if force_break || (!before.is_empty() && !own.is_empty()) {
                    out.push('\n');
                } else if !before.is_empty() {
                    out.push(' ');
                }
                out.push_str(head);
                out.push_str(&own);
                out.push_str(tail);
                out.push_str(&inline);
            } else if eof {
                out.push_str(&before);
                if !own.is_empty() || force_break {
                    out.push('\n');
                }
                out.push_str(own.trim_end_matches('\n'));
                if !inline.is_empty() {
                    out.push(' ');
                    out.push_str(inline.trim_end());
                }
                out.push_str(gap);
                if !out.ends_with('\n') {
                    out.push('\n');
                }
            } else {
                out.push_str(&before);
                if has_nl {
                    out.push_str(head);
                    out.push_str(&own);
                    out.push_str(tail);
                } else if force_break || !own.is_empty() {
                    out.push('\n');
                    out.push_str(&own);
                    out.push_str(&ind);
                } else {
                    out.push_str(gap);
                    if gap.is_empty() && !before.is_empty() {
                        out.push(' ');
                    }
                }
                out.push_str(&inline);
            }
        }
        if gi < toks.len() {
            out.push_str(toks[gi].text(src));
        }
    }
    out
}

/// Category of a token for fingerprints.
fn category(t: &Tok, src: &str) -> &'static str {
    match t.k {
        K::Ident => "ident",
        K::Lit => "lit",
        K::Kw => "kw",
        K::Op => "op",
        K::Punct => match t.text(src) {
            "{" | "(" | "[" => "open",
            "}" | ")" | "]" => "close",
            _ => "sep", // , = -> | : . .. ? @ \ <- ;
        },
        K::Line | K::Block | K::DocLine | K::DocBlock | K::Attr | K::Shebang => "other",
    }
}

/// Class of a token gap for fingerprints: the categories (ident / lit / kw / open / close / sep /
/// op / other / edge) of the two neighbouring tokens. Deliberately coarse so that the set of
/// classes is small and closed; the price is that a new defect inside an already listed
/// (kind, class) is not reported separately.
fn gap_class(src: &str, toks: &[Tok], gi: usize) -> String {
    let prev = if gi == 0 { "edge" } else { category(&toks[gi - 1], src) };
    let next = if gi >= toks.len() { "edge" } else { category(&toks[gi], src) };
    format!("{}~{}", prev, next)
}

struct Runner<'a> {
    vm: RootedThread,
    out: &'a mut Out,
    /// per fingerprint: (number of failures seen, length of the shortest input written)
    seen: std::collections::HashMap<String, (u64, usize)>,
}

impl<'a> Runner<'a> {
    /// Check one text; `origin` describes how it was produced; `ins` the inserted comments (for
    /// attribution). Returns true if the input was inside the precondition.
    fn run(&mut self, origin: &str, base: &str, toks: &[Tok], ins: &[Ins], crlf: bool) -> bool {
        self.run2(origin, base, toks, ins, crlf).0
    }

    /// (input inside the precondition, property held)
    fn run2(&mut self, origin: &str, base: &str, toks: &[Tok], ins: &[Ins], crlf: bool) -> (bool, bool) {
        let mut text = if ins.is_empty() { base.to_string() } else { apply(base, toks, ins) };
        if crlf {
            text = text.replace("\r\n", "\n").replace('\n', "\r\n");
        }
        self.out.count("oracle:inputs");
        match oracle::check(&self.vm, &text) {
            Verdict::Skip(why) => {
                self.out.count(&format!("oracle:skip:{}", why));
                (false, false)
            }
            Verdict::Pass => {
                self.out.count("oracle:pass");
                self.out.count(&format!("oracle:pass:{}", origin));
                if !ins.is_empty() {
                    for i in ins {
                        self.out.class(format!("pass:{}:{}", gap_class(base, toks, i.gap), style_name(i.style)));
                    }
                }
                (true, true)
            }
            Verdict::Fail(f) => {
                self.report(origin, base, toks, ins, crlf, &text, f);
                (true, false)
            }
        }
    }

    /// The property at another line width (hook `verif_pretty_expr_width`), for an input that
    /// satisfies it at the default width; also: the hook at width 100 must reproduce
    /// `format_expr`, and the token text (non-whitespace characters except commas, the
    /// trailing comma being the one width-dependent token) must be the same at every width.
    fn run_widths(&mut self, origin: &str, text: &str) {
        const WIDTHS: [usize; 5] = [24, 50, 80, 130, 220];
        if let (oracle::Fmt::Ok(a), oracle::Fmt::Ok(b)) =
            (oracle::format(&self.vm, text), oracle::format_width(&self.vm, text, 100))
        {
            if a != b {
                self.fail_plain("hook-differs-at-100", origin, text, "verif_pretty_expr_width(100) ≠ format_expr");
                return;
            }
        }
        let strip = |s: &str| -> String { s.chars().filter(|c| !c.is_whitespace() && *c != ',').collect() };
        let mut toks: Option<String> = None;
        for w in WIDTHS {
            self.out.count("oracle:width-inputs");
            let class = if w < 100 { "narrow" } else { "wide" };
            match oracle::check_width(&self.vm, text, w) {
                Verdict::Skip(why) => self.out.count(&format!("oracle:width-skip:{}", why)),
                Verdict::Pass => {
                    self.out.count("oracle:width-pass");
                    self.out.class(format!("width-pass:{}:{}", origin, w));
                }
                Verdict::Fail(f) => {
                    let fp = format!("{}:{}:width-{}:{}", f.kind, origin, class, failure_tag(&f));
                    let what = format!(
                        "at line width {}: {}: {} | input {:?}{}",
                        w,
                        f.kind,
                        f.detail.chars().take(240).collect::<String>(),
                        text.chars().take(200).collect::<String>(),
                        match &f.formatted {
                            Some(o) => format!(" -> output {:?}", o.chars().take(200).collect::<String>()),
                            None => String::new(),
                        }
                    );
                    self.emit(&fp, &what, text, origin, Some(w));
                    continue;
                }
            }
            if let oracle::Fmt::Ok(o) = oracle::format_width(&self.vm, text, w) {
                let t = strip(&o);
                match &toks {
                    None => toks = Some(t),
                    Some(t0) if *t0 != t => {
                        self.fail_plain("tokens-depend-on-width", origin, text, &format!("token text at width {} differs from width {}", w, WIDTHS[0]));
                        return;
                    }
                    _ => {}
                }
            }
        }
    }

    fn fail_plain(&mut self, kind: &str, origin: &str, text: &str, what: &str) {
        let fp = format!("{}:{}", kind, origin);
        let what = format!("{}: {} | input {:?}", kind, what, text.chars().take(200).collect::<String>());
        self.emit(&fp, &what, text, origin, None);
    }

    fn emit(&mut self, fp: &str, what: &str, text: &str, origin: &str, width: Option<usize>) {
        let what = what.replace('\n', " ").replace('\r', " ");
        self.out.count(&format!("oracle:fail:{}", fp.split(':').next().unwrap_or("")));
        self.out.class(format!("fail:{}", fp));
        let e = self.seen.entry(fp.to_string()).or_insert((0, usize::MAX));
        e.0 += 1;
        if e.0 <= 2 || text.len() < e.1 {
            e.1 = e.1.min(text.len());
            self.out.oracle_fail(fp, &what, json!({"src": text, "origin": origin, "width": width}));
        } else {
            self.out.count("oracle:fail-not-written(same-fingerprint)");
        }
    }

    fn same_kind(&self, text: &str, kind: &str) -> Option<Failure> {
        match oracle::check(&self.vm, text) {
            Verdict::Fail(f) if f.kind == kind => Some(f),
            _ => None,
        }
    }

    fn report(&mut self, origin: &str, base: &str, toks: &[Tok], ins: &[Ins], crlf: bool, text: &str, f: Failure) {
        // attribute to a minimal set of inserted comments
        let mut f = f;
        let mut text = text.to_string();
        let mut set: Vec<Ins> = ins.to_vec();
        let mk = |set: &[Ins]| {
            let mut t = if set.is_empty() { base.to_string() } else { apply(base, toks, set) };
            if crlf {
                t = t.replace("\r\n", "\n").replace('\n', "\r\n");
            }
            t
        };
        if set.len() > 1 {
            let mut i = 0;
            while i < set.len() && set.len() > 1 {
                let mut trial = set.clone();
                trial.remove(i);
                let t = mk(&trial);
                if let Some(f2) = self.same_kind(&t, &f.kind) {
                    set = trial;
                    f = f2;
                    text = t;
                } else {
                    i += 1;
                }
            }
        }
        // does the failure need the comments at all?
        if !set.is_empty() {
            let t = mk(&[]);
            if let Some(f2) = self.same_kind(&t, &f.kind) {
                set.clear();
                f = f2;
                text = t;
            }
        }
        // does it need CRLF?
        let mut crlf_needed = false;
        if crlf {
            let t = text.replace("\r\n", "\n");
            if let Some(f2) = self.same_kind(&t, &f.kind) {
                f = f2;
                text = t;
            } else {
                crlf_needed = true;
            }
        }
        let mut where_: Vec<String> = if f.kind.starts_with("comment-") && f.comment.is_some() && !set.is_empty() {
            // the gap of the comment concerned
            let c = f.comment.clone().unwrap();
            let hit: Vec<&Ins> = set.iter().filter(|i| i.text == c).collect();
            if hit.is_empty() {
                set.iter().map(|i| gap_class(base, toks, i.gap)).collect()
            } else {
                hit.iter().map(|i| gap_class(base, toks, i.gap)).collect()
            }
        } else {
            set.iter().map(|i| gap_class(base, toks, i.gap)).collect()
        };
        where_.sort();
        where_.dedup();
        let place = if where_.is_empty() {
            format!("{}:{}", origin_class(origin), failure_tag(&f))
        } else if where_.len() == 1 {
            where_[0].clone()
        } else {
            // several comments are needed together: class of the (alphabetically) first gap
            where_[0].clone()
        };
        let fp = format!("{}{}:{}", f.kind, if crlf_needed { ":crlf" } else { "" }, place);
        self.out.count(&format!("oracle:fail:{}", f.kind));
        self.out.class(format!("fail:{}", fp));
        let what = format!(
            "{}: {} | input {:?}{}",
            f.kind,
            f.detail.chars().take(240).collect::<String>(),
            text.chars().take(200).collect::<String>(),
            match &f.formatted {
                Some(o) => format!(" -> output {:?}", o.chars().take(200).collect::<String>()),
                None => String::new(),
            }
        );
        let what = what.replace('\n', " ").replace('\r', " ");
        // every failure is counted; the failing input itself is written for the first two
        // failures of a fingerprint and whenever it is shorter than all earlier ones
        let e = self.seen.entry(fp.clone()).or_insert((0, usize::MAX));
        e.0 += 1;
        if e.0 <= 2 || text.len() < e.1 {
            e.1 = e.1.min(text.len());
            self.out.oracle_fail(&fp, &what, json!({"src": text, "origin": origin}));
        } else {
            self.out.count("oracle:fail-not-written(same-fingerprint)");
        }
    }
}

/// Only AST differences keep their tag (`Constructor/Ident`, `name`, …): it separates a
/// re-association or a dropped node from the listed defects.
fn failure_tag(f: &Failure) -> String {
    if f.kind == "ast-changed" || f.kind == "literal-changed" { f.tag.clone() } else { "-".to_string() }
}

/// Class of an input that fails without any inserted comment being responsible.
fn origin_class(origin: &str) -> String {
    // "file:<path>[#mode]" -> "file[#mode]"; generated origins are already classes
    if let Some(rest) = origin.strip_prefix("file:") {
        match rest.find('#') {
            Some(i) => format!("file{}", &rest[i..]),
            None => "file".to_string(),
        }
    } else {
        origin.to_string()
    }
}

#[allow(dead_code)]
fn style_name(s: u8) -> &'static str {
    match s {
        0 => "block-inline",
        1 => "block-after-prev",
        2 => "line-trailing",
        3 => "line-own",
        _ => "block-own",
    }
}

/// Whitespace perturbation of a text at its token gaps.
fn perturb_ws(rng: &mut gv::rng::Rng, src: &str, toks: &[Tok], mode: u8) -> String {
    let mut out = String::new();
    for gi in 0..=toks.len() {
        let gstart = if gi == 0 { 0 } else { toks[gi - 1].end };
        let gend = if gi == toks.len() { src.len() } else { toks[gi].start };
        let gap = &src[gstart..gend];
        let next_is_comment = gi < toks.len() && toks[gi].is_comment();
        let prev_is_line = gi > 0 && matches!(toks[gi - 1].k, K::Line | K::DocLine | K::Shebang);
        if gap.is_empty() || gi == 0 {
            out.push_str(gap);
        } else if gap.contains('\n') {
            match mode {
                // trailing spaces before the newline
                0 if rng.chance(1, 2) => {
                    out.push_str(if prev_is_line { "" } else { "   " });
                    out.push_str(gap);
                }
                // an extra blank line
                1 if rng.chance(1, 3) => {
                    let i = gap.find('\n').unwrap();
                    out.push_str(&gap[..=i]);
                    out.push('\n');
                    out.push_str(&gap[i + 1..]);
                }
                // remove blank lines
                2 => {
                    let i = gap.rfind('\n').unwrap();
                    let j = gap.find('\n').unwrap();
                    out.push_str(&gap[..j]);
                    out.push_str(&gap[i..]);
                }
                _ => out.push_str(gap),
            }
        } else {
            match mode {
                // wider spacing inside a line (keeps the first token's column of the line)
                3 if rng.chance(1, 3) && !next_is_comment => {
                    out.push_str(gap);
                    out.push_str("  ");
                }
                _ => out.push_str(gap),
            }
        }
        if gi < toks.len() {
            out.push_str(toks[gi].text(src));
        }
    }
    out
}

const WS_MODES: [&str; 4] = ["trailing-spaces", "extra-blank-lines", "no-blank-lines", "wide-spacing"];

fn glu_files() -> Vec<std::path::PathBuf> {
    let mut v = vec![];
    for dir in ["/repo/std", "/repo/examples", "/repo/std/json", "/repo/std/regex", "/repo/std/http", "/repo/std/effect", "/repo/std/control", "/repo/std/data"] {
        if let Ok(rd) = std::fs::read_dir(dir) {
            for e in rd.flatten() {
                let p = e.path();
                if p.extension().map_or(false, |x| x == "glu") {
                    v.push(p);
                }
            }
        }
    }
    v.sort();
    v.dedup();
    v
}

fn new_vm() -> RootedThread {
    // the default configuration (implicit prelude on), as `gluon fmt` uses it: the prelude's
    // operators have fixities
    gv::vm::new_vm()
}

/// Size of the fixed program pool (see `main`).
const POOL: u64 = 6000;
/// Number of perturbation variants of each repository file.
const FILE_VARIANTS: u64 = 8;

/// Everything that is examined for pool program `pi`; deterministic in `pi` (the quick tier
/// does a subset of what the thorough tier does, in the same order of random draws).
fn run_program(r: &mut Runner, pi: u64, thorough: bool) {
    let mut rng = gv::rng::Rng::new(pi, 1010);
    let mut tag = 0u64;
    let depth = 1 + (pi % 4) as u32;
    let long = pi % 3 == 0;
    let use_in = pi % 8 == 7;
    let undefined_op = pi % 16 == 5;
    // literal-spelling family: a quarter of the pool
    let lit_heavy = (pi / 4) % 3 == 1 && !undefined_op;
    let (p, used) = {
        let mut g = gen::Gen::new(&mut rng, long, use_in, undefined_op);
        g.lit_heavy = lit_heavy;
        g.expr(depth);
        g.w_nl();
        (g.s.clone(), g.used.clone())
    };
    let style = if use_in { "in-style" } else { "layout" };
    let style = if undefined_op { "undefined-op" } else { style };
    let style = if lit_heavy { "literals" } else { style };
    r.out.count(&format!("gen:style:{}", style));
    for u in &used {
        r.out.count(&format!("gen:construct:{}", u));
    }
    let ptoks = match lex::tokenize(&p) {
        Some(t) => t,
        None => {
            r.out.count("oracle:skip:oracle-tokenizer");
            return;
        }
    };
    let (inside, held) = r.run2(&format!("gen:{}", style), &p, &ptoks, &[], false);
    if !inside {
        r.out.count("gen:rejected-by-parser");
        return;
    }
    if !held {
        // the program itself already violates the property: variants of it would only repeat
        // that failure
        r.out.count("gen:base-program-fails");
        return;
    }
    if pi % 500 == 3 {
        r.out.sample(json!({"pool_index": pi, "generated": p}));
    }
    // the canonical multi-line layout of the same program
    let q = match oracle::format(&r.vm, &p) {
        oracle::Fmt::Ok(q) => q,
        _ => return,
    };
    let qtoks = match lex::tokenize(&q) {
        Some(t) => t,
        None => return,
    };
    if !r.run2("gen:formatted", &q, &qtoks, &[], false).1 {
        r.out.count("gen:base-program-fails");
        return;
    }
    r.run("gen:formatted-crlf", &q, &qtoks, &[], true);
    // the property at other line widths, on the program as generated and as formatted
    r.run_widths(&format!("gen:{}", style), &p);
    if pi % 2 == 0 {
        r.run_widths("gen:formatted", &q);
    }
    for mode in 0..4u8 {
        let w = perturb_ws(&mut rng, &q, &qtoks, mode);
        if let Some(wt) = lex::tokenize(&w) {
            r.run(&format!("gen:{}", WS_MODES[mode as usize]), &w, &wt, &[], mode == 1 && pi % 2 == 0);
        }
    }
    // one comment in every token gap of the multi-line layout, every style
    for (base, toks, name) in [(&q, &qtoks, "multi"), (&p, &ptoks, "one-line")] {
        let stride = if name == "one-line" { 3 } else { 1 };
        for gi in (0..=toks.len()).filter(|g| (g + pi as usize) % stride == 0) {
            for style in 0..5u8 {
                tag += 1;
                if !thorough && name == "one-line" && style != 2 && style != 0 {
                    continue;
                }
                let ins = [Ins { gap: gi, style, text: comment_text(style, &format!("c{}", tag % 97)) }];
                let crlf = (gi + style as usize + pi as usize) % 5 == 0;
                r.run(&format!("gen:{}:one-comment", name), base, toks, &ins, crlf);
            }
        }
    }
    // several comments at once
    let rounds = if thorough { 12 } else { 6 };
    for k in 0..rounds {
        let n = 2 + rng.below(5) as usize;
        let mut ins = vec![];
        for j in 0..n {
            let gi = rng.below(qtoks.len() as u64 + 1) as usize;
            let style = rng.below(5) as u8;
            ins.push(Ins { gap: gi, style, text: comment_text(style, &format!("m{}x{}", k, j)) });
        }
        r.run("gen:multi:several-comments", &q, &qtoks, &ins, k % 3 == 0);
    }
}

/// Width independence of the real TYPE printer (the formatter's own width is hard-coded to 100,
/// format/src/lib.rs:44): the type of pool index `ti` rendered at several widths must have the
/// same non-whitespace characters at every width. Deterministic in `ti`.
fn run_type(r: &mut Runner, ti: u64) {
    let mut rng = gv::rng::Rng::new(ti, 3030);
    let long = ti % 2 == 0;
    let ty = {
        let mut g = gen::Gen::new(&mut rng, long, false, false);
        g.typ(1 + (ti % 4) as u32)
    };
    let widths = [1usize, 10, 20, 40, 80, 200];
    r.out.count("typewidth:inputs");
    match oracle::type_at_widths(&ty, &widths) {
        Err(_) => r.out.count("typewidth:skip:does-not-parse"),
        Ok(rs) => {
            let mut toks: Vec<(usize, String)> = vec![];
            for (w, x) in widths.iter().zip(rs.iter()) {
                match x {
                    Ok(s) => toks.push((*w, s.chars().filter(|c| !c.is_whitespace()).collect())),
                    Err(p) => {
                        let fp = "panic:type-printer".to_string();
                        r.out.oracle_fail(&fp, &format!("type printer panicked at width {}: {}", w, p), json!({"type": ty, "width": w}));
                        return;
                    }
                }
            }
            let first = toks[0].1.clone();
            if let Some((w, t)) = toks.iter().find(|(_, t)| *t != first) {
                r.out.oracle_fail(
                    "type-printer:tokens-depend-on-width",
                    &format!("type {:?}: tokens at width 1 {:?} ≠ at width {} {:?}", ty, first, w, t),
                    json!({"type": ty, "width": w}),
                );
            } else {
                r.out.count("typewidth:pass");
                let lines: usize = rs.iter().map(|x| x.as_ref().map_or(0, |s| s.lines().count())).max().unwrap_or(0);
                r.out.class(format!("typewidth:depth{}:lines{}", 1 + ti % 4, lines.min(12)));
            }
        }
    }
}

/// A repository file as it is and (if `perturb`) its perturbation variant `variant`;
/// deterministic in (file index, variant).
fn run_file(r: &mut Runner, fi: usize, path: &std::path::Path, variant: u64, perturb: bool, thorough: bool) {
    let src = match std::fs::read_to_string(path) {
        Ok(s) => s,
        Err(_) => return,
    };
    let mut rng = gv::rng::Rng::new(fi as u64 * FILE_VARIANTS + variant, 2020);
    let name = path.strip_prefix("/repo").unwrap().display().to_string();
    let origin = format!("file:{}", name);
    let toks = match lex::tokenize(&src) {
        Some(t) => t,
        None => {
            r.out.count("oracle:skip:oracle-tokenizer");
            return;
        }
    };
    let (inside, held) = r.run2(&origin, &src, &toks, &[], false);
    if !inside {
        return;
    }
    r.out.count("files:checked");
    if !held || !perturb {
        return;
    }
    r.run(&format!("{}#crlf", origin), &src, &toks, &[], true);
    for mode in 0..4u8 {
        let w = perturb_ws(&mut rng, &src, &toks, mode);
        if let Some(wt) = lex::tokenize(&w) {
            r.run(&format!("{}#{}", origin, WS_MODES[mode as usize]), &w, &wt, &[], false);
        }
    }
    let n_ins = if thorough { 40 } else { 6 };
    for k in 0..n_ins {
        let gi = rng.below(toks.len() as u64 + 1) as usize;
        let style = rng.below(5) as u8;
        let ins = [Ins { gap: gi, style, text: comment_text(style, &format!("f{}", k)) }];
        r.run("file:one-comment", &src, &toks, &ins, false);
    }
}


// ---------------------------------------------------------------------------------------
// Wave 2: syntax-class families (c10/syn.rs)

/// Does the text typecheck (default VM, implicit prelude)? A panic counts as "no".
fn tc_ok(vm: &RootedThread, src: &str) -> bool {
    use gluon::ThreadExt;
    use std::sync::atomic::{AtomicU64, Ordering};
    static N: AtomicU64 = AtomicU64::new(0);
    let name = format!("c10_tc_{}", N.fetch_add(1, Ordering::Relaxed));
    matches!(gv::catch(|| vm.typecheck_str(&name, src, None).is_ok()), Ok(true))
}

/// One text of a syntax family: the full property (AST incl. types and kinds, comments,
/// literals, idempotence) and the clause "the formatted program typechecks iff the original
/// did". Returns (inside the precondition, property held).
fn run_syn_text(r: &mut Runner, origin: &str, text: &str, widths: bool) -> (bool, bool) {
    let toks = match lex::tokenize(text) {
        Some(t) => t,
        None => {
            r.out.count("oracle:skip:oracle-tokenizer");
            return (false, false);
        }
    };
    r.out.count("syn:inputs");
    let (inside, held) = r.run2(origin, text, &toks, &[], false);
    if !inside {
        r.out.count(&format!("syn:rejected-by-parser:{}", origin));
        return (false, false);
    }
    if let oracle::Fmt::Ok(f) = oracle::format(&r.vm, text) {
        if oracle::ast(&f).is_ok() {
            let (a, b) = (tc_ok(&r.vm, text), tc_ok(&r.vm, &f));
            r.out.count("syn:typecheck-compared");
            if a != b {
                let dir = if a { "ok-to-err" } else { "err-to-ok" };
                let fp = format!("typecheck-changed:{}:{}", origin, dir);
                let what = format!(
                    "the original {} but the formatted program {} | input {:?} -> output {:?}",
                    if a { "typechecks" } else { "does not typecheck" },
                    if b { "typechecks" } else { "does not typecheck" },
                    text.chars().take(200).collect::<String>(),
                    f.chars().take(200).collect::<String>()
                );
                r.emit(&fp, &what, text, origin, None);
            } else {
                r.out.count(if a { "syn:typechecks-before-and-after" } else { "syn:ill-typed-before-and-after" });
                r.out.class(format!("syn-pass:{}:{}", origin, if a { "typed" } else { "untyped" }));
            }
        }
    }
    if held {
        r.out.count("syn:held");
        if widths {
            r.run_widths(origin, text);
        }
    }
    (true, held)
}

/// What the REAL formatter prints for the parameter `(p : k)` of `type T (p : k) = Int`, and
/// whether the real parser reads the formatted program back to the same AST: the payload of
/// the `kindfmt` correspondence case (the Lean model `KindSyntax.paramText` / `parseParam`
/// answers the same question).
fn kindfmt_payload(vm: &RootedThread, k: &syn::Kd) -> String {
    let src = format!("type T (p : {}) = Int\n()\n", k.text());
    match oracle::format(vm, &src) {
        oracle::Fmt::Ok(f) => {
            let first = f.lines().next().unwrap_or("");
            match first.strip_prefix("type T ").and_then(|x| x.strip_suffix(" = Int")) {
                Some(param) => {
                    let same = match (oracle::ast(&src), oracle::ast(&f)) {
                        (Ok(a), Ok(b)) => a == b,
                        _ => false,
                    };
                    format!("(k {} {})", gv::quote(param), if same { "same" } else { "changed" })
                }
                None => format!("(k-unexpected {})", gv::quote(first)),
            }
        }
        oracle::Fmt::Refused(_) => "refused".into(),
        oracle::Fmt::Panic(_) => "panic".into(),
    }
}

const KIND_POOL: u64 = 2000;

/// Input class of a kind program. `wide`: some source line is longer than 80 columns, so the
/// `type … =` header may not fit the formatter's 100 columns (the formatted header is never
/// more than 2 columns per parameter longer than the source's); a program that is not `wide`
/// is always laid out flat at the default width.
fn kind_origin(class: &str, explicit_type: bool, text: &str) -> String {
    let wide = text.lines().any(|l| l.chars().count() > 80);
    format!("syn:kind{}{}:{}", if explicit_type { "-explicit-Type" } else { "" }, if wide { "-wide" } else { "" }, class)
}

/// Kind `k`, program shape `shape`.
fn run_kind(r: &mut Runner, k: &syn::Kd, shape: u64, widths: bool) {
    let (class, text, et) = syn::kind_program(k, shape);
    r.out.count(&format!("syn:kind-shape:{}", class));
    r.out.count(&format!("syn:kind-depth:{}", k.depth()));
    run_syn_text(r, &kind_origin(class, et, &text), &text, widths);
}

/// Random deeper kind number `ki` of the fixed pool (depth ≤ 4), all shapes selected by `ki`.
fn run_kind_pool(r: &mut Runner, ki: u64, thorough: bool) {
    let mut rng = gv::rng::Rng::new(ki, 6060);
    let k = syn::random_kind(&mut rng, 4);
    // the model prints the flat layout: compared where the header fits the line
    if k.text().chars().count() <= 60 {
        let payload = kindfmt_payload(&r.vm, &k);
        r.out.case(&format!("kindfmt {}", k.sexp()), &payload);
        r.out.class(format!("kindfmt:depth{}:{}", k.depth(), payload.ends_with("same)")));
    } else {
        r.out.count("kindfmt:skipped(header-does-not-fit-the-line)");
    }
    let n = if thorough { syn::KIND_SHAPES } else { 2 };
    for j in 0..n {
        run_kind(r, &k, (ki + j * 4) % syn::KIND_SHAPES, thorough && j == 0);
    }
}

/// The exhaustive kind family: every kind of arrow depth ≤ 2 over {Type, Row, _} (147).
fn run_kinds_exhaustive(r: &mut Runner, seed: u64, thorough: bool, sweep: bool) {
    let kinds = syn::all_kinds(2);
    r.out.stats.insert("syn_kinds_enumerated".into(), (kinds.len() as u64).into());
    for (i, k) in kinds.iter().enumerate() {
        let payload = kindfmt_payload(&r.vm, k);
        r.out.case(&format!("kindfmt {}", k.sexp()), &payload);
        if thorough || sweep {
            for shape in 0..syn::KIND_SHAPES {
                run_kind(r, k, shape, sweep || shape == 1 || shape == 7);
            }
        } else {
            run_kind(r, k, 0, false);
            run_kind(r, k, 1, (i as u64 + seed) % 8 == 0);
            let s1 = 2 + (i as u64 + seed) % 7;
            run_kind(r, k, s1, s1 == 7 && (i as u64 + seed / 7) % 4 == 0);
        }
    }
}

/// Stable name of declaration `i`: `<class>.<ordinal within the class>`.
fn decl_slug(i: usize) -> String {
    let c = syn::DECLS[i].0;
    let ord = syn::DECLS[..i].iter().filter(|d| d.0 == c).count();
    format!("{}.{}", c, ord)
}

/// Every declaration of the production-class table alone (exhaustive); returns which ones
/// satisfy the property (only those are combined into pairs).
fn run_syn_singles(r: &mut Runner, seed: u64, all_bodies: bool) -> Vec<bool> {
    let mut ok = vec![];
    for i in 0..syn::DECLS.len() {
        let origin = format!("syn:{}", decl_slug(i));
        let bodies: Vec<usize> = if all_bodies { (0..syn::BODIES.len()).collect() } else { vec![0, 1 + (i + seed as usize) % (syn::BODIES.len() - 1)] };
        let mut all = true;
        for (n, j) in bodies.iter().enumerate() {
            let (class, text) = syn::single(i, *j);
            r.out.count(&format!("syn:class:{}", class));
            let (inside, held) = run_syn_text(r, &origin, &text, n == 0);
            if !inside || !held {
                all = false;
            }
            if !held {
                break;
            }
        }
        ok.push(all);
    }
    ok
}

fn run_syn_pair(r: &mut Runner, si: u64, ok: &[bool]) {
    let n = syn::DECLS.len() as u64;
    let (a, b) = ((si % n) as usize, ((si / n) % n) as usize);
    if !ok[a] || !ok[b] {
        r.out.count("syn:pair-skipped(a-declaration-fails-alone)");
        return;
    }
    let (class, text) = syn::program(si);
    run_syn_text(r, &format!("syn-pair:{}", class), &text, false);
}

fn main() {
    gv::quiet_panics();
    let args = Args::parse();
    if let Some(i) = args.extra.iter().position(|a| a == "--iter") {
        let s = args.extra[i + 1].replace("\\n", "\n").replace("\\r", "\r");
        println!("fwd {}", corr::fwd(&s));
        println!("rev {}", corr::rev(&s));
        return;
    }
    if let Some(i) = args.extra.iter().position(|a| a == "--fmt") {
        let s = std::fs::read_to_string(&args.extra[i + 1]).unwrap();
        let vm = new_vm();
        match oracle::format(&vm, &s) {
            oracle::Fmt::Ok(o) => println!("OK\n{}", o),
            oracle::Fmt::Refused(e) => println!("REFUSED {}", e),
            oracle::Fmt::Panic(p) => println!("PANIC {}", p),
        }
        match oracle::check(&vm, &s) {
            Verdict::Pass => println!("verdict: pass"),
            Verdict::Skip(w) => println!("verdict: skip {}", w),
            Verdict::Fail(f) => println!("verdict: FAIL {} — {}", f.kind, f.detail),
        }
        if args.extra.iter().any(|a| a == "--ast") {
            println!("{:?}", oracle::ast(&s));
        }
        return;
    }
    if let Some(path) = &args.replay {
        let v: serde_json::Value = serde_json::from_str(&std::fs::read_to_string(path).unwrap()).unwrap();
        let case = v.get("case").unwrap_or(&v);
        let case = case.get("replay").unwrap_or(case);
        let src = case["src"].as_str().expect("replay has no `src`");
        let vm = new_vm();
        println!("input:\n{}", src);
        if let Some(w) = case.get("width").and_then(|w| w.as_u64()) {
            match oracle::format_width(&vm, src, w as usize) {
                oracle::Fmt::Ok(o) => println!("formatted at width {}:\n{}", w, o),
                oracle::Fmt::Refused(e) => println!("REFUSED {}", e),
                oracle::Fmt::Panic(p) => println!("PANIC {}", p),
            }
            match oracle::check_width(&vm, src, w as usize) {
                Verdict::Pass => println!("verdict at width {}: pass", w),
                Verdict::Skip(x) => println!("verdict: skip {}", x),
                Verdict::Fail(f) => println!("verdict at width {}: FAIL {} — {}", w, f.kind, f.detail),
            }
            return;
        }
        match oracle::format(&vm, src) {
            oracle::Fmt::Ok(o) => println!("formatted:\n{}", o),
            oracle::Fmt::Refused(e) => println!("REFUSED {}", e),
            oracle::Fmt::Panic(p) => println!("PANIC {}", p),
        }
        match oracle::check(&vm, src) {
            Verdict::Pass => println!("verdict: pass"),
            Verdict::Skip(w) => println!("verdict: skip {}", w),
            Verdict::Fail(f) => println!("verdict: FAIL {} — {}", f.kind, f.detail),
        }
        return;
    }
    let mut out = Out::new(&args.out);
    let mut rng = gv::rng::Rng::new(args.seed, 10);
    corr::run(&mut out, &mut rng, args.thorough());
    // layout engine: real `pretty` vs the Lean model of `render::best`
    let mut drng = gv::rng::Rng::new(args.seed, 4040);
    docs::run(&mut out, &mut drng, args.thorough());

    let thorough = args.thorough();
    let mut r = Runner { vm: new_vm(), out: &mut out, seen: Default::default() };
    let mut rng = gv::rng::Rng::new(args.seed, 1010);

    // corpus: minimised past failures run first
    if let Ok(rd) = std::fs::read_dir("/verif/corpus/C10") {
        let mut files: Vec<_> = rd.flatten().map(|e| e.path()).collect();
        files.sort();
        for p in files {
            if let Ok(s) = std::fs::read_to_string(&p) {
                if let Some(t) = lex::tokenize(&s) {
                    r.run("corpus", &s, &t, &[], false);
                }
            }
        }
    }


    // ---- wave 2: syntax-class families (kinds exhaustively; every production class) --------
    let sweep_syn = args.extra.iter().any(|a| a == "--sweep-syn");
    let sweep_other = args.extra.iter().any(|a| a == "--sweep-programs" || a == "--sweep-files");
    // `--sweep-syn A B` with A > 0 continues a pair sweep: the kind families are not repeated
    let pairs_only = match args.extra.iter().position(|a| a == "--sweep-syn") {
        Some(i) => args.extra.get(i + 1).and_then(|x| x.parse::<u64>().ok()).map_or(false, |a| a > 0),
        None => false,
    };
    if !sweep_other {
        if !pairs_only {
            run_kinds_exhaustive(&mut r, args.seed, thorough, sweep_syn);
        }
        let mut krng = gv::rng::Rng::new(args.seed, 6061);
        if pairs_only {
        } else if sweep_syn {
            for ki in 0..KIND_POOL {
                run_kind_pool(&mut r, ki, true);
            }
        } else {
            for _ in 0..(if thorough { 400 } else { 40 }) {
                let ki = krng.below(KIND_POOL);
                run_kind_pool(&mut r, ki, thorough);
            }
        }
        let ok = run_syn_singles(&mut r, args.seed, thorough || sweep_syn);
        if sweep_syn {
            let (a, b) = match args.extra.iter().position(|a| a == "--sweep-syn") {
                Some(i) if args.extra.len() > i + 2 => (args.extra[i + 1].parse().unwrap_or(0), args.extra[i + 2].parse().unwrap_or(syn::pool_size())),
                _ => (0, syn::pool_size()),
            };
            for si in a..b.min(syn::pool_size()) {
                run_syn_pair(&mut r, si, &ok);
            }
        } else {
            for _ in 0..(if thorough { 1500 } else { 120 }) {
                let si = krng.below(syn::pool_size());
                run_syn_pair(&mut r, si, &ok);
            }
        }
        r.out.stats.insert("syn_pair_pool_size".into(), syn::pool_size().into());
        r.out.stats.insert("syn_declarations".into(), (syn::DECLS.len() as u64).into());
    }
    if sweep_syn {
        out.finish();
        return;
    }
    // ---- generated programs ------------------------------------------------------------
    // The programs come from a fixed pool: program `i` and everything derived from it (layouts,
    // perturbations, comment placements) is a function of `i` alone. The run seed only selects
    // WHICH programs of the pool are examined, so the set of failure classes a run can report is
    // closed: it is the set the full-pool sweep (`--sweep-programs A B`) reports, all listed in
    // known_findings.json for the unchanged tree. A change of gluon's source that creates a new
    // class is therefore a VIOLATION for every seed that selects an affected program.
    let sweep_any = args.extra.iter().any(|a| a == "--sweep-programs" || a == "--sweep-files");
    if let Some(i) = args.extra.iter().position(|a| a == "--sweep-programs") {
        let a: u64 = args.extra[i + 1].parse().unwrap();
        let b: u64 = args.extra[i + 2].parse().unwrap();
        for pi in a..b {
            run_program(&mut r, pi, true);
        }
    } else if !args.extra.iter().any(|a| a == "--sweep-files") {
        let n_prog = if thorough { 1500 } else { 140 };
        for k in 0..n_prog {
            let pi = rng.below(POOL);
            run_program(&mut r, pi, thorough);
            let _ = k;
        }
    }
    r.out.stats.insert("program_pool_size".into(), POOL.into());
    // type printer at several widths (pool of the same size, seed selects)
    if !sweep_any {
        let n_ty = if thorough { 3000 } else { 400 };
        for _ in 0..n_ty {
            let ti = rng.below(POOL);
            run_type(&mut r, ti);
        }
    } else if args.extra.iter().any(|a| a == "--sweep-files") {
        for ti in 0..POOL {
            run_type(&mut r, ti);
        }
    }

    // ---- every .glu file of the repository ------------------------------------------------
    let files = glu_files();
    r.out.stats.insert("repo_glu_files".into(), (files.len() as u64).into());
    let sweep_files = args.extra.iter().any(|a| a == "--sweep-files");
    let sweep_programs = args.extra.iter().any(|a| a == "--sweep-programs");
    for (fi, path) in files.iter().enumerate() {
        if sweep_programs {
            break;
        }
        if sweep_files {
            for v in 0..FILE_VARIANTS {
                run_file(&mut r, fi, path, v, true, true);
            }
        } else {
            let perturb = thorough || fi % 3 == (args.seed % 3) as usize;
            run_file(&mut r, fi, path, args.seed % FILE_VARIANTS, perturb, thorough);
        }
    }
    out.finish();
}
