//! C16 — compilation and evaluation are deterministic.
//!
//! Three parts:
//!  1. property oracle (model-independent): every generated program is observed as the canonical
//!     triple (value, type text, diagnostics text) under several *histories* — fresh VM per
//!     program in this process, fresh VM per program in a child process, a long-lived VM in a
//!     child process that compiled unrelated programs first and sees the stream permuted, a
//!     long-lived VM that sees the stream reversed and runs every program twice — and the
//!     observations are compared byte for byte;
//!  2. correspondence `rename`: generated type skeletons with arbitrary variable ids vs the names
//!     the real checker prints for a program that has exactly that type;
//!  3. correspondence `match`: generated nested constructor/literal matches vs the decision tree
//!     built by the real `PatternTranslator` (grouping of arms by first occurrence).
use gluon::query::{AsyncCompilation, CompilationBase};
use gluon::vm::api::{Hole, OpaqueValue, ValueRef};
use gluon::vm::core;
use gluon::{RootedThread, Thread, ThreadExt};
use gluon_base::types::{ArcType, Type, TypeExt};
use gv::rng::Rng;
use gv::{quote, Args, Out};
use std::collections::BTreeMap;
use std::time::Duration;

#[path = "c16/gen.rs"]
mod gen;
#[path = "c16/macros.rs"]
mod macros;
use gen::{Prog, gen_stream};

// ---------------------------------------------------------------------------------------------
// observation

fn render_value(v: ValueRef, depth: u32, out: &mut String) {
    if depth > 40 {
        out.push_str("…");
        return;
    }
    match v {
        ValueRef::Byte(b) => out.push_str(&format!("{}b", b)),
        ValueRef::Int(i) => out.push_str(&format!("{}", i)),
        ValueRef::Float(f) => out.push_str(&format!("f{:016x}", f.to_bits())),
        ValueRef::String(s) => out.push_str(&quote(s)),
        ValueRef::Data(d) => {
            out.push_str(&format!("(#{}", d.tag()));
            for i in 0..d.len() {
                out.push(' ');
                match d.get(i) {
                    Some(x) => render_value(x, depth + 1, out),
                    None => out.push('?'),
                }
            }
            out.push(')');
        }
        ValueRef::Array(a) => {
            out.push('[');
            for (i, x) in a.iter().enumerate() {
                if i > 0 {
                    out.push(' ');
                }
                render_value(x.as_ref(), depth + 1, out);
            }
            out.push(']');
        }
        ValueRef::Userdata(_) => out.push_str("<userdata>"),
        ValueRef::Thread(_) => out.push_str("<thread>"),
        ValueRef::Closure(c) => {
            out.push_str(&format!("<fn {} {}>", c.name(), c.upvars().count()));
        }
        ValueRef::Internal => out.push_str("<internal>"),
    }
}

/// The canonical observation of one program in one VM: `ok|value|type` or `err|diagnostics`.
fn observe(vm: &Thread, p: &Prog) -> String {
    let r = gv::catch(|| {
        match vm.run_expr::<OpaqueValue<&Thread, Hole>>(&p.name, &p.src) {
            Ok((v, t)) => {
                let mut s = String::from("ok|");
                render_value(v.get_ref(), 0, &mut s);
                s.push('|');
                s.push_str(&format!("{}", t));
                s
            }
            Err(e) => {
                let text = match e.emit_string() {
                    Ok(s) => s,
                    Err(_) => format!("{}", e),
                };
                format!("err|{}", text)
            }
        }
    });
    match r {
        Ok(s) => s,
        // A panic is a crash, not a diagnostic: its payload (often a `{:?}` dump with heap
        // addresses) is not text the property speaks about; the outcome class and the message
        // with addresses masked are still compared.
        Err(p) => format!("panic|{}", mask_after(&p.chars().take(300).collect::<String>(), "0x")),
    }
}

fn fresh_vm(prelude: bool) -> RootedThread {
    let vm = gv::vm::new_vm();
    vm.get_database_mut().set_implicit_prelude(prelude);
    vm
}

/// "Unrelated work": programs that are not part of the stream.
fn junk(vm: &Thread, k: u64) {
    let srcs = [
        "let f x y = { x, y } in f 1 \"a\"",
        "type J a = | JA a | JB in match JA 1 with | JA x -> x | JB -> 0",
        "let g a b c = a in g",
        "\\x -> x.nofield",
        "let h x = x #Int+ \"s\" in h",
        "{ a = 1, b = \\q -> q, c = [1, 2, 3] }",
        "let a = 1 in let a = \"x\" in let b = a in (a, b, undefined_thing)",
    ];
    let s = srcs[(k % srcs.len() as u64) as usize];
    let _ = gv::catch(|| vm.run_expr::<OpaqueValue<&Thread, Hole>>(&format!("junk{}", k % 5), s).map(|_| ()));
}

/// Histories. Each returns index -> observation (possibly several per index).
fn run_history(
    mode: &str,
    progs: &[Prog],
    seed: u64,
    skip: &std::collections::BTreeSet<usize>,
    progress: &mut dyn FnMut(usize),
) -> Vec<(usize, String)> {
    let mut res = vec![];
    // programs that hang or abort the process are replaced by a trivial one (same index, same
    // module name), so that the histories keep their shape
    let trivial = |p: &Prog| Prog {
        name: p.name.clone(),
        src: "0\n".into(),
        prelude: p.prelude,
        kind: p.kind.clone(),
        shape: p.shape.clone(),
    };
    let mut observe = |vm: &Thread, i: usize| -> String {
        progress(i);
        if skip.contains(&i) {
            observe(vm, &trivial(&progs[i]))
        } else {
            observe(vm, &progs[i])
        }
    };
    match mode {
        // fresh VM per program, stream order
        "fresh" => {
            for (i, p) in progs.iter().enumerate() {
                if p.prelude {
                    continue;
                }
                let vm = fresh_vm(false);
                res.push((i, observe(&vm, i)));
            }
        }
        // one long-lived VM: unrelated work first, other VMs and threads created, heap shifted,
        // stream permuted, unrelated work in between
        "long" | "long2" => {
            let second = mode == "long2";
            let mut rng = Rng::new(seed, if second { 1611 } else { 1601 });
            let _others: Vec<RootedThread> =
                (0..if second { 1 } else { 3 }).map(|_| gv::vm::new_vm()).collect();
            let mut ballast: Vec<Vec<u8>> = vec![];
            for pre in [false, true] {
                let vm = fresh_vm(pre);
                let _threads: Vec<_> =
                    (0..if second { 9 } else { 4 }).filter_map(|_| vm.new_thread().ok()).collect();
                for k in 0..(if second { 40 } else { 12 }) {
                    junk(&vm, k);
                }
                let mut order: Vec<usize> =
                    (0..progs.len()).filter(|&i| progs[i].prelude == pre).collect();
                for i in (1..order.len()).rev() {
                    let j = rng.below(i as u64 + 1) as usize;
                    order.swap(i, j);
                }
                for (n, i) in order.into_iter().enumerate() {
                    if n % 7 == 3 {
                        junk(&vm, rng.below(1000));
                        ballast.push(vec![0u8; 1 + rng.below(5000) as usize]);
                    }
                    res.push((i, observe(&vm, i)));
                }
            }
        }
        // one long-lived VM: stream reversed, every program run twice in a row (second run sees
        // the first run's caches and leftovers)
        "twice" => {
            for pre in [false, true] {
                let vm = fresh_vm(pre);
                for i in (0..progs.len()).rev() {
                    if progs[i].prelude != pre {
                        continue;
                    }
                    res.push((i, observe(&vm, i)));
                    res.push((i, observe(&vm, i)));
                }
            }
        }
        _ => panic!("unknown history {}", mode),
    }
    res
}

fn child_main(argv: &[String]) {
    // --child <mode> <tier> <seed> <skip,skip,…|->
    use std::io::Write;
    gv::quiet_panics();
    let mode = &argv[0];
    let tier = &argv[1];
    let seed: u64 = argv[2].parse().unwrap();
    let skip: std::collections::BTreeSet<usize> = argv
        .get(3)
        .map(|s| s.split(',').filter_map(|x| x.parse().ok()).collect())
        .unwrap_or_default();
    fn print_start(i: usize) {
        let so = std::io::stdout();
        let mut so = so.lock();
        let _ = writeln!(so, "START {}", i);
        let _ = so.flush();
    }
    let res = if mode.starts_with("m-") {
        macros::run_mhistory(mode, seed, tier == "thorough", print_start)
    } else {
        let progs = gen_stream(seed, tier == "thorough");
        let mut progress = |i: usize| print_start(i);
        run_history(mode, &progs, seed, &skip, &mut progress)
    };
    let so = std::io::stdout();
    let mut so = so.lock();
    for (i, o) in res {
        let _ = writeln!(so, "{}", serde_json::to_string(&(i, o)).unwrap());
    }
    let _ = writeln!(so, "DONE");
    let _ = so.flush();
}

/// Run one history in a child process under a progress watchdog. `Err(Some(i))`: program `i`
/// hung (no progress for `stall`) or killed the process; `Err(None)`: the child failed otherwise.
fn run_child(
    mode: &str,
    tier: &str,
    seed: u64,
    skip: &std::collections::BTreeSet<usize>,
) -> Result<Vec<(usize, String)>, Option<usize>> {
    use std::io::BufRead;
    use std::process::{Command, Stdio};
    use std::sync::mpsc;
    let skip_s = if skip.is_empty() {
        "-".to_string()
    } else {
        skip.iter().map(|x| x.to_string()).collect::<Vec<_>>().join(",")
    };
    let mut ch = Command::new(std::env::current_exe().unwrap())
        .args(["--child", mode, tier, &seed.to_string(), &skip_s])
        .stdin(Stdio::null())
        .stdout(Stdio::piped())
        .stderr(Stdio::null())
        .spawn()
        .expect("spawn child");
    let so = ch.stdout.take().unwrap();
    let (tx, rx) = mpsc::channel::<String>();
    let reader = std::thread::spawn(move || {
        for l in std::io::BufReader::new(so).lines() {
            match l {
                Ok(l) => {
                    if tx.send(l).is_err() {
                        break;
                    }
                }
                Err(_) => break,
            }
        }
    });
    let stall = Duration::from_secs(120); // 20 s was too short on a loaded machine (VM start-up before the first START line); no program of the streams hangs on the unchanged tree, so the long budget costs nothing there
    let mut last_start: Option<usize> = None;
    let mut res = vec![];
    let mut done = false;
    loop {
        match rx.recv_timeout(stall) {
            Ok(l) => {
                if let Some(i) = l.strip_prefix("START ") {
                    last_start = i.parse().ok();
                } else if l == "DONE" {
                    done = true;
                } else if let Ok((i, o)) = serde_json::from_str::<(usize, String)>(&l) {
                    res.push((i, o));
                }
            }
            Err(mpsc::RecvTimeoutError::Timeout) => {
                let _ = ch.kill();
                let _ = ch.wait();
                let _ = reader.join();
                return Err(last_start);
            }
            Err(mpsc::RecvTimeoutError::Disconnected) => break,
        }
    }
    let _ = ch.wait();
    let _ = reader.join();
    if done {
        Ok(res)
    } else {
        Err(last_start)
    }
}

fn split_obs(o: &str) -> (String, String, String) {
    // (value, type, diag)
    if let Some(rest) = o.strip_prefix("ok|") {
        match rest.rfind('|') {
            Some(_) => {
                // value never contains '|' outside quoted strings? be safe: the type text is
                // after the first '|' that follows the rendered value; values are rendered
                // without '|' except inside quoted strings of the program, which the generator
                // never emits.
                let k = rest.find('|').unwrap();
                (rest[..k].to_string(), rest[k + 1..].to_string(), String::new())
            }
            None => (rest.to_string(), String::new(), String::new()),
        }
    } else {
        (String::new(), String::new(), o.to_string())
    }
}

fn headline(o: &str) -> String {
    let line = o.lines().next().unwrap_or("");
    let mut s: String = line
        .chars()
        .filter(|c| c.is_ascii_alphabetic() || *c == ' ' || *c == '|')
        .collect();
    s.truncate(48);
    s.trim().replace(' ', "_")
}

/// Replace every maximal digit run that directly follows `prefix` by `N`.
fn mask_after(s: &str, prefix: &str) -> String {
    let mut out = String::with_capacity(s.len());
    let mut rest = s;
    while let Some(k) = rest.find(prefix) {
        out.push_str(&rest[..k + prefix.len()]);
        rest = &rest[k + prefix.len()..];
        let hex = prefix == "0x";
        let n = rest
            .bytes()
            .take_while(|b| if hex { b.is_ascii_hexdigit() } else { b.is_ascii_digit() })
            .count();
        if n > 0 {
            out.push('N');
        }
        rest = &rest[n..];
    }
    out.push_str(rest);
    out
}

/// What kind of difference is it?  Known causes get their own class (so that a *different*
/// violation is still reported under another fingerprint); otherwise the first differing word
/// with digits masked, plus the generator kind.
fn diff_class(a: &str, b: &str, kind: &str) -> String {
    if mask_after(a, "implicit?") == mask_after(b, "implicit?") {
        // parser/src/grammar.lalrpop:597 names the `?` binding of a record pattern after its
        // absolute position in the VM-wide code map
        return "implicit?N".to_string();
    }
    let wa: Vec<&str> = a.split_whitespace().collect();
    let wb: Vec<&str> = b.split_whitespace().collect();
    let mut k = 0;
    while k < wa.len() && k < wb.len() && wa[k] == wb[k] {
        k += 1;
    }
    let w = wa.get(k).or(wb.get(k)).copied().unwrap_or("<end>");
    let mut masked = String::new();
    let mut in_digits = false;
    for c in w.chars().take(40) {
        if c.is_ascii_digit() {
            if !in_digits {
                masked.push('N');
            }
            in_digits = true;
        } else {
            in_digits = false;
            masked.push(c);
        }
    }
    format!("{}:{}", kind, masked)
}

/// Split a diagnostics text into its error blocks.
fn error_blocks(o: &str) -> Vec<String> {
    let mut blocks = vec![];
    let mut cur = String::new();
    for line in o.lines() {
        if (line.starts_with("error") || line.starts_with("err|error")) && !cur.is_empty() {
            blocks.push(std::mem::take(&mut cur));
        }
        cur.push_str(line.strip_prefix("err|").unwrap_or(line));
        cur.push('\n');
    }
    if !cur.is_empty() {
        blocks.push(cur);
    }
    blocks
}

/// Oracle over the stream of programs with several failing macro expansions (macros.rs).
fn oracle_macros(out: &mut Out, args: &Args) {
    let progs = macros::gen_mstream(args.seed, args.thorough());
    let mut hist: Vec<(String, Vec<(usize, String)>)> = vec![];
    for mode in macros::MODES {
        match run_child(mode, &args.tier, args.seed, &Default::default()) {
            Ok(v) => hist.push((mode.to_string(), v)),
            Err(e) => {
                println!("history {} could not be completed in a child process ({:?})", mode, e);
                std::process::exit(3);
            }
        }
    }
    let mut reference: BTreeMap<usize, (String, String)> = BTreeMap::new();
    let mut reported = std::collections::BTreeSet::new();
    for (hname, obs) in &hist {
        out.add(&format!("observations:{}", hname), obs.len() as u64);
        for (i, o) in obs {
            match reference.get(i) {
                None => {
                    reference.insert(*i, (hname.clone(), o.clone()));
                }
                Some((h0, o0)) => {
                    out.count("comparisons:macro");
                    if o0 != o {
                        // same lines, different order?
                        let mut b0: Vec<&str> = o0.strip_prefix("err|").unwrap_or(o0).lines().collect();
                        let mut b1: Vec<&str> = o.strip_prefix("err|").unwrap_or(o).lines().collect();
                        b0.sort();
                        b1.sort();
                        let fp = if mask_after(o0, "implicit?") == mask_after(o, "implicit?") {
                            "nondet:diag:implicit?N".to_string()
                        } else if b0 == b1 {
                            // same diagnostics lines, different order of the error blocks
                            "nondet:diag:macro-expansion-errors-permuted".to_string()
                        } else {
                            format!("nondet:diag:{}", diff_class(o0, o, "macro"))
                        };
                        if reported.insert((fp.clone(), *i)) {
                            let p = &progs[*i];
                            out.oracle_fail(
                                &fp,
                                &format!(
                                    "program #{} with several failing macro expansions ({}) observed differently under history {} and {}",
                                    i, p.shape, h0, hname
                                ),
                                serde_json::json!({
                                    "stream": "macro", "index": i, "seed": args.seed, "tier": args.tier,
                                    "name": p.name, "src": p.src, "modules": p.mods,
                                    "history_a": h0, "obs_a": o0, "history_b": hname, "obs_b": o,
                                }),
                            );
                        }
                    }
                }
            }
        }
    }
    for (i, p) in progs.iter().enumerate() {
        out.count("kind:macro-errors");
        if let Some((_, o)) = reference.get(&i) {
            let n = error_blocks(o).len().min(9);
            out.count(&format!("macro:error-blocks:{}", n));
            out.class(format!("macro|{}|{}", p.shape, n));
            if i % 23 == 5 {
                out.sample(serde_json::json!({"src": p.src, "obs": o}));
            }
        }
    }
}

fn oracle(out: &mut Out, args: &Args, progs: &[Prog]) {
    let tier = args.tier.clone();
    let mut hist: Vec<(String, Vec<(usize, String)>)> = vec![];
    // Programs that hang the compiler or abort the process (both exist: a missing occurs check
    // makes `\x -> if c then x 1 else x` overflow the stack) cannot be observed; they are found by
    // the watchdog, counted, and replaced by a trivial program in every history.
    let mut skip = std::collections::BTreeSet::new();
    for mode in ["fresh", "long", "long2", "twice"] {
        let mut tries = 0;
        loop {
            tries += 1;
            match run_child(mode, &tier, args.seed, &skip) {
                Ok(v) => {
                    hist.push((format!("{}-child", mode), v));
                    break;
                }
                Err(Some(i)) if tries <= 60 && !skip.contains(&i) => {
                    out.count("skipped:hang-or-abort");
                    out.count(&format!("skipped:in:{}", mode));
                    skip.insert(i);
                }
                Err(e) => {
                    // not a property violation: the harness cannot complete this history
                    println!("history {} could not be completed in a child process ({:?})", mode, e);
                    std::process::exit(3);
                }
            }
        }
    }
    // in this process last: the children have found the programs that would kill it
    hist.push((
        "fresh-inproc".into(),
        run_history("fresh", progs, args.seed, &skip, &mut |_| ()),
    ));
    for (_, obs) in hist.iter_mut() {
        obs.retain(|(i, _)| !skip.contains(i));
    }
    out.stats.insert(
        "skipped_programs".into(),
        serde_json::json!(skip.iter().map(|i| progs[*i].src.clone()).take(5).collect::<Vec<_>>()),
    );
    // reference observation per program: the first one seen
    let mut reference: BTreeMap<usize, (String, String)> = BTreeMap::new();
    let mut reported = std::collections::BTreeSet::new();
    for (hname, obs) in &hist {
        out.add(&format!("observations:{}", hname), obs.len() as u64);
        for (i, o) in obs {
            match reference.get(i) {
                None => {
                    reference.insert(*i, (hname.clone(), o.clone()));
                }
                Some((h0, o0)) => {
                    out.count("comparisons");
                    if o0 != o {
                        let (v0, t0, d0) = split_obs(o0);
                        let (v1, t1, d1) = split_obs(o);
                        let field = if o0.starts_with("ok|") != o.starts_with("ok|") {
                            "outcome"
                        } else if d0 != d1 {
                            "diag"
                        } else if t0 != t1 {
                            "type"
                        } else if v0 != v1 {
                            "value"
                        } else {
                            "other"
                        };
                        let p = &progs[*i];
                        let fp = format!("nondet:{}:{}", field, diff_class(o0, o, &p.kind));
                        if reported.insert((fp.clone(), *i)) {
                            out.oracle_fail(
                                &fp,
                                &format!(
                                    "program #{} ({}) observed differently under history {} and {}",
                                    i, p.kind, h0, hname
                                ),
                                serde_json::json!({
                                    "index": i, "seed": args.seed, "tier": tier, "name": p.name,
                                    "prelude": p.prelude, "src": p.src,
                                    "history_a": h0, "obs_a": o0, "history_b": hname, "obs_b": o,
                                }),
                            );
                        }
                    }
                }
            }
        }
    }
    // statistics
    for (i, p) in progs.iter().enumerate() {
        out.count(&format!("kind:{}", p.kind));
        if let Some((_, o)) = reference.get(&i) {
            let oc = if o.starts_with("ok|") {
                "ok".to_string()
            } else {
                format!("err:{}", headline(o.strip_prefix("err|").unwrap_or(o)))
            };
            out.count(&format!("outcome:{}", oc.split(':').next().unwrap()));
            out.class(format!("{}|{}|{}", p.kind, p.shape, oc));
            if o.starts_with("err|") {
                let n_err = o.matches("error").count().min(9);
                out.count(&format!("errors-per-program:{}", n_err));
            }
            if i % 97 == 11 {
                out.sample(serde_json::json!({"src": p.src, "obs": o}));
            }
        }
    }
    out.stats.insert("programs".into(), (progs.len() as u64).into());
    out.stats.insert("histories".into(), (hist.len() as u64).into());
}

// ---------------------------------------------------------------------------------------------
// correspondence 1: type-variable naming (`rename`)

/// Type skeleton with arbitrary variable ids.
#[derive(Clone, Debug)]
enum Sk {
    V(u32),
    Int,
    Fn(Box<Sk>, Box<Sk>),
    Rec(Vec<(String, Sk)>),
}

fn sk_sexp(t: &Sk) -> String {
    match t {
        Sk::V(i) => format!("(v {})", i),
        Sk::Int => "int".into(),
        Sk::Fn(a, b) => format!("(fn {} {})", sk_sexp(a), sk_sexp(b)),
        Sk::Rec(fs) => {
            let mut s = String::from("(rec");
            for (n, t) in fs {
                s.push_str(&format!(" ({} {})", quote(n), sk_sexp(t)));
            }
            s.push(')');
            s
        }
    }
}

fn real_type_sexp(t: &ArcType) -> String {
    match &**t {
        Type::Forall(params, body) => {
            let mut s = String::from("(forall (");
            for (i, p) in params.iter().enumerate() {
                if i > 0 {
                    s.push(' ');
                }
                s.push_str(&quote(p.id.declared_name()));
            }
            s.push_str(") ");
            s.push_str(&real_type_sexp(body));
            s.push(')');
            s
        }
        Type::Generic(g) => format!("(g {})", quote(g.id.declared_name())),
        Type::Function(_, a, b) => format!("(fn {} {})", real_type_sexp(a), real_type_sexp(b)),
        Type::Record(_) => {
            let mut s = String::from("(rec");
            for f in t.row_iter() {
                s.push_str(&format!(
                    " ({} {})",
                    quote(f.name.declared_name()),
                    real_type_sexp(&f.typ)
                ));
            }
            s.push(')');
            s
        }
        Type::Builtin(b) => format!("{:?}", b).to_lowercase(),
        Type::Variable(v) => format!("(unbound {})", v.id),
        _ => format!("(other {})", quote(&format!("{}", t).chars().take(40).collect::<String>())),
    }
}

/// One case: a lambda whose inferred type is, by construction, the skeleton.
fn rename_case(out: &mut Out, rng: &mut Rng, vm: &Thread, n: u64) {
    // parameters: plain ones (type = a variable) and function ones (applied exactly once)
    let n_plain = rng.range(1, if n % 9 == 0 { 16 } else { 5 }) as usize;
    let n_fun = rng.range(0, 3) as usize;
    // distinct arbitrary ids
    let mut ids: Vec<u32> = vec![];
    while ids.len() < n_plain + n_fun {
        let bound = if rng.chance(1, 2) { 40 } else { 100000 };
        let x = rng.below(bound) as u32;
        if !ids.contains(&x) {
            ids.push(x);
        }
    }
    let plain: Vec<(String, u32)> = (0..n_plain).map(|i| (format!("p{}", i), ids[i])).collect();
    // an argument term of a small type over the plain parameters
    let arg = |rng: &mut Rng| -> (String, Sk) {
        match rng.below(5) {
            0 => ("7".to_string(), Sk::Int),
            1 => {
                let (a, ia) = &plain[rng.below(n_plain as u64) as usize];
                let (b, ib) = &plain[rng.below(n_plain as u64) as usize];
                (
                    format!("{{ l = {}, r = {} }}", a, b),
                    Sk::Rec(vec![("l".into(), Sk::V(*ia)), ("r".into(), Sk::V(*ib))]),
                )
            }
            _ => {
                let (a, ia) = &plain[rng.below(n_plain as u64) as usize];
                (a.clone(), Sk::V(*ia))
            }
        }
    };
    struct FunP {
        name: String,
        typ: Sk,
        call: String,
        res: u32,
    }
    let mut funs = vec![];
    for j in 0..n_fun {
        let k = rng.range(1, 3);
        let res = ids[n_plain + j];
        let mut call = format!("f{}", j);
        let mut arg_tys = vec![];
        for _ in 0..k {
            let (s, t) = arg(rng);
            call.push_str(&format!(" ({})", s));
            arg_tys.push(t);
        }
        let mut typ = Sk::V(res);
        for t in arg_tys.into_iter().rev() {
            typ = Sk::Fn(Box::new(t), Box::new(typ));
        }
        funs.push(FunP { name: format!("f{}", j), typ, call, res });
    }
    // binder order: a permutation of all parameters
    let mut binders: Vec<(String, Sk)> = plain.iter().map(|(n, i)| (n.clone(), Sk::V(*i))).collect();
    for f in &funs {
        binders.push((f.name.clone(), f.typ.clone()));
    }
    for i in (1..binders.len()).rev() {
        let j = rng.below(i as u64 + 1) as usize;
        binders.swap(i, j);
    }
    // body: a record; every function parameter is called exactly once
    let mut fields: Vec<(String, String, Sk)> = vec![];
    for (k, f) in funs.iter().enumerate() {
        fields.push((format!("c{}", k), f.call.clone(), Sk::V(f.res)));
    }
    let n_extra = rng.range(0, 3);
    for k in 0..n_extra {
        let (s, t) = arg(rng);
        fields.push((format!("e{}", k), s, t));
    }
    for i in (1..fields.len()).rev() {
        let j = rng.below(i as u64 + 1) as usize;
        fields.swap(i, j);
    }
    let (body_src, body_ty) = if fields.is_empty() {
        let (a, ia) = &plain[0];
        (a.clone(), Sk::V(*ia))
    } else {
        (
            format!(
                "{{ {} }}",
                fields.iter().map(|(n, s, _)| format!("{} = {}", n, s)).collect::<Vec<_>>().join(", ")
            ),
            Sk::Rec(fields.iter().map(|(n, _, t)| (n.clone(), t.clone())).collect()),
        )
    };
    let mut typ = body_ty;
    for (_, t) in binders.iter().rev() {
        typ = Sk::Fn(Box::new(t.clone()), Box::new(typ));
    }
    let params = binders.iter().map(|(n, _)| n.clone()).collect::<Vec<_>>().join(" ");
    let letform = rng.chance(1, 2);
    let src = if letform {
        format!("let h {} = {}\nh", params, body_src)
    } else {
        format!("\\{} -> {}", params, body_src)
    };
    let name = format!("rn{}", n % 11);
    let payload = match gv::catch(|| vm.typecheck_str(&name, &src, None)) {
        Ok(Ok((_, t))) => real_type_sexp(&t),
        Ok(Err(e)) => format!("(error {})", quote(&headline(&format!("{}", e)))),
        Err(p) => format!("(panic {})", quote(&p)),
    };
    out.count(&format!("rename:vars:{}", ids.len().min(12)));
    out.count(if letform { "rename:let" } else { "rename:lambda" });
    out.class(format!("rename|{}|{}", ids.len(), n_fun));
    if n % 400 == 1 {
        out.sample(serde_json::json!({"src": src, "skeleton": sk_sexp(&typ), "impl": payload}));
    }
    out.case(&format!("rename {}", sk_sexp(&typ)), &payload);
}

// ---------------------------------------------------------------------------------------------
// correspondence 2: match compilation (grouping of arms by first occurrence)

#[derive(Clone, Debug)]
enum MP {
    Var,
    Lit(i64),
    Ctor(usize, Vec<MP>),
}
/// `type M = | A M M | B Int | C | D Int M`  (true = field of type M, false = Int)
const CTORS: &[(&str, &[bool])] = &[("A", &[true, true]), ("B", &[false]), ("C", &[]), ("D", &[false, true])];

fn gen_mp(rng: &mut Rng, is_m: bool, depth: u32) -> MP {
    if is_m {
        if depth == 0 || rng.chance(1, 4) {
            return MP::Var;
        }
        let c = rng.below(CTORS.len() as u64) as usize;
        MP::Ctor(c, CTORS[c].1.iter().map(|&m| gen_mp(rng, m, depth - 1)).collect())
    } else if rng.chance(1, 2) {
        MP::Var
    } else {
        MP::Lit(rng.range(0, 2))
    }
}
fn mp_src(p: &MP, k: &mut u32) -> String {
    match p {
        MP::Var => {
            *k += 1;
            if *k % 3 == 0 { "_".to_string() } else { format!("x{}", k) }
        }
        MP::Lit(n) => format!("{}", n),
        MP::Ctor(c, args) => {
            if args.is_empty() {
                CTORS[*c].0.to_string()
            } else {
                format!("({} {})", CTORS[*c].0, args.iter().map(|a| mp_src(a, k)).collect::<Vec<_>>().join(" "))
            }
        }
    }
}
fn mp_sexp(p: &MP) -> String {
    match p {
        MP::Var => "v".into(),
        MP::Lit(n) => format!("(l {})", n),
        MP::Ctor(c, args) => {
            let mut s = format!("(c {}", quote(CTORS[*c].0));
            for a in args {
                s.push(' ');
                s.push_str(&mp_sexp(a));
            }
            s.push(')');
            s
        }
    }
}

/// The body of the first closure of the module (the `\\scrut -> match …` lambda).
fn find_body<'a>(e: &'a core::Expr<'a>) -> Option<&'a core::Expr<'a>> {
    match e {
        core::Expr::Let(b, body) => match &b.expr {
            core::Named::Recursive(cs) => cs.first().map(|c| c.expr),
            core::Named::Expr(x) => find_body(x).or_else(|| find_body(body)),
        },
        _ => None,
    }
}

fn tree_sexp(e: &core::Expr) -> String {
    match e {
        core::Expr::Match(_, alts) => {
            let mut s = String::from("(sw");
            for a in alts.iter() {
                let k = match &a.pattern {
                    core::Pattern::Constructor(id, args) => {
                        format!("(c {} {})", quote(id.name.declared_name()), args.len())
                    }
                    core::Pattern::Ident(_) => "any".to_string(),
                    core::Pattern::Literal(core::Literal::Int(n)) => format!("(l {})", n),
                    core::Pattern::Literal(_) => "(l ?)".to_string(),
                    core::Pattern::Record { .. } => "record".to_string(),
                };
                s.push_str(&format!(" ({} {})", k, tree_sexp(a.expr)));
            }
            s.push(')');
            s
        }
        core::Expr::Let(_, body) => tree_sexp(body),
        core::Expr::Const(core::Literal::Int(n), _) => format!("(r {})", n - 100),
        core::Expr::Call(_, args) => match args.first() {
            Some(core::Expr::Const(core::Literal::String(s), _)) if &**s == "Unmatched pattern" => "fail".into(),
            _ => "call".into(),
        },
        _ => "other".into(),
    }
}

fn match_case(out: &mut Out, rng: &mut Rng, vm: &Thread, n: u64) {
    let n_arms = rng.range(1, 7) as usize;
    let depth = rng.range(1, 3) as u32;
    let arms: Vec<MP> = (0..n_arms)
        .map(|_| {
            // top-level: mostly constructors so that grouping is exercised
            if rng.chance(1, 8) { MP::Var } else { gen_mp(rng, true, depth) }
        })
        .collect();
    let mut src = String::from("type M = | A M M | B Int | C | D Int M\n\\scrut ->\n    match scrut with\n");
    for (i, a) in arms.iter().enumerate() {
        let mut k = (i as u32) * 20;
        src.push_str(&format!("    | {} -> {}\n", mp_src(a, &mut k), 100 + i));
    }
    let name = format!("mt{}", n % 11);
    let res = gv::catch(|| {
        {
            let mut db = vm.get_database_mut();
            db.add_module(name.clone(), &src);
        }
        let mut db = vm.get_database();
        futures::executor::block_on(db.core_expr(name.clone(), None)).map(|g| {
            let e = g.value.expr();
            match find_body(e) {
                Some(m) => tree_sexp(m),
                None => "no-body".to_string(),
            }
        })
    });
    let payload = match res {
        Ok(Ok(s)) => s,
        Ok(Err(e)) => format!("(error {})", quote(&headline(&format!("{}", e)))),
        Err(p) => format!("(panic {})", quote(&p)),
    };
    let tops: Vec<String> = arms
        .iter()
        .map(|a| match a {
            MP::Ctor(c, _) => CTORS[*c].0.to_string(),
            MP::Var => "v".into(),
            MP::Lit(_) => "l".into(),
        })
        .collect();
    // non-trivial: some constructor occurs twice non-adjacently
    let mut interleaved = false;
    for i in 0..tops.len() {
        for j in i + 2..tops.len() {
            if tops[i] == tops[j] && tops[i + 1] != tops[i] {
                interleaved = true;
            }
        }
    }
    out.count(if interleaved { "match:interleaved" } else { "match:plain" });
    out.count(&format!("match:arms:{}", n_arms));
    if interleaved {
        out.class(format!("match|{}", tops.join("")));
    }
    if n % 300 == 2 {
        out.sample(serde_json::json!({"src": src, "impl": payload}));
    }
    let req = format!("match {}", arms.iter().map(mp_sexp).collect::<Vec<_>>().join(" "));
    out.case(&req, &payload);
}

// ---------------------------------------------------------------------------------------------
// correspondence 3: the name of the `?` binding of a record pattern (history dependent)

fn implicit_case(out: &mut Out, rng: &mut Rng, n: u64) {
    use gluon_base::symbol::{SymbolModule, Symbols};
    // the real code map (base/src/source.rs) and the real parser, as src/compiler_pipeline.rs
    // `parse_expr_inner` combines them
    let mut code_map = gluon_base::source::CodeMap::new();
    let tc: gluon_base::types::TypeCache<gluon_base::symbol::Symbol, ArcType> =
        gluon_base::types::TypeCache::new();
    let k = rng.range(0, 4) as usize;
    let mut lens = vec![];
    for j in 0..k {
        let len = rng.range(0, 60) as usize;
        code_map.add_filemap(format!("hist{}", j), "x".repeat(len));
        lens.push(len);
    }
    let pad = rng.range(0, 30) as usize;
    let src = format!("{}let {{ x, ? }} = r in x", " ".repeat(pad));
    let rel = pad + "let { x, ".len();
    let map = code_map.add_filemap("probe".into(), src.clone());
    let payload = match gv::catch(|| {
        gluon_base::mk_ast_arena!(arena);
        let mut symbols = Symbols::new();
        let r = gluon_parser::parse_partial_expr(
            (*arena).borrow(),
            &mut SymbolModule::new("probe".into(), &mut symbols),
            &tc,
            &*map,
        );
        r.map(|e| format!("{:?}", e)).map_err(|(_, e)| format!("{}", e))
    }) {
        Ok(Ok(dbg)) => match dbg.find("implicit?") {
            Some(i) => {
                let tail = &dbg[i..];
                let end = "implicit?".len()
                    + tail["implicit?".len()..].bytes().take_while(|b| b.is_ascii_digit()).count();
                quote(&tail[..end])
            }
            None => "no-implicit".into(),
        },
        Ok(Err(e)) => format!("(error {})", quote(&headline(&e))),
        Err(p) => format!("(panic {})", quote(&p)),
    };
    out.count(&format!("implicit:history:{}", k));
    out.class(format!("implicit|{}|{}", k, pad % 4));
    if n % 50 == 3 {
        out.sample(serde_json::json!({"history_lengths": lens, "src": src, "impl": payload}));
    }
    let req = format!(
        "implicit ({}) {}",
        lens.iter().map(|l| l.to_string()).collect::<Vec<_>>().join(" "),
        rel
    );
    out.case(&req, &payload);
}

// ---------------------------------------------------------------------------------------------

fn replay(args: &Args, file: &std::path::Path) {
    let v: serde_json::Value = serde_json::from_str(&std::fs::read_to_string(file).unwrap()).unwrap();
    let case = &v["case"];
    let p = Prog {
        name: case["name"].as_str().unwrap_or("replay").to_string(),
        src: case["src"].as_str().unwrap_or("").to_string(),
        prelude: case["prelude"].as_bool().unwrap_or(false),
        kind: "replay".into(),
        shape: String::new(),
    };
    println!("program:\n{}\n", p.src);
    println!("recorded {}:\n{}\n", case["history_a"], case["obs_a"].as_str().unwrap_or(""));
    println!("recorded {}:\n{}\n", case["history_b"], case["obs_b"].as_str().unwrap_or(""));
    if case["stream"].as_str() == Some("macro") {
        // programs with several failing macro expansions: re-run every history of the recorded
        // seed/tier and show the recorded index
        if let (Some(seed), Some(tier), Some(idx)) =
            (case["seed"].as_u64(), case["tier"].as_str(), case["index"].as_u64())
        {
            let mut first: Option<String> = None;
            for mode in macros::MODES {
                if let Ok(obs) = run_child(mode, tier, seed, &Default::default()) {
                    for (i, o) in obs {
                        if i as u64 == idx {
                            let same = first.as_ref().map(|f| *f == o);
                            println!("history {} (same as first: {:?}):\n{}\n", mode, same, o);
                            first.get_or_insert(o);
                        }
                    }
                }
            }
        }
        return;
    }
    let vm = fresh_vm(p.prelude);
    let a = observe(&vm, &p);
    let vm2 = fresh_vm(p.prelude);
    for k in 0..12 {
        junk(&vm2, k);
    }
    let b = observe(&vm2, &p);
    let c = observe(&vm2, &p);
    println!("fresh VM now:\n{}\n", a);
    println!("VM after unrelated work now:\n{}\n", b);
    println!("same VM, second run:\n{}\n", c);
    println!("alone: fresh==after-junk: {}, first==second: {}", a == b, b == c);
    // the full histories of the recorded seed/tier, restricted to the recorded index
    if let (Some(seed), Some(tier), Some(idx)) = (case["seed"].as_u64(), case["tier"].as_str(), case["index"].as_u64()) {
        let _ = args;
        for mode in ["fresh", "long", "long2", "twice"] {
            if let Ok(obs) = run_child(mode, tier, seed, &Default::default()) {
                for (i, o) in obs {
                    if i as u64 == idx {
                        println!("history {}-child:\n{}\n", mode, o);
                    }
                }
            }
        }
    }
}

fn main() {
    gv::quiet_panics();
    let argv: Vec<String> = std::env::args().collect();
    if argv.len() > 1 && argv[1] == "--child" {
        child_main(&argv[2..]);
        return;
    }
    let args = Args::parse();
    if let Some(f) = &args.replay {
        replay(&args, f);
        // still produce (empty) outputs so that ./check can finish
        let out = Out::new(&args.out);
        out.finish();
        return;
    }
    if let Some(k) = args.extra.iter().position(|x| x == "--src") {
        // debugging aid: print the source of one program of the stream
        let progs = gen_stream(args.seed, args.thorough());
        let i: usize = args.extra[k + 1].parse().unwrap();
        println!("{}", progs[i].src);
        return;
    }
    if args.extra.iter().any(|x| x == "--dump") {
        // debugging aid: the stream with its observations in fresh VMs
        let progs = gen_stream(args.seed, args.thorough());
        for (i, p) in progs.iter().enumerate() {
            let vm = fresh_vm(p.prelude);
            let o = observe(&vm, p);
            println!("#{} {} [{}]\n{}\n=> {}\n", i, p.kind, p.shape, p.src, o);
        }
        return;
    }
    let mut out = Out::new(&args.out);
    // correspondence
    {
        let vm = fresh_vm(false);
        vm.get_database_mut().set_optimize(false);
        let mut rng = Rng::new(args.seed, 1602);
        let n = if args.thorough() { 6000 } else { 1200 };
        for k in 0..n {
            rename_case(&mut out, &mut rng, &vm, k);
        }
        let mut rng = Rng::new(args.seed, 1603);
        let n = if args.thorough() { 8000 } else { 1500 };
        for k in 0..n {
            match_case(&mut out, &mut rng, &vm, k);
        }
        let mut rng = Rng::new(args.seed, 1604);
        let n = if args.thorough() { 600 } else { 120 };
        for k in 0..n {
            implicit_case(&mut out, &mut rng, k);
        }
    }
    // oracle
    let progs = gen_stream(args.seed, args.thorough());
    oracle(&mut out, &args, &progs);
    oracle_macros(&mut out, &args);
    out.finish();
}
