//! Second program stream of the C16 oracle: modules with 2–4 *failing macro expansions*
//! (`import!` of broken in-memory modules of very different cost, of missing modules, misuse of
//! `lift_io!`), observed on ASYNC VMs (`VmBuilder::build_async`, every `import!` is spawned as
//! its own task, vm/src/macros.rs:472-523 collects the expansions through a `FuturesUnordered`)
//! and on sync VMs, fresh and used.  The order in which the expansions *complete* differs
//! between these histories (a module that imports further modules yields to the other tasks; a
//! module compiled earlier in the same VM is answered from the memo table at once), the reported
//! diagnostics must not.
use gluon::query::CompilationBase;
use gluon::{RootedThread, Thread, ThreadExt};
use gv::rng::Rng;

pub struct MProg {
    pub name: String,
    pub src: String,
    /// registered modules the program imports (in source order)
    pub mods: Vec<String>,
    pub shape: String,
}

fn big_bad(n: usize, tag: &str) -> String {
    let mut s = String::new();
    for i in 0..n {
        s.push_str(&format!("let x{} = {} #Int+ {} #Int* {}\n", i, i, i + 1, i + 2));
    }
    s.push_str(&format!("let bad : Int = \"{}\"\n{{ bad }}\n", tag));
    s
}

/// In-memory modules known to every VM of this stream. `slow*` modules import (good) modules
/// before they fail, so on a spawning VM their task is suspended while cheaper imports finish.
pub fn module_table() -> Vec<(String, String)> {
    let v: Vec<(&str, String)> = vec![
        ("c16_g0", "{ x = 1 }\n".to_string()),
        ("c16_g1", "let g0 = import! c16_g0\n{ y = g0.x }\n".to_string()),
        ("c16_g2", "let g1 = import! c16_g1\nlet g0 = import! c16_g0\n{ z = g1.y #Int+ g0.x }\n".to_string()),
        ("c16_g3", "let g2 = import! c16_g2\n{ w = g2.z }\n".to_string()),
        ("c16_bad_small", "let bad : Int = \"small\"\n{ bad }\n".to_string()),
        ("c16_bad_big", big_bad(120, "big")),
        ("c16_bad_parse", "let x = \n".to_string()),
        ("c16_bad_undef", "undefined_thing_c16\n".to_string()),
        ("c16_bad_field", "let r = { a = 1 }\nr.nofield\n".to_string()),
        ("c16_slow1", "let g = import! c16_g2\nlet bad : Int = \"slow1\"\n{ bad, g }\n".to_string()),
        ("c16_slow2", format!("let g = import! c16_g3\n{}", big_bad(60, "slow2"))),
        (
            "c16_slow3",
            "let g = import! c16_g1\nlet h = import! c16_bad_undef\nlet i = import! c16_bad_small\n{ g, h, i }\n".to_string(),
        ),
        ("c16_slow4", "let a = import! c16_g3\nlet b = import! c16_g2\nlet c = import! c16_g1\na.w #Int+ \"slow4\"\n".to_string()),
    ];
    v.into_iter().map(|(n, s)| (n.to_string(), s)).collect()
}

const FAILING: &[&str] = &[
    "c16_bad_small", "c16_bad_big", "c16_bad_parse", "c16_bad_undef", "c16_bad_field", "c16_slow1",
    "c16_slow2", "c16_slow3", "c16_slow4",
];
const SLOW: &[&str] = &["c16_slow1", "c16_slow2", "c16_slow3", "c16_slow4"];
const FAST: &[&str] = &["c16_bad_small", "c16_bad_parse", "c16_bad_undef", "c16_bad_field"];

pub fn gen_mstream(seed: u64, thorough: bool) -> Vec<MProg> {
    let mut rng = Rng::new(seed, 1620);
    let n = if thorough { 400 } else { 60 };
    let mut v = vec![];
    for i in 0..n {
        let k = rng.range(2, 4) as usize;
        let mut lines = vec![];
        let mut mods = vec![];
        let mut shape = vec![];
        for j in 0..k {
            // the first expansion is mostly a slow one and a later one a fast one: completion
            // order is then the reverse of source order on a spawning VM
            let r = rng.below(10);
            let m: String = if j == 0 && r < 7 {
                (*rng.pick::<&str>(SLOW)).to_string()
            } else if j > 0 && r < 5 {
                (*rng.pick::<&str>(FAST)).to_string()
            } else if r < 8 {
                (*rng.pick::<&str>(FAILING)).to_string()
            } else if r == 8 {
                format!("c16_missing_{}", rng.below(3))
            } else {
                String::new()
            };
            if m.is_empty() {
                lines.push(format!("let v{} = lift_io! {}", j, j));
                shape.push("lift_io".to_string());
            } else {
                lines.push(format!("let v{} = import! {}", j, m));
                shape.push(m.trim_start_matches("c16_").to_string());
                if !m.starts_with("c16_missing") {
                    mods.push(m);
                }
            }
        }
        if rng.chance(1, 3) {
            lines.push("let ok = import! c16_g2".to_string());
        }
        lines.push(if rng.chance(1, 3) { "1 #Int+ \"tail\"".to_string() } else { "()".to_string() });
        v.push(MProg {
            name: format!("c16_main_{}", i % 9),
            src: lines.join("\n") + "\n",
            mods,
            shape: shape.join("+"),
        });
    }
    v
}

fn register(vm: &Thread) {
    vm.get_database_mut().set_implicit_prelude(false);
    let mut db = vm.get_database_mut();
    for (n, s) in module_table() {
        db.add_module(n, &s);
    }
}

fn render(r: Result<(), gluon::Error>) -> String {
    match r {
        Ok(()) => "ok|".to_string(),
        Err(e) => match e.emit_string() {
            Ok(s) => format!("err|{}", s),
            Err(_) => format!("err|{}", e),
        },
    }
}

async fn observe_async(vm: &RootedThread, name: &str, src: &str) -> String {
    use futures::FutureExt;
    match std::panic::AssertUnwindSafe(vm.load_script_async(name, src)).catch_unwind().await {
        Ok(r) => render(r),
        Err(_) => "panic|".to_string(),
    }
}

fn observe_sync(vm: &Thread, name: &str, src: &str) -> String {
    match gv::catch(|| vm.load_script(name, src)) {
        Ok(r) => render(r),
        Err(_) => "panic|".to_string(),
    }
}

async fn async_vm() -> RootedThread {
    let vm = gluon::VmBuilder::new().import_paths(Some(vec!["/repo".into()])).build_async().await;
    register(&vm);
    vm
}

/// Run `f` on a tokio runtime that lives on a thread with a large stack (the typechecker
/// recurses deeply). Current-thread runtime: `tokio::spawn`ed import tasks interleave at their
/// await points, which is enough to complete expansions out of source order — deterministically.
fn on_runtime<T: Send + 'static>(
    f: impl FnOnce(&tokio::runtime::Runtime) -> T + Send + 'static,
) -> T {
    std::thread::Builder::new()
        .stack_size(512 << 20)
        .spawn(move || {
            let rt = tokio::runtime::Builder::new_current_thread().enable_all().build().unwrap();
            f(&rt)
        })
        .unwrap()
        .join()
        .unwrap()
}

pub const MODES: &[&str] = &["m-afresh", "m-aused", "m-along", "m-sfresh", "m-sused"];

pub fn run_mhistory(mode: &str, seed: u64, thorough: bool, progress: fn(usize)) -> Vec<(usize, String)> {
    let mode = mode.to_string();
    on_runtime(move |rt| {
        let progs = gen_mstream(seed, thorough);
        let table = module_table();
        let src_of = |m: &str| table.iter().find(|(n, _)| n == m).map(|(_, s)| s.clone()).unwrap_or_default();
        let mut rng = Rng::new(seed, 1621);
        let mut res = vec![];
        match mode.as_str() {
            // fresh async VM per program
            "m-afresh" => rt.block_on(async {
                for (i, p) in progs.iter().enumerate() {
                    progress(i);
                    let vm = async_vm().await;
                    res.push((i, observe_async(&vm, &p.name, &p.src).await));
                }
            }),
            // fresh async VM per program that compiled some of the program's modules (and an
            // unrelated expression) before; the program is then observed twice
            "m-aused" => rt.block_on(async {
                for (i, p) in progs.iter().enumerate() {
                    progress(i);
                    let vm = async_vm().await;
                    for m in &p.mods {
                        if rng.chance(1, 2) {
                            let _ = observe_async(&vm, m, &src_of(m)).await;
                        }
                    }
                    let _ = observe_async(&vm, "c16_unrelated", "let x = 1 in x #Int+ 41\n").await;
                    res.push((i, observe_async(&vm, &p.name, &p.src).await));
                    res.push((i, observe_async(&vm, &p.name, &p.src).await));
                }
            }),
            // one long-lived async VM, permuted order: later programs find modules memoized
            "m-along" => rt.block_on(async {
                let vm = async_vm().await;
                let mut order: Vec<usize> = (0..progs.len()).collect();
                for i in (1..order.len()).rev() {
                    let j = rng.below(i as u64 + 1) as usize;
                    order.swap(i, j);
                }
                for i in order {
                    progress(i);
                    res.push((i, observe_async(&vm, &progs[i].name, &progs[i].src).await));
                }
            }),
            // sync VMs (no spawner: every expansion completes at its first poll)
            "m-sfresh" => {
                for (i, p) in progs.iter().enumerate() {
                    progress(i);
                    let vm = gv::vm::new_vm();
                    register(&vm);
                    res.push((i, observe_sync(&vm, &p.name, &p.src)));
                }
            }
            "m-sused" => {
                let vm = gv::vm::new_vm();
                register(&vm);
                for i in (0..progs.len()).rev() {
                    progress(i);
                    res.push((i, observe_sync(&vm, &progs[i].name, &progs[i].src)));
                }
            }
            _ => panic!("unknown history {}", mode),
        }
        res
    })
}
