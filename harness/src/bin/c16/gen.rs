//! Program generator of the C16 oracle: a typed generator of well-typed programs over lets,
//! lambdas, records, tuples, variants, arrays and (nested) matches without the prelude, a mutator
//! that plants one to three type errors of several kinds, truncation (parse errors), and a
//! template generator for programs that use the implicit prelude (operators, `show`, implicit
//! arguments and their resolution errors).
use gv::rng::Rng;

pub struct Prog {
    pub name: String,
    pub src: String,
    pub prelude: bool,
    /// generator class: plain / mutated / truncated / prelude
    pub kind: String,
    /// coarse shape key for the statistics
    pub shape: String,
}

#[derive(Clone, PartialEq, Debug)]
pub enum Ty {
    Int,
    Str,
    Flt,
    Fn(Box<Ty>, Box<Ty>),
    Rec(Vec<(String, Ty)>),
    Tup(Vec<Ty>),
    Opt(Box<Ty>),
    En,
    Arr(Box<Ty>),
}

#[derive(Clone, Debug)]
pub enum P {
    Wild,
    Var(String),
    Lit(String),
    Ctor(String, Vec<P>),
    Tup(Vec<P>),
    Rec(Vec<(String, Option<P>)>),
    As(String, Box<P>),
}

#[derive(Clone, Debug)]
pub enum E {
    Lit(String),
    Var(String),
    Lam(Vec<String>, Box<E>),
    App(Box<E>, Vec<E>),
    Let(String, Vec<String>, Box<E>, Box<E>),
    If(Box<E>, Box<E>, Box<E>),
    Bin(&'static str, Box<E>, Box<E>),
    Rec(Vec<(String, E)>),
    Tup(Vec<E>),
    Proj(Box<E>, String),
    Match(Box<E>, Vec<(P, E)>),
    Arr(Vec<E>),
    Raw(String),
}

pub const DECLS: &str = "type Opt a = | Non | Som a | Two Int a\ntype En = | Pp Int | Qq String Int | Rr | Ss En\nlet id x = x\nlet konst x y = x\nlet pair x y = { fst = x, snd = y }\nlet ap f x = f x\nlet compose f g x = f (g x)\n";

fn pat_src(p: &P, s: &mut String) {
    match p {
        P::Wild => s.push('_'),
        P::Var(v) => s.push_str(v),
        P::Lit(l) => s.push_str(l),
        P::Ctor(c, args) => {
            if args.is_empty() {
                s.push_str(c);
            } else {
                s.push('(');
                s.push_str(c);
                for a in args {
                    s.push(' ');
                    pat_src(a, s);
                }
                s.push(')');
            }
        }
        P::Tup(ps) => {
            s.push('(');
            for (i, a) in ps.iter().enumerate() {
                if i > 0 {
                    s.push_str(", ");
                }
                pat_src(a, s);
            }
            s.push(')');
        }
        P::Rec(fs) => {
            s.push_str("{ ");
            for (i, (n, p)) in fs.iter().enumerate() {
                if i > 0 {
                    s.push_str(", ");
                }
                s.push_str(n);
                if let Some(p) = p {
                    s.push_str(" = ");
                    pat_src(p, s);
                }
            }
            s.push_str(" }");
        }
        P::As(n, p) => {
            s.push('(');
            s.push_str(n);
            s.push('@');
            pat_src(p, s);
            s.push(')');
        }
    }
}

pub fn src(e: &E, s: &mut String) {
    src_i(e, s, 0)
}

fn src_i(e: &E, s: &mut String, ind: usize) {
    match e {
        E::Lit(l) => s.push_str(l),
        E::Var(v) => s.push_str(v),
        E::Raw(r) => s.push_str(r),
        E::Lam(xs, b) => {
            s.push_str("(\\");
            s.push_str(&xs.join(" "));
            s.push_str(" -> ");
            src_i(b, s, ind);
            s.push(')');
        }
        E::App(f, args) => {
            s.push('(');
            src_i(f, s, ind);
            for a in args {
                s.push(' ');
                src_i(a, s, ind);
            }
            s.push(')');
        }
        E::Let(x, args, v, b) => {
            let mut vs = String::new();
            src_i(v, &mut vs, ind);
            if vs.contains('\n') && !x.contains(':') {
                // a multi-line bound value does not sit well with the layout rule before `in`:
                // print the (monomorphically used) binding as a beta-redex instead
                s.push_str("((\\");
                s.push_str(x);
                s.push_str(" -> ");
                src_i(b, s, ind);
                s.push_str(") ");
                if args.is_empty() {
                    s.push_str(&vs);
                } else {
                    s.push_str("(\\");
                    s.push_str(&args.join(" "));
                    s.push_str(" -> ");
                    s.push_str(&vs);
                    s.push(')');
                }
                s.push(')');
            } else {
                s.push_str("(let ");
                s.push_str(x);
                for a in args {
                    s.push(' ');
                    s.push_str(a);
                }
                s.push_str(" = ");
                s.push_str(&vs);
                s.push_str(" in ");
                src_i(b, s, ind);
                s.push(')');
            }
        }
        E::If(c, a, b) => {
            s.push_str("(if ");
            src_i(c, s, ind);
            s.push_str(" then ");
            src_i(a, s, ind);
            s.push_str(" else ");
            src_i(b, s, ind);
            s.push(')');
        }
        E::Bin(op, a, b) => {
            s.push('(');
            src_i(a, s, ind);
            s.push(' ');
            s.push_str(op);
            s.push(' ');
            src_i(b, s, ind);
            s.push(')');
        }
        E::Rec(fs) => {
            if fs.is_empty() {
                s.push_str("{ }");
            } else {
                s.push_str("{ ");
                for (i, (n, v)) in fs.iter().enumerate() {
                    if i > 0 {
                        s.push_str(", ");
                    }
                    s.push_str(n);
                    s.push_str(" = ");
                    src_i(v, s, ind);
                }
                s.push_str(" }");
            }
        }
        E::Tup(es) => {
            s.push('(');
            for (i, a) in es.iter().enumerate() {
                if i > 0 {
                    s.push_str(", ");
                }
                src_i(a, s, ind);
            }
            s.push(')');
        }
        E::Proj(r, f) => {
            src_i(r, s, ind);
            s.push('.');
            s.push_str(f);
        }
        E::Match(sc, arms) => {
            s.push_str("(match ");
            src_i(sc, s, ind + 1);
            s.push_str(" with");
            for (p, e) in arms {
                s.push('\n');
                for _ in 0..(2 * (ind + 1)) {
                    s.push(' ');
                }
                s.push_str("| ");
                pat_src(p, s);
                s.push_str(" -> ");
                src_i(e, s, ind + 1);
            }
            s.push(')');
        }
        E::Arr(es) => {
            s.push('[');
            for (i, a) in es.iter().enumerate() {
                if i > 0 {
                    s.push_str(", ");
                }
                src_i(a, s, ind);
            }
            s.push(']');
        }
    }
}

pub struct Gen<'r> {
    pub rng: &'r mut Rng,
    fresh: u32,
    pub feats: std::collections::BTreeSet<&'static str>,
}

type Env = Vec<(String, Ty)>;

impl<'r> Gen<'r> {
    pub fn new(rng: &'r mut Rng) -> Gen<'r> {
        Gen { rng, fresh: 0, feats: Default::default() }
    }
    fn name(&mut self, p: &str) -> String {
        self.fresh += 1;
        format!("{}{}", p, self.fresh)
    }
    pub fn ty(&mut self, d: u32) -> Ty {
        let k = if d == 0 { self.rng.below(3) } else { self.rng.below(10) };
        match k {
            0 => Ty::Int,
            1 => Ty::Str,
            2 => Ty::Flt,
            3 => Ty::Fn(Box::new(self.ty(d - 1)), Box::new(self.ty(d - 1))),
            4 => {
                let n = self.rng.range(1, 3);
                Ty::Rec((0..n).map(|i| (format!("f{}", i), self.ty(d - 1))).collect())
            }
            5 => {
                let n = self.rng.range(2, 3);
                Ty::Tup((0..n).map(|_| self.ty(d - 1)).collect())
            }
            6 => Ty::Opt(Box::new(self.ty(d - 1))),
            7 => Ty::En,
            8 => Ty::Arr(Box::new(self.ty(d - 1))),
            _ => Ty::Int,
        }
    }
    fn leaf(&mut self, t: &Ty, env: &Env) -> E {
        let cands: Vec<&String> = env.iter().filter(|(_, vt)| vt == t).map(|(n, _)| n).collect();
        if !cands.is_empty() && self.rng.chance(2, 3) {
            return E::Var((*self.rng.pick(&cands)).clone());
        }
        match t {
            Ty::Int => E::Lit(format!("{}", self.rng.range(0, 9))),
            Ty::Str => E::Lit(format!("\"s{}\"", self.rng.range(0, 3))),
            Ty::Flt => E::Lit(format!("{}.5", self.rng.range(0, 3))),
            Ty::Fn(a, b) => {
                let x = self.name("a");
                let mut env2 = env.clone();
                env2.push((x.clone(), (**a).clone()));
                E::Lam(vec![x], Box::new(self.leaf(b, &env2)))
            }
            Ty::Rec(fs) => E::Rec(fs.iter().map(|(n, t)| (n.clone(), self.leaf(t, env))).collect()),
            Ty::Tup(ts) => E::Tup(ts.iter().map(|t| self.leaf(t, env)).collect()),
            Ty::Opt(_) => E::Var("Non".into()),
            Ty::En => E::Var("Rr".into()),
            Ty::Arr(_) => E::Arr(vec![]),
        }
    }
    pub fn pat(&mut self, t: &Ty, d: u32, binds: &mut Env) -> P {
        let r = self.rng.below(10);
        if d == 0 || r < 2 {
            return if self.rng.chance(1, 2) {
                P::Wild
            } else {
                let v = self.name("v");
                binds.push((v.clone(), t.clone()));
                P::Var(v)
            };
        }
        if r == 2 {
            let v = self.name("w");
            binds.push((v.clone(), t.clone()));
            self.feats.insert("as-pattern");
            return P::As(v, Box::new(self.pat(t, d - 1, binds)));
        }
        match t {
            Ty::Int => P::Lit(format!("{}", self.rng.range(0, 3))),
            Ty::Str => P::Lit(format!("\"s{}\"", self.rng.range(0, 3))),
            Ty::Opt(a) => match self.rng.below(3) {
                0 => P::Ctor("Non".into(), vec![]),
                1 => P::Ctor("Som".into(), vec![self.pat(a, d - 1, binds)]),
                _ => P::Ctor("Two".into(), vec![self.pat(&Ty::Int, d - 1, binds), self.pat(a, d - 1, binds)]),
            },
            Ty::En => match self.rng.below(4) {
                0 => P::Ctor("Pp".into(), vec![self.pat(&Ty::Int, d - 1, binds)]),
                1 => P::Ctor("Qq".into(), vec![self.pat(&Ty::Str, d - 1, binds), self.pat(&Ty::Int, d - 1, binds)]),
                2 => P::Ctor("Rr".into(), vec![]),
                _ => P::Ctor("Ss".into(), vec![self.pat(&Ty::En, d - 1, binds)]),
            },
            Ty::Tup(ts) => P::Tup(ts.iter().map(|t| self.pat(t, d - 1, binds)).collect()),
            Ty::Rec(fs) => {
                self.feats.insert("record-pattern");
                let mut out = vec![];
                for (n, ft) in fs {
                    match self.rng.below(3) {
                        0 => {}
                        1 => {
                            binds.push((n.clone(), ft.clone()));
                            out.push((n.clone(), None));
                        }
                        _ => out.push((n.clone(), Some(self.pat(ft, d - 1, binds)))),
                    }
                }
                P::Rec(out)
            }
            _ => P::Wild,
        }
    }
    pub fn expr(&mut self, t: &Ty, env: &Env, d: u32) -> E {
        if d == 0 {
            return self.leaf(t, env);
        }
        let k = self.rng.below(16);
        match k {
            0 | 1 => self.leaf(t, env),
            2 => {
                let t1 = self.ty(1);
                let x = self.name("x");
                let v = self.expr(&t1, env, d - 1);
                let mut env2 = env.clone();
                env2.push((x.clone(), t1));
                self.feats.insert("let");
                E::Let(x, vec![], Box::new(v), Box::new(self.expr(t, &env2, d - 1)))
            }
            3 => {
                // local function definition, used once
                let t1 = self.ty(1);
                let f = self.name("fn");
                let x = self.name("x");
                let mut env2 = env.clone();
                env2.push((x.clone(), t1.clone()));
                let body = self.expr(t, &env2, d - 1);
                let arg = self.expr(&t1, env, d - 1);
                self.feats.insert("let-fn");
                E::Let(f.clone(), vec![x], Box::new(body), Box::new(E::App(Box::new(E::Var(f)), vec![arg])))
            }
            4 => {
                let t1 = self.ty(1);
                let x = self.name("x");
                let mut env2 = env.clone();
                env2.push((x.clone(), t1.clone()));
                let body = self.expr(t, &env2, d - 1);
                let arg = self.expr(&t1, env, d - 1);
                self.feats.insert("beta");
                E::App(Box::new(E::Lam(vec![x], Box::new(body))), vec![arg])
            }
            5 => {
                let a = self.expr(&Ty::Int, env, d - 1);
                let b = self.expr(&Ty::Int, env, d - 1);
                let op = *self.rng.pick(&["#Int<", "#Int=="]);
                self.feats.insert("if");
                E::If(
                    Box::new(E::Bin(op, Box::new(a), Box::new(b))),
                    Box::new(self.expr(t, env, d - 1)),
                    Box::new(self.expr(t, env, d - 1)),
                )
            }
            6 | 7 | 8 => {
                // match
                let st = match self.rng.below(5) {
                    0 => Ty::Opt(Box::new(self.ty(1))),
                    1 => Ty::En,
                    2 => Ty::Tup(vec![Ty::Opt(Box::new(Ty::Int)), Ty::En]),
                    3 => Ty::Int,
                    _ => Ty::Opt(Box::new(Ty::En)),
                };
                let sc = self.expr(&st, env, d - 1);
                let n = self.rng.range(1, 5);
                let mut arms = vec![];
                for _ in 0..n {
                    let mut binds = vec![];
                    let p = self.pat(&st, 3, &mut binds);
                    let mut env2 = env.clone();
                    env2.extend(binds);
                    arms.push((p, self.expr(t, &env2, d - 1)));
                }
                if self.rng.chance(6, 7) {
                    arms.push((P::Wild, self.expr(t, env, d - 1)));
                } else {
                    self.feats.insert("match-no-default");
                }
                self.feats.insert("match");
                E::Match(Box::new(sc), arms)
            }
            9 => {
                // projection out of a record
                let n = self.rng.range(1, 3) as usize;
                let pos = self.rng.below(n as u64) as usize;
                let mut fs = vec![];
                for i in 0..n {
                    let ft = if i == pos { t.clone() } else { self.ty(1) };
                    fs.push((format!("g{}", i), self.expr(&ft, env, d - 1)));
                }
                self.feats.insert("projection");
                E::Proj(Box::new(E::Rec(fs)), format!("g{}", pos))
            }
            10 => {
                // polymorphic helpers at this type
                self.feats.insert("poly-use");
                match self.rng.below(4) {
                    0 => E::App(Box::new(E::Var("id".into())), vec![self.expr(t, env, d - 1)]),
                    1 => {
                        let t2 = self.ty(1);
                        E::App(
                            Box::new(E::Var("konst".into())),
                            vec![self.expr(t, env, d - 1), self.expr(&t2, env, d - 1)],
                        )
                    }
                    2 => {
                        let t2 = self.ty(1);
                        E::Proj(
                            Box::new(E::App(
                                Box::new(E::Var("pair".into())),
                                vec![self.expr(t, env, d - 1), self.expr(&t2, env, d - 1)],
                            )),
                            "fst".into(),
                        )
                    }
                    _ => {
                        let t2 = self.ty(1);
                        let f = self.expr(&Ty::Fn(Box::new(t2.clone()), Box::new(t.clone())), env, d - 1);
                        E::App(Box::new(E::Var("ap".into())), vec![f, self.expr(&t2, env, d - 1)])
                    }
                }
            }
            _ => match t {
                Ty::Int => {
                    let op = *self.rng.pick(&["#Int+", "#Int-", "#Int*"]);
                    E::Bin(op, Box::new(self.expr(t, env, d - 1)), Box::new(self.expr(t, env, d - 1)))
                }
                Ty::Flt => E::Bin("#Float+", Box::new(self.expr(t, env, d - 1)), Box::new(self.expr(t, env, d - 1))),
                Ty::Str => self.leaf(t, env),
                Ty::Fn(a, b) => {
                    let x = self.name("a");
                    let mut env2 = env.clone();
                    env2.push((x.clone(), (**a).clone()));
                    self.feats.insert("lambda");
                    E::Lam(vec![x], Box::new(self.expr(b, &env2, d - 1)))
                }
                Ty::Rec(fs) => E::Rec(fs.iter().map(|(n, ft)| (n.clone(), self.expr(ft, env, d - 1))).collect()),
                Ty::Tup(ts) => E::Tup(ts.iter().map(|ft| self.expr(ft, env, d - 1)).collect()),
                Ty::Opt(a) => match self.rng.below(3) {
                    0 => E::Var("Non".into()),
                    1 => E::App(Box::new(E::Var("Som".into())), vec![self.expr(a, env, d - 1)]),
                    _ => E::App(
                        Box::new(E::Var("Two".into())),
                        vec![self.expr(&Ty::Int, env, d - 1), self.expr(a, env, d - 1)],
                    ),
                },
                Ty::En => match self.rng.below(4) {
                    0 => E::App(Box::new(E::Var("Pp".into())), vec![self.expr(&Ty::Int, env, d - 1)]),
                    1 => E::App(
                        Box::new(E::Var("Qq".into())),
                        vec![self.expr(&Ty::Str, env, d - 1), self.expr(&Ty::Int, env, d - 1)],
                    ),
                    2 => E::Var("Rr".into()),
                    _ => E::App(Box::new(E::Var("Ss".into())), vec![self.expr(&Ty::En, env, d - 1)]),
                },
                Ty::Arr(a) => {
                    let n = self.rng.range(0, 3);
                    E::Arr((0..n).map(|_| self.expr(a, env, d - 1)).collect())
                }
            },
        }
    }
}

fn count_nodes(e: &E) -> usize {
    1 + match e {
        E::Lit(_) | E::Var(_) | E::Raw(_) => 0,
        E::Lam(_, b) => count_nodes(b),
        E::App(f, a) => count_nodes(f) + a.iter().map(count_nodes).sum::<usize>(),
        E::Let(_, _, v, b) => count_nodes(v) + count_nodes(b),
        E::If(c, a, b) => count_nodes(c) + count_nodes(a) + count_nodes(b),
        E::Bin(_, a, b) => count_nodes(a) + count_nodes(b),
        E::Rec(fs) => fs.iter().map(|(_, v)| count_nodes(v)).sum(),
        E::Tup(es) | E::Arr(es) => es.iter().map(count_nodes).sum(),
        E::Proj(r, _) => count_nodes(r),
        E::Match(s, arms) => count_nodes(s) + arms.iter().map(|(_, e)| count_nodes(e)).sum::<usize>(),
    }
}

/// Replace the `k`-th node (pre-order) by `f(old)`.
fn replace_at(e: &mut E, k: &mut usize, f: &mut dyn FnMut(E) -> E) -> bool {
    if *k == 0 {
        let old = std::mem::replace(e, E::Lit("0".into()));
        *e = f(old);
        return true;
    }
    *k -= 1;
    match e {
        E::Lit(_) | E::Var(_) | E::Raw(_) => false,
        E::Lam(_, b) => replace_at(b, k, f),
        E::App(g, a) => replace_at(g, k, f) || a.iter_mut().any(|x| replace_at(x, k, f)),
        E::Let(_, _, v, b) => replace_at(v, k, f) || replace_at(b, k, f),
        E::If(c, a, b) => replace_at(c, k, f) || replace_at(a, k, f) || replace_at(b, k, f),
        E::Bin(_, a, b) => replace_at(a, k, f) || replace_at(b, k, f),
        E::Rec(fs) => fs.iter_mut().any(|(_, v)| replace_at(v, k, f)),
        E::Tup(es) | E::Arr(es) => es.iter_mut().any(|x| replace_at(x, k, f)),
        E::Proj(r, _) => replace_at(r, k, f),
        E::Match(s, arms) => replace_at(s, k, f) || arms.iter_mut().any(|(_, x)| replace_at(x, k, f)),
    }
}

pub const MUTATIONS: &[&str] = &[
    "wrong-literal", "undefined-variable", "missing-field", "extra-argument", "ctor-arity",
    "duplicate-field", "undefined-ctor", "bad-annotation", "undefined-type", "int-op-on-other",
];

fn mutate(e: &mut E, rng: &mut Rng) -> &'static str {
    let n = count_nodes(e);
    let mut k = rng.below(n as u64) as usize;
    let m = rng.below(MUTATIONS.len() as u64) as usize;
    let tag = rng.below(3);
    let mut f = |old: E| -> E {
        match m {
            0 => E::Lit((*["\"oops\"", "3.25", "7"].get(tag as usize).unwrap()).to_string()),
            1 => E::Var(format!("undefined_{}", tag)),
            2 => E::Proj(Box::new(old), "nofield".into()),
            3 => E::App(Box::new(old), vec![E::Lit("1".into())]),
            4 => E::Raw("(Som 1 2)".into()),
            5 => E::Raw("{ dup = 1, dup = 2 }".into()),
            6 => E::Raw("(match 1 with | Zzz -> 0)".into()),
            7 => E::Let("bad : String".into(), vec![], Box::new(E::Lit("1".into())), Box::new(old)),
            8 => E::Let("t : Nope".into(), vec![], Box::new(E::Lit("1".into())), Box::new(old)),
            _ => E::Bin("#Int+", Box::new(old), Box::new(E::Lit("\"str\"".into()))),
        }
    };
    replace_at(e, &mut k, &mut f);
    MUTATIONS[m]
}

fn plain_program(rng: &mut Rng, idx: usize) -> (Vec<(String, E)>, E, Vec<&'static str>) {
    let mut g = Gen::new(rng);
    // two or three top-level bindings, then a result record mentioning them and the helpers
    let n_top = g.rng.range(1, 3);
    let mut env: Env = vec![];
    let mut tops = vec![];
    for i in 0..n_top {
        let t = g.ty(2);
        let d = g.rng.range(1, 4) as u32;
        let e = g.expr(&t, &env, d);
        let name = format!("top{}", i);
        tops.push((name.clone(), e));
        env.push((name, t));
    }
    let t = g.ty(2);
    let d = g.rng.range(1, 4) as u32;
    let main = g.expr(&t, &env, d);
    let mut fields = vec![("main".to_string(), main)];
    for (n, _) in &env {
        if g.rng.chance(1, 2) {
            fields.push((format!("r_{}", n), E::Var(n.clone())));
        }
    }
    for h in ["id", "konst", "pair", "ap", "compose"] {
        if g.rng.chance(1, 6) {
            fields.push((format!("h_{}", h), E::Var(h.to_string())));
        }
    }
    if g.rng.chance(1, 5) {
        // a polymorphic function defined inside a record field
        fields.push(("poly".into(), E::Raw("(\\f x y -> f y x)".into())));
    }
    let _ = idx;
    let feats = g.feats.iter().cloned().collect();
    (tops, E::Rec(fields), feats)
}

fn render(tops: &[(String, E)], result: &E) -> String {
    let mut s = String::from(DECLS);
    for (n, e) in tops {
        s.push_str("let ");
        s.push_str(n);
        s.push_str(" = ");
        src(e, &mut s);
        s.push('\n');
    }
    src(result, &mut s);
    s.push('\n');
    s
}

const PRELUDE_ATOMS: &[&str] = &["1", "2", "x", "y", "(x + y)", "(x * 3)", "(y - x)"];
const PRELUDE_TEMPLATES: &[&str] = &[
    "let x = $A\nlet y = $A\n$A + $A * $A",
    "let x = 1\nlet y = 2\nif $A == $A then show $A else show ($A < $A)",
    "let x = 1\nlet y = 2\nmatch Some $A with\n| Some z -> z + $A\n| None -> 0",
    "let x = 1\nlet y = 2\nlet f a b = a + b\n{ f, r = f $A $A, s = show $A, o = Some $A }",
    "let x = 1\nlet y = 2\n\"a\" <> show $A <> \"b\"",
    "let x = 1\nlet y = 2\nlet eq l r = l == r\n{ eq, t = eq $A $A }",
    // implicit-argument failures and other errors with the prelude in scope
    "let x = 1\nlet y = 2\n$A + \"a\"",
    "let x = 1\nlet y = 2\nshow (\\z -> z + $A)",
    "let x = 1\nlet y = 2\n(\\z -> z) == (\\z -> z)",
    "let x = 1\nlet y = 2\nlet r = { a = $A, b = \"s\" }\nr.a + r.b",
    "let x = 1\nlet y = 2\nmatch $A with\n| Some z -> z\n| None -> undefined_name",
    "let x = 1\nlet y = 2\n$A == \"a\" && show $A == 1",
    "let x = 1\nlet y = 2\nlet xs = [$A, $A, $A]\nlet f z = z <> z\n{ xs, f, u = f xs, w = f $A }",
    "let x = 1\nlet y = 2.0\nx + y",
    "let x = 1\nlet y = 2\nlet g a = a < a\n{ g, b1 = g $A, b2 = g \"s\", b3 = g (\\q -> q) }",
];

fn prelude_program(rng: &mut Rng) -> (String, String) {
    let ti = rng.below(PRELUDE_TEMPLATES.len() as u64) as usize;
    let mut s = String::new();
    for (i, part) in PRELUDE_TEMPLATES[ti].split("$A").enumerate() {
        if i > 0 {
            s.push_str(*rng.pick::<&str>(PRELUDE_ATOMS));
        }
        s.push_str(part);
    }
    s.push('\n');
    (s, format!("t{}", ti))
}

/// The program stream of one (seed, tier): a pure function of its arguments.
pub fn gen_stream(seed: u64, thorough: bool) -> Vec<Prog> {
    let mut rng = Rng::new(seed, 1600);
    let n_plain = if thorough { 24000 } else { 3000 };
    let n_prelude = if thorough { 2400 } else { 300 };
    let mut progs = vec![];
    for i in 0..n_plain {
        let (mut tops, mut result, feats) = plain_program(&mut rng, i);
        let r = rng.below(10);
        let (kind, mut shape) = if r < 4 {
            ("plain".to_string(), String::new())
        } else if r < 9 {
            let n_mut = rng.range(1, 3);
            let mut tags = vec![];
            for _ in 0..n_mut {
                let which = rng.below(tops.len() as u64 + 1) as usize;
                let tag = if which < tops.len() {
                    mutate(&mut tops[which].1, &mut rng)
                } else {
                    mutate(&mut result, &mut rng)
                };
                tags.push(tag);
            }
            tags.sort();
            ("mutated".to_string(), tags.join("+"))
        } else {
            ("truncated".to_string(), String::new())
        };
        let mut s = render(&tops, &result);
        if kind == "truncated" {
            let start = DECLS.len();
            let cut = start + rng.below((s.len() - start) as u64) as usize;
            s.truncate(cut);
            s.push('\n');
        }
        if shape.is_empty() {
            shape = feats.join("+");
        }
        progs.push(Prog { name: format!("p{}", i % 7), src: s, prelude: false, kind, shape });
    }
    for i in 0..n_prelude {
        let (s, shape) = prelude_program(&mut rng);
        progs.push(Prog { name: format!("q{}", i % 5), src: s, prelude: true, kind: "prelude".into(), shape });
    }
    progs
}
