//! C02 — type soundness: programs the gluon type checker accepts never go wrong.
//!
//! A. Property oracle on the real implementation (independent of any model): generated programs,
//!    mutants of them, multi-module scenarios and the corpus are typechecked by the real checker;
//!    every ACCEPTED program is run under several settings masks and must not (a) make the VM
//!    complain about the shape of a value (`Cannot call …`, `GetOffset on …`, ICE), (b) panic,
//!    (c) kill the process, (d) return a value whose representation is not the one its static
//!    type promises (`shape::shape_ok`).
//! B. Correspondence cases for the Lean driver: `tc <AEXPR> <STY>` for the unmutated generated
//!    programs, `glob R I K` for the module layer (IO-typed module under `run_io`).
//!
//! Everything that touches gluon runs in child processes (`--child run|glob`).
#[path = "c02/genbind.rs"]
mod genbind;
#[path = "c02/mutate.rs"]
mod mutate;
#[path = "c02/sexp.rs"]
mod sexp;
#[path = "c02/shape.rs"]
mod shape;

use gluon::vm::api::ValueRef;
use gluon::query::CompilationBase;
use gluon::{RootedThread, ThreadExt};
use gv::surf::{self, b, Expr, Gen, Pat, Ty};
use gv::{Args, Out};
use serde_json::{json, Value};
use std::collections::{BTreeMap, BTreeSet, HashMap};
use std::io::Write as _;
use std::sync::{Arc, Mutex};
use std::time::{Duration, Instant};

const BITS: [&str; 5] = ["implicit_prelude", "optimize", "emit_debug_info", "run_io", "full_metadata"];
const RUN_IO: u8 = 8;

fn decode_mask(m: u8) -> String {
    let on: Vec<&str> = (0..5).filter(|i| m & (1 << i) != 0).map(|i| BITS[i]).collect();
    if on.is_empty() {
        format!("mask {} (all settings off)", m)
    } else {
        format!("mask {} ({})", m, on.join(","))
    }
}

// =============================================================================================
// child side

/// soft limit (CPU time of the child, so that a loaded machine does not change outcomes): the VM
/// is interrupted — a diverging mutant is not a soundness failure;
/// hard limit (CPU, or wall clock for a deadlock): the child gives up (`exit:97`, reported as
/// `abort:timeout`)
const SOFT_CPU_MS: u64 = 5_000;
const HARD_CPU_MS: u64 = 40_000;
const HARD_WALL: Duration = Duration::from_secs(600);

/// CPU time (user + system) this process has used, from /proc/self/stat (100 ticks per second).
fn cpu_ms() -> u64 {
    let s = std::fs::read_to_string("/proc/self/stat").unwrap_or_default();
    let rest = s.rsplit(')').next().unwrap_or("");
    let f: Vec<&str> = rest.split_whitespace().collect();
    let t = |i: usize| f.get(i).and_then(|x| x.parse::<u64>().ok()).unwrap_or(0);
    (t(11) + t(12)) * 10
}

struct Watch {
    vm: Option<RootedThread>,
    start: Option<(Instant, u64)>,
    interrupted: bool,
}

struct Child {
    vms: HashMap<u8, RootedThread>,
    watch: Arc<Mutex<Watch>>,
}

fn progress(s: &str) {
    let so = std::io::stdout();
    let mut o = so.lock();
    let _ = writeln!(o, "P {}", s);
    let _ = o.flush();
}

fn make_vm(mask: u8) -> RootedThread {
    let vm = gv::vm::new_vm();
    {
        let mut db = vm.get_database_mut();
        db.set_implicit_prelude(mask & 1 != 0);
        db.set_optimize(mask & 2 != 0);
        db.set_emit_debug_info(mask & 4 != 0);
        db.set_run_io(mask & 8 != 0);
        db.set_full_metadata(mask & 16 != 0);
    }
    vm.set_memory_limit(1 << 29);
    // warm up (loads the prelude when it is implicit) outside the watchdog
    let _ = gv::catch(|| vm.run_expr::<surf::AnyVal>(&format!("warm{}", mask), "1"));
    vm
}

/// At most `n` characters of `s`, with addresses (`0x55f6c3834fb0`) blanked: nothing that
/// differs between two runs may reach the output files.
fn short(s: &str, n: usize) -> String {
    let mut o = String::new();
    let cs: Vec<char> = s.chars().collect();
    let mut i = 0;
    while i < cs.len() && o.chars().count() < n {
        if cs[i] == '0' && i + 1 < cs.len() && cs[i + 1] == 'x' && i + 2 < cs.len() && cs[i + 2].is_ascii_hexdigit() {
            o.push_str("0x_");
            i += 2;
            while i < cs.len() && cs[i].is_ascii_hexdigit() {
                i += 1;
            }
        } else {
            o.push(cs[i]);
            i += 1;
        }
    }
    o
}

fn classify(msg: &str) -> String {
    if msg.to_ascii_lowercase().contains("interrupted") && !msg.contains("┌─") {
        return "err:interrupted".into();
    }
    short(&surf::classify_error(msg), 400)
}

impl Child {
    fn new() -> Child {
        let watch = Arc::new(Mutex::new(Watch { vm: None, start: None, interrupted: false }));
        let w2 = watch.clone();
        std::thread::spawn(move || loop {
            std::thread::sleep(Duration::from_millis(50));
            let mut w = w2.lock().unwrap();
            if let Some((st, cpu0)) = w.start {
                let used = cpu_ms().saturating_sub(cpu0);
                if used > HARD_CPU_MS || st.elapsed() > HARD_WALL {
                    std::process::exit(97);
                }
                if used > SOFT_CPU_MS && !w.interrupted {
                    if let Some(vm) = &w.vm {
                        vm.interrupt();
                    }
                    w.interrupted = true;
                }
            }
        });
        Child { vms: HashMap::new(), watch }
    }

    fn vm(&mut self, mask: u8) -> RootedThread {
        self.vms.entry(mask).or_insert_with(|| make_vm(mask)).clone()
    }

    fn guard<T>(&mut self, vm: Option<&RootedThread>, f: impl FnOnce() -> T) -> (T, bool) {
        {
            let mut w = self.watch.lock().unwrap();
            w.vm = vm.cloned();
            w.start = Some((Instant::now(), cpu_ms()));
            w.interrupted = false;
        }
        let r = f();
        let mut w = self.watch.lock().unwrap();
        w.start = None;
        w.vm = None;
        (r, w.interrupted)
    }

    /// Register the scenario's modules on `vm`; returns the outcome of every eager load.
    fn register(&mut self, vm: &RootedThread, mask: u8, modules: &[(String, String, bool)]) -> Vec<Value> {
        let mut out = vec![];
        for (name, text, load) in modules {
            if *load {
                progress(&format!("load {} {}", mask, name));
                let (r, _) = self.guard(Some(vm), || gv::catch(|| vm.load_script(name, text)));
                let res = match r {
                    Err(p) => format!("panic {}", gv::quote(&short(&p, 200))),
                    Ok(Ok(())) => "ok".to_string(),
                    Ok(Err(e)) => classify(&e.to_string()),
                };
                if res.starts_with("panic") || res == "err:interrupted" {
                    self.vms.remove(&mask);
                }
                out.push(json!([name, res]));
            } else {
                vm.get_database_mut().add_module(name.clone(), text);
            }
        }
        out
    }

    fn handle(&mut self, input: &str) -> String {
        let c: Value = serde_json::from_str(input).unwrap();
        let name = c["name"].as_str().unwrap().to_string();
        let src = c["src"].as_str().unwrap().to_string();
        let masks: Vec<u8> = c["masks"].as_array().unwrap().iter().map(|m| m.as_u64().unwrap() as u8).collect();
        let modules: Vec<(String, String, bool)> = c["modules"]
            .as_array()
            .map(|a| {
                a.iter()
                    .map(|m| (m[0].as_str().unwrap().to_string(), m[1].as_str().unwrap().to_string(), m[2].as_bool().unwrap_or(false)))
                    .collect()
            })
            .unwrap_or_default();
        // ---- the type checker's verdict (settings: everything off)
        progress("tc");
        let vm0 = self.vm(0);
        let loads0 = if modules.is_empty() { vec![] } else { self.register(&vm0, 0, &modules) };
        let vm0 = self.vm(0);
        let tc_name = format!("{}_t", name);
        let (r, _) = self.guard(None, || gv::catch(|| vm0.typecheck_str(&tc_name, &src, None).map(|(_, t)| t)));
        let (tc, tc_msg, ty) = match r {
            Err(p) => {
                self.vms.remove(&0);
                ("panic", short(&p, 200), String::new())
            }
            Ok(Ok(t)) => ("accept", String::new(), short(&format!("{}", t).replace('\n', " "), 200)),
            Ok(Err(e)) => ("reject", classify(&e.to_string()), String::new()),
        };
        let mut runs = vec![];
        if tc == "accept" {
            for &m in &masks {
                progress(&format!("run {}", m));
                let vm = self.vm(m);
                let loads = if m == 0 {
                    loads0.clone()
                } else if modules.is_empty() {
                    vec![]
                } else {
                    self.register(&vm, m, &modules)
                };
                let vm = self.vm(m);
                let run_name = format!("{}_{}", name, m);
                let (r, interrupted) = self.guard(Some(&vm), || {
                    let r = gv::catch(|| vm.run_expr::<surf::AnyVal>(&run_name, &src));
                    match r {
                        Err(p) => (format!("panic {}", gv::quote(&short(&p, 200))), json!(null)),
                        Ok(Err(e)) => (classify(&e.to_string()), json!(null)),
                        Ok(Ok((v, t))) => {
                            let canon = gv::catch(|| surf::canon_value(v.get_variant()))
                                .unwrap_or_else(|p| format!("(unprintable {})", gv::quote(&short(&p, 60))));
                            let sh = gv::catch(|| shape::shape_ok(&vm, &t, v.get_variant()));
                            let shape = match sh {
                                Err(p) => json!({"r": "walker-panic", "msg": short(&p, 120)}),
                                Ok((w, res)) => {
                                    let sk: BTreeMap<String, u64> = w.skipped.clone();
                                    match res {
                                        Ok(()) => json!({"r": "ok", "checked": w.checked, "skipped": sk}),
                                        Err((fp, msg)) => json!({"r": "bad", "fp": fp, "msg": msg, "checked": w.checked, "skipped": sk}),
                                    }
                                }
                            };
                            (
                                format!("(ok {})", short(&canon, 300)),
                                json!({"shape": shape, "ty": short(&format!("{}", t).replace('\n', " "), 200)}),
                            )
                        }
                    }
                });
                let (mut outc, extra) = r;
                if interrupted && !outc.starts_with("(ok") {
                    outc = "err:interrupted".into();
                }
                if outc.starts_with("panic") || interrupted {
                    // a panicking / interrupted VM is not reused
                    self.vms.remove(&m);
                }
                runs.push(json!({"mask": m, "out": outc, "loads": loads, "x": extra}));
            }
        }
        json!({"tc": tc, "tc_msg": tc_msg, "ty": ty, "loads0": loads0, "runs": runs}).to_string()
    }
}

fn child_run() {
    let mut c = Child::new();
    gv::child::serve(|input| c.handle(input));
}

// ---- B2: the module layer

fn glob_body(k: &str) -> &'static str {
    match k {
        "int" => "7",
        "str" => "\"s\"",
        "rec" => "{ a = 1, b = \"x\" }",
        "fn" => "\\x -> x #Int+ 1",
        "pfn" => "\\x -> 1",
        _ => "[1, 2]",
    }
}

fn glob_text(i: bool, k: &str) -> String {
    if i {
        format!("let {{ wrap }} = import! std.io.prim\nwrap ({})\n", glob_body(k))
    } else {
        format!("{}\n", glob_body(k))
    }
}

fn stored_kind(v: &ValueRef) -> &'static str {
    match v {
        ValueRef::Int(_) => "int",
        ValueRef::String(_) => "str",
        ValueRef::Data(_) => "data",
        ValueRef::Array(_) => "arr",
        ValueRef::Closure(_) | ValueRef::Internal => "fn",
        ValueRef::Byte(_) => "byte",
        ValueRef::Float(_) => "float",
        ValueRef::Userdata(_) => "userdata",
        ValueRef::Thread(_) => "thread",
    }
}

fn is_shape_complaint(msg: &str) -> bool {
    msg.contains("Cannot call")
        || msg.contains("GetOffset on")
        || msg.contains("non data")
        || msg.contains("Unexpected value")
        || msg.contains("ICE")
}

fn child_glob() {
    gv::child::serve(|input| {
        let c: Value = serde_json::from_str(input).unwrap();
        let (r, i, o) = (c["r"].as_bool().unwrap(), c["i"].as_bool().unwrap(), c["o"].as_bool().unwrap());
        let k = c["k"].as_str().unwrap();
        let vm = gv::vm::new_vm();
        {
            let mut db = vm.get_database_mut();
            db.set_implicit_prelude(false);
            db.set_optimize(o);
            db.set_run_io(r);
        }
        let text = glob_text(i, k);
        let load = match gv::catch(|| vm.load_script("m", &text)) {
            Err(p) => format!("panic {}", short(&p, 200)),
            Ok(Ok(())) => "ok".into(),
            Ok(Err(e)) => classify(&e.to_string()),
        };
        // what is stored for the global `m` now (reading the global table runs nothing)
        let stored = match gv::catch(|| vm.get_global::<surf::AnyVal>("m")) {
            Ok(Ok(v)) => stored_kind(&v.get_variant().as_ref()).to_string(),
            Ok(Err(e)) => format!("none:{}", short(&e.to_string(), 60)),
            Err(p) => format!("panic:{}", short(&p, 60)),
        };
        // the type an importer sees
        let (importer, ity) = match gv::catch(|| vm.typecheck_str("t", "import! m", None)) {
            Ok(Ok((_, t))) => {
                use gluon::base::types::TypeExt;
                let s0 = format!("{}", t);
                let t = t.remove_forall();
                let s = format!("{}", t);
                let name = t.alias_ident().map(|id| id.declared_name().to_string()).unwrap_or_default();
                let io = name == "IO" || name == "std.io.IO" || s.starts_with("IO ") || s.starts_with("std.io.IO");
                (if io { "io" } else { "plain" }, short(&s0.replace('\n', " "), 80))
            }
            Ok(Err(e)) => ("error", short(&e.to_string(), 80)),
            Err(p) => ("panic", short(&p, 80)),
        };
        // using it
        let (use_, use_msg) = match gv::catch(|| vm.run_expr::<surf::AnyVal>("u", "let x = import! m in x")) {
            Err(p) => ("panic".to_string(), short(&p, 120)),
            Ok(Ok(_)) => ("ok".to_string(), String::new()),
            Ok(Err(e)) => {
                let s = e.to_string();
                (if is_shape_complaint(&s) { "wrong".to_string() } else { "ok".to_string() }, short(s.lines().next().unwrap_or(""), 160))
            }
        };
        let ice = [&load, &stored, &ity, &use_msg].iter().any(|m| m.contains("ICE"))
            && (load.starts_with("panic") || stored.starts_with("panic") || importer == "panic" || use_ == "panic");
        let payload = if ice { "(ice)".to_string() } else { format!("(stored {} importer {} use {})", stored, importer, use_) };
        json!({
            "payload": payload, "ice": ice,
            "use": use_, "use_msg": use_msg, "load": load, "ity": ity, "text": text,
        })
        .to_string()
    });
}

// =============================================================================================
// parent side: running cases in children

/// Like `gv::child::batch`, but the child's progress lines (`P <stage>`) are kept, so that when
/// the child dies the stage it died in is known: `Err((class, last stage))`.
fn batch_chunk(mode: &str, inputs: &[String], timeout: Duration) -> Vec<Result<String, (String, String)>> {
    let mut results = Vec::with_capacity(inputs.len());
    let mut start = 0;
    while start < inputs.len() {
        let mut payload = String::new();
        for i in &inputs[start..] {
            payload.push_str(&serde_json::to_string(i).unwrap());
            payload.push('\n');
        }
        let exit = gv::child::run(&["--child", mode], payload.as_bytes(), timeout);
        let (outp, class) = match &exit {
            gv::child::Exit::Ok(o) => (o.clone(), None),
            gv::child::Exit::Code(97, o, _) => (o.clone(), Some("timeout".to_string())),
            gv::child::Exit::Code(_, o, _) | gv::child::Exit::Signal(_, o, _) => (o.clone(), Some(exit.class())),
            gv::child::Exit::Timeout(o) => (o.clone(), Some(exit.class())),
        };
        let mut n = 0;
        let mut stage = String::new();
        for line in outp.lines() {
            if let Some(rest) = line.strip_prefix("R ") {
                if start + n < inputs.len() {
                    results.push(Ok(serde_json::from_str::<String>(rest).unwrap_or_else(|_| rest.to_string())));
                    n += 1;
                    stage.clear();
                }
            } else if let Some(rest) = line.strip_prefix("P ") {
                stage = rest.to_string();
            }
        }
        if start + n < inputs.len() {
            results.push(Err((class.unwrap_or_else(|| "exit:incomplete".to_string()), stage)));
            n += 1;
        }
        start += n;
    }
    results
}

/// Chunks of `chunk` inputs, each chunk in its own child, `workers` children at a time. Results
/// are in input order and do not depend on the scheduling.
fn run_parallel(
    mode: &'static str,
    inputs: Vec<String>,
    chunk: usize,
    workers: usize,
    timeout: Duration,
) -> Vec<Result<String, (String, String)>> {
    let chunks: Vec<Vec<String>> = inputs.chunks(chunk).map(|c| c.to_vec()).collect();
    let n = chunks.len();
    let chunks = Arc::new(chunks);
    let next = Arc::new(std::sync::atomic::AtomicUsize::new(0));
    let slots: Arc<Mutex<Vec<Option<Vec<Result<String, (String, String)>>>>>> = Arc::new(Mutex::new(vec![None; n]));
    let mut hs = vec![];
    for _ in 0..workers.min(n.max(1)) {
        let (chunks, next, slots) = (chunks.clone(), next.clone(), slots.clone());
        hs.push(std::thread::spawn(move || loop {
            let i = next.fetch_add(1, std::sync::atomic::Ordering::SeqCst);
            if i >= chunks.len() {
                break;
            }
            let r = batch_chunk(mode, &chunks[i], timeout);
            slots.lock().unwrap()[i] = Some(r);
        }));
    }
    for h in hs {
        h.join().unwrap();
    }
    let mut out = vec![];
    for s in slots.lock().unwrap().iter_mut() {
        out.extend(s.take().unwrap());
    }
    out
}

// =============================================================================================
// cases

struct Case {
    /// `generated`, `mutant:<kind>`, `corpus:<file>`, `scenario…`
    origin: String,
    name: String,
    src: String,
    masks: Vec<u8>,
    /// (module name, text, registered with `load_script` (true) or `add_module` (false))
    modules: Vec<(String, String, bool)>,
    has_io: bool,
    /// the typed AST of an unmutated generated program (for the `tc` case)
    gen: Option<(Expr, Ty)>,
    /// for the construct statistics
    expr: Option<Expr>,
    /// family "generalisation under a binder": (let-expanded form for the model's `acc` request,
    /// well-typed by construction?)
    acc: Option<(Option<Expr>, bool)>,
}

impl Case {
    fn input(&self) -> String {
        json!({
            "name": self.name, "src": self.src, "masks": self.masks,
            "modules": self.modules.iter().map(|(n, t, l)| json!([n, t, l])).collect::<Vec<_>>(),
        })
        .to_string()
    }
    fn replay(&self, mask: u8) -> Value {
        json!({
            "source": self.src, "mask": mask, "origin": self.origin, "name": self.name,
            "modules": self.modules.iter().map(|(n, t, l)| json!([n, t, l])).collect::<Vec<_>>(),
            "has_io": self.has_io,
        })
    }
}

fn strip_noise(s: &str, n: usize) -> String {
    // digits and quoted literals out, blanks collapsed
    let mut o = String::new();
    let mut quote: Option<char> = None;
    for c in s.chars() {
        match quote {
            Some(q) => {
                if c == q {
                    quote = None;
                }
            }
            None => {
                if c == '"' || c == '`' || c == '\'' {
                    quote = Some(c);
                } else if c.is_ascii_digit() {
                } else if c == ' ' && o.ends_with(' ') {
                } else {
                    o.push(c);
                }
            }
        }
    }
    o.trim().chars().take(n).collect()
}

fn unquote_panic(out: &str) -> String {
    // `panic "<msg>"` as printed by the child
    let s = out.trim_start_matches("panic ").trim();
    let s = s.strip_prefix('"').unwrap_or(s);
    let s = s.strip_suffix('"').unwrap_or(s);
    s.replace("\\\"", "\"").replace("\\n", " ")
}

fn panic_fp(out: &str) -> String {
    let msg = unquote_panic(out);
    if msg == "Pattern" {
        return "panic:Pattern".into();
    }
    if msg.contains("Expected IO type found") {
        return "panic:ICE:run_io-on-generalised-IO-type".into();
    }
    // one fingerprint per panic SITE where the message embeds a type (variable names vary)
    if msg.contains("Expected record, got") {
        // vm/src/compiler.rs:1107
        return "panic:compiler:record-pattern-on-non-record-type".into();
    }
    if msg.contains("Unexpected type") && msg.contains("is not a function") {
        // vm/src/core/mod.rs:1551
        return "panic:core:over-application-through-type-variable".into();
    }
    // `called `Result::unwrap()` on an `Err` value: "<the interesting part>"`
    if msg.starts_with("called `") {
        if let Some(i) = msg.find("value: ") {
            let tail = msg[i + 7..].trim_matches(|c| c == '"' || c == '\\' || c == ' ');
            return format!("panic:{}", panic_site(tail));
        }
    }
    format!("panic:{}", panic_site(&msg))
}

/// The part of a panic message that names the site: up to the first quoted thing, digits out.
fn panic_site(msg: &str) -> String {
    let head = msg.split(|c| c == '`' || c == '"' || c == '\'').next().unwrap_or("");
    let m: String = head.chars().filter(|c| !c.is_ascii_digit()).take(40).collect();
    m.trim().trim_end_matches(|c| c == ':' || c == '(' || c == ',').trim().to_string()
}

/// Mutation kinds that aim at one particular blind spot: whatever goes wrong in such a mutant is
/// fingerprinted by that call shape and the category of the failure (the concrete complaint
/// depends on the types of the fields / of the bound value, so it would not be a stable key).
///  * a record literal against an expected record type naming the same fields in another order,
///  * `rec let x = <not a function or record literal>`.
fn family_fp(origin: &str, fp: &str) -> String {
    let family = match origin {
        "mutant:annotate-permuted" | "mutant:reuse-permuted" => "record-literal-order",
        "mutant:let-to-rec" => "rec-value-binding",
        _ => return fp.to_string(),
    };
    let cat = fp.split(':').next().unwrap_or("other");
    format!("{}:{}", cat, family)
}

fn outcome_class(out: &str) -> String {
    let t = out.split(' ').next().unwrap_or("").trim_matches(|c| c == '(' || c == ')');
    if t.starts_with("wrong") {
        "wrong".into()
    } else {
        t.to_string()
    }
}

/// One failure of the property on this program: (fingerprint, sentence, mask it was seen under)
struct Fail {
    fp: String,
    what: String,
    mask: u8,
}

/// The oracle: which of the things the child observed violate the property?
fn failures_of_outcome(case: &Case, mask: u8, out: &str, what_ran: &str, fails: &mut Vec<Fail>) {
    let cls = outcome_class(out);
    if cls == "wrong" {
        let fp = if case.has_io && mask & RUN_IO != 0 && out.contains("Cannot call") {
            "wrong:import-of-io-module-under-run_io".to_string()
        } else {
            format!("wrong:{}", strip_noise(out.trim_start_matches("wrong:").lines().next().unwrap_or(""), 50))
        };
        fails.push(Fail {
            fp,
            what: format!(
                "a program accepted by the type checker ({}) made the VM complain about the shape of a value when {} under {}: {}",
                case.origin, what_ran, decode_mask(mask), short(out, 160)
            ),
            mask,
        });
    } else if cls == "panic" {
        fails.push(Fail {
            fp: panic_fp(out),
            what: format!(
                "a program accepted by the type checker ({}) made the implementation panic when {} under {}: {}",
                case.origin, what_ran, decode_mask(mask), short(out, 160)
            ),
            mask,
        });
    }
}

struct Verdict {
    accepted: bool,
    /// the type checker answered (accept or reject) rather than dying
    verdict_given: bool,
    fails: Vec<Fail>,
    /// outcome under mask 0 (if it ran)
    out0: Option<String>,
    /// per mask outcome class
    outcomes: Vec<(u8, String)>,
}

fn judge(case: &Case, res: &Result<String, (String, String)>, out: &mut Out) -> Verdict {
    let mut v = Verdict { accepted: false, verdict_given: false, fails: vec![], out0: None, outcomes: vec![] };
    let r: Value = match res {
        Err((class, stage)) => {
            let mask = stage.split(' ').nth(1).and_then(|m| m.parse::<u8>().ok()).unwrap_or(0);
            let during = if stage == "tc" || stage.is_empty() {
                "typechecking it".to_string()
            } else if stage.starts_with("load") {
                format!("loading one of its modules under {}", decode_mask(mask))
            } else {
                v.accepted = true;
                format!("running it (it had been accepted) under {}", decode_mask(mask))
            };
            out.count(&format!("died:{}:{}", class, stage.split(' ').next().unwrap_or("")));
            // the type checker dying is `abort:<class>`; dying later names the stage
            let fp = if v.accepted {
                format!("abort:run:{}", class)
            } else if stage.starts_with("load") {
                format!("abort:load:{}", class)
            } else {
                format!("abort:{}", class)
            };
            v.fails.push(Fail {
                fp,
                what: format!("the process died ({}) on a program ({}) while {}", class, case.origin, during),
                mask,
            });
            return v;
        }
        Ok(s) => serde_json::from_str(s).unwrap(),
    };
    for l in r["loads0"].as_array().into_iter().flatten() {
        failures_of_outcome(case, 0, l[1].as_str().unwrap_or(""), &format!("loading its module {}", l[0].as_str().unwrap_or("")), &mut v.fails);
    }
    match r["tc"].as_str().unwrap() {
        "panic" => {
            let msg = r["tc_msg"].as_str().unwrap_or("");
            v.fails.push(Fail {
                fp: format!("panic:typecheck:{}", panic_site(msg)),
                what: format!("the type checker panicked on a program ({}): {}", case.origin, short(msg, 160)),
                mask: 0,
            });
            out.count(&format!("tc-panic:{}", case.origin_key()));
        }
        "reject" => {
            v.verdict_given = true;
            out.count(&format!("reject:{}", case.origin_key()));
            if case.origin.starts_with("genbind") {
                // the family must never fail to PARSE (that would hide its ill-typed members)
                let m = r["tc_msg"].as_str().unwrap_or("");
                if m.contains("Unexpected token") || m.contains("Unexpected end") || m.contains("parse") {
                    out.count("genbind:PARSE-ERROR");
                }
            }
            if case.origin == "generated" {
                if let Ok(path) = std::env::var("C02_DUMP") {
                    // debugging aid: the generator's slips
                    if let Ok(mut f) = std::fs::OpenOptions::new().create(true).append(true).open(path) {
                        let _ = writeln!(f, "=== {}\n{}", r["tc_msg"].as_str().unwrap_or(""), case.src);
                    }
                }
                out.count(&format!("reject-reason:{}", short(r["tc_msg"].as_str().unwrap_or(""), 70)));
            }
        }
        _ => {
            v.accepted = true;
            v.verdict_given = true;
            out.count(&format!("accept:{}", case.origin_key()));
            for run in r["runs"].as_array().unwrap() {
                let mask = run["mask"].as_u64().unwrap() as u8;
                let o = run["out"].as_str().unwrap();
                let cls = outcome_class(o);
                out.count(&format!("mask:{}", mask));
                out.count(&format!("outcome:{}", cls));
                if cls == "err:static" {
                    out.count(if mask == 0 { "static-error-after-accept:mask0" } else { "static-error-after-accept:other-mask" });
                }
                if mask != 0 {
                    for l in run["loads"].as_array().into_iter().flatten() {
                        failures_of_outcome(
                            case,
                            mask,
                            l[1].as_str().unwrap_or(""),
                            &format!("loading its module {}", l[0].as_str().unwrap_or("")),
                            &mut v.fails,
                        );
                    }
                }
                failures_of_outcome(case, mask, o, "run", &mut v.fails);
                let sh = &run["x"]["shape"];
                match sh["r"].as_str() {
                    Some("ok") | Some("bad") => {
                        out.add("shape:checked", sh["checked"].as_u64().unwrap_or(0));
                        out.count("shape:values-walked");
                        for (k, n) in sh["skipped"].as_object().into_iter().flatten() {
                            out.add(&format!("shape:skipped:{}", k), n.as_u64().unwrap_or(0));
                        }
                        if sh["r"] == "bad" {
                            v.fails.push(Fail {
                                // D6 seen through the shape walk: the unwrapped global of an IO-typed
                                // module happens to be callable, so the VM does not complain
                                fp: if case.has_io && mask & RUN_IO != 0 {
                                    "shape:import-of-io-module-under-run_io".to_string()
                                } else {
                                    format!("shape:{}", sh["fp"].as_str().unwrap_or(""))
                                },
                                what: format!(
                                    "a program accepted by the type checker ({}) ran without complaint under {} but its result does not have the representation of its type `{}`: {}; value {}",
                                    case.origin,
                                    decode_mask(mask),
                                    run["x"]["ty"].as_str().unwrap_or(""),
                                    sh["msg"].as_str().unwrap_or(""),
                                    short(o, 120)
                                ),
                                mask,
                            });
                        }
                    }
                    Some("walker-panic") => {
                        out.count("shape:walker-panic");
                        v.fails.push(Fail {
                            fp: format!("panic:shape-walk:{}", strip_noise(sh["msg"].as_str().unwrap_or(""), 30)),
                            what: format!(
                                "walking the result of an accepted program ({}) along its type panicked under {}: {}",
                                case.origin,
                                decode_mask(mask),
                                sh["msg"].as_str().unwrap_or("")
                            ),
                            mask,
                        });
                    }
                    _ => {}
                }
                if mask == 0 {
                    v.out0 = Some(o.to_string());
                }
                v.outcomes.push((mask, cls));
            }
        }
    }
    v
}

impl Case {
    fn origin_key(&self) -> String {
        if self.origin.starts_with("corpus:") {
            "corpus".into()
        } else if self.origin.starts_with("genbind:") {
            self.origin.split(':').take(3).collect::<Vec<_>>().join(":")
        } else {
            self.origin.clone()
        }
    }
}

/// Record a judged case: oracle failures (one per fingerprint), statistics, the `tc` case.
fn record(case: &Case, v: &Verdict, out: &mut Out, idx: usize) {
    let mut seen: BTreeSet<String> = BTreeSet::new();
    for f in &v.fails {
        let fp = family_fp(&case.origin, &f.fp);
        if !seen.insert(fp.clone()) {
            continue;
        }
        let n = v.fails.iter().filter(|g| family_fp(&case.origin, &g.fp) == fp).count();
        let what = if n > 1 { format!("{} (and {} more such failures of this program under other masks)", f.what, n - 1) } else { f.what.clone() };
        out.oracle_fail(&fp, &what, case.replay(f.mask));
        out.count(&format!("oracle:{}", fp));
    }
    // B3: acceptance of the family "generalisation under a binder" vs the verified checker on the
    // let-expanded form (only when the real checker gave a verdict)
    if let Some((x, typed)) = &case.acc {
        if v.verdict_given {
            if let Some(x) = x {
                out.case(&format!("acc {}", sexp::asexp(x)), if v.accepted { "(accept)" } else { "(reject)" });
            }
            // B4: the member ITSELF (no let-expansion) against the verified POLYMORPHIC checker
            // (schemes in the context, generalisation at `let`, instantiation at variables)
            if let Some(orig) = &case.expr {
                out.case(&format!("accp {}", sexp::asexp(orig)), if v.accepted { "(accept)" } else { "(reject)" });
                out.count("genbind:accp-cases");
            }
            out.count(&format!(
                "genbind:{}:{}",
                if *typed { "typed-by-construction" } else { "ill-typed-by-construction" },
                if v.accepted { "accepted" } else { "rejected" }
            ));
        } else {
            out.count("genbind:no-verdict");
        }
    }
    if !v.accepted {
        if case.gen.is_some() {
            out.count("skipped:rejected-or-died");
        }
        return;
    }
    let worst = v
        .outcomes
        .iter()
        .map(|(_, c)| c.clone())
        .find(|c| c != "ok")
        .unwrap_or_else(|| if v.fails.is_empty() { "ok".to_string() } else { "failed".to_string() });
    if let Some(e) = &case.expr {
        let cs = surf::constructs(e);
        for c in &cs {
            out.count(&format!("construct:{}", c));
        }
        if cs.len() >= 3 {
            let key: Vec<&str> = cs.iter().cloned().collect();
            out.class(format!("{}|{}|{}", case.origin_key(), key.join(","), worst));
        }
        out.count(&format!("size:{}", (surf::size(e) / 10) * 10));
    } else {
        out.class(format!("{}|{}", case.origin_key(), worst));
    }
    if idx % 61 == 7 {
        out.sample(json!({"origin": case.origin, "source": case.src, "outcomes": v.outcomes.iter().map(|(m, c)| format!("{}:{}", m, c)).collect::<Vec<_>>()}));
    }
    // B1
    if let Some((e, t)) = &case.gen {
        let mask0_failed = v.fails.iter().any(|f| f.mask == 0);
        match &v.out0 {
            Some(o) if !mask0_failed => {
                let cls = outcome_class(o);
                if matches!(cls.as_str(), "ok" | "err:arith" | "err:unmatched" | "err:user") {
                    out.case(&format!("tc {} {}", sexp::asexp(e), sexp::sty(t)), &format!("(typed {})", cls));
                } else {
                    out.count(&format!("skipped:{}", cls));
                }
            }
            _ => out.count("skipped:oracle-failure"),
        }
    }
}

// ---- generation

fn masks_for(i: usize, rng: &mut gv::rng::Rng, thorough: bool, all32_every: usize) -> Vec<u8> {
    if thorough {
        if i % all32_every == 0 {
            return (0..32).collect();
        }
        let mut m: BTreeSet<u8> = BTreeSet::new();
        m.insert(0);
        m.insert(1 + (i % 31) as u8);
        while m.len() < 8 {
            m.insert(rng.below(32) as u8);
        }
        return m.into_iter().collect();
    }
    // quick: mask 0, one mask on a rota (so that all 32 are used), two random ones
    let mut m: Vec<u8> = vec![0, 1 + (i % 31) as u8];
    for _ in 0..2 {
        let x = rng.below(32) as u8;
        if !m.contains(&x) {
            m.push(x);
        }
    }
    m
}

/// A corpus file may name the masks it needs in the quick tier on its first line:
/// `// masks: 0,8` (default: mask 0 only; the thorough tier uses all 32).
fn corpus_masks(src: &str) -> Vec<u8> {
    let first = src.lines().next().unwrap_or("");
    match first.strip_prefix("// masks:") {
        Some(rest) => {
            let mut m: Vec<u8> = rest.split(',').filter_map(|x| x.trim().parse().ok()).filter(|x| *x < 32).collect();
            if !m.contains(&0) {
                m.insert(0, 0);
            }
            m
        }
        None => vec![0],
    }
}

fn has_named(t: &Ty) -> bool {
    match t {
        Ty::Named(_) => true,
        Ty::Fun(a, r) => has_named(a) || has_named(r),
        Ty::Rec(fs) => fs.iter().any(|(_, t)| has_named(t)),
        Ty::Tup(ts) => ts.iter().any(has_named),
        Ty::Arr(t) => has_named(t),
        _ => false,
    }
}

fn import_let(name: &str, module: &str, body: Expr) -> Expr {
    // prints as `let <name> = import! <module>`
    Expr::Let(
        Pat::Var(name.to_string()),
        b(Expr::App(b(Expr::Var("import!".into())), vec![Expr::Var(module.to_string())])),
        b(body),
    )
}

fn io_prim_let(names: &[&str], body: Expr) -> Expr {
    // prints as `let { wrap, flat_map } = import! std.io.prim`
    Expr::Let(
        Pat::Rec(names.iter().enumerate().map(|(i, n)| (n.to_string(), i, Pat::Var(n.to_string()))).collect()),
        b(Expr::App(b(Expr::Var("import!".into())), vec![Expr::Var("std.io.prim".into())])),
        b(body),
    )
}

fn uses_var(e: &Expr, x: &str) -> bool {
    let mut u = false;
    surf::visit(e, &mut |n| {
        if let Expr::Var(y) = n {
            if y == x {
                u = true;
            }
        }
    });
    u
}

/// 1–3 modules then a main program importing them; some modules are `IO`-typed.
fn gen_scenario(rng: &mut gv::rng::Rng, idx: usize, masks: Vec<u8>) -> Case {
    let mut g = Gen::new(rng);
    let n = g.rng.range(1, 3) as usize;
    let mut plain: Vec<(String, Ty)> = vec![];
    let mut ios: Vec<(String, Ty)> = vec![];
    let mut modules = vec![];
    let mut eager = g.rng.chance(1, 2);
    for j in 0..n {
        let name = format!("m{}{}", ["a", "b", "c"][j], idx);
        let ty = loop {
            let t = g.ty(1);
            if !has_named(&t) {
                break t;
            }
        };
        let depth = g.rng.range(1, 3) as u32;
        let mut e = g.expr(&ty, &plain, depth);
        let is_io = g.rng.chance(1, 3);
        if is_io {
            e = io_prim_let(&["wrap"], Expr::App(b(Expr::Var("wrap".into())), vec![e]));
        }
        for (m, _) in plain.iter().rev() {
            if uses_var(&e, m) || g.rng.chance(1, 4) {
                e = import_let(m, m, e);
            }
        }
        modules.push((name.clone(), surf::program_text(&e), eager));
        eager = !eager;
        if is_io {
            ios.push((name, ty));
        } else {
            plain.push((name, ty));
        }
    }
    let ty = g.ty(2);
    let depth = g.rng.range(2, 4) as u32;
    let mut origin = "scenario".to_string();
    let mut main;
    if let Some((io_name, io_ty)) = ios.first().cloned() {
        match g.rng.below(3) {
            0 => {
                origin = "scenario:io-ignored".into();
                main = g.expr(&ty, &plain, depth);
            }
            1 => {
                origin = "scenario:io-returned".into();
                main = Expr::Var(io_name.clone());
                if g.rng.chance(1, 2) {
                    // something else first
                    let t2 = g.ty(1);
                    let e1 = g.expr(&t2, &plain, 2);
                    main = Expr::Let(Pat::Var("first".into()), b(e1), b(main));
                }
            }
            _ => {
                origin = "scenario:io-bound".into();
                let mut env2 = plain.clone();
                env2.push(("got".into(), io_ty));
                let body = g.expr(&ty, &env2, depth);
                main = io_prim_let(
                    &["wrap", "flat_map"],
                    Expr::App(
                        b(Expr::Var("flat_map".into())),
                        vec![
                            Expr::Lam(vec!["got".into()], b(Expr::App(b(Expr::Var("wrap".into())), vec![body]))),
                            Expr::Var(io_name.clone()),
                        ],
                    ),
                );
            }
        }
        for (m, _) in ios.iter().rev() {
            main = import_let(m, m, main);
        }
    } else {
        main = g.expr(&ty, &plain, depth);
    }
    for (m, _) in plain.iter().rev() {
        main = import_let(m, m, main);
    }
    Case {
        origin,
        name: format!("s{}", idx),
        src: surf::program_text(&main),
        masks,
        modules,
        has_io: !ios.is_empty(),
        gen: None,
        expr: None,
        acc: None,
    }
}

fn glob_cases(out: &mut Out, thorough: bool) {
    let mut inputs = vec![];
    let mut keys = vec![];
    for o in [false, true] {
        if o && !thorough {
            continue;
        }
        for r in [false, true] {
            for i in [false, true] {
                for k in ["int", "str", "rec", "fn", "arr", "pfn"] {
                    inputs.push(json!({"r": r, "i": i, "k": k, "o": o}).to_string());
                    keys.push((r, i, k, o));
                }
            }
        }
    }
    let res = run_parallel("glob", inputs, 10, 4, Duration::from_secs(300));
    for ((r, i, k, o), res) in keys.into_iter().zip(res) {
        let req = format!("glob {} {} {}", r as u8, i as u8, k);
        let replay = |text: &str| {
            json!({"glob": {"r": r, "i": i, "k": k, "o": o}, "source": "let x = import! m in x", "mask": (if r { 8 } else { 0 }) | (if o { 2 } else { 0 }),
                   "origin": "glob", "modules": [["m", text, true]], "has_io": i})
        };
        match res {
            Err((class, _)) => {
                out.oracle_fail(
                    &format!("abort:{}", class),
                    &format!("the process died ({}) in the module-layer scenario R={} I={} K={} optimize={}", class, r, i, k, o),
                    replay(&glob_text(i, k)),
                );
                out.count(&format!("glob:died:{}", class));
            }
            Ok(s) => {
                let v: Value = serde_json::from_str(&s).unwrap();
                let payload = v["payload"].as_str().unwrap();
                out.case(&req, payload);
                out.count(&format!("glob:{}", payload));
                out.class(format!("glob|{}{}{}|{}", r as u8, i as u8, k, payload));
                if v["load"].as_str() != Some("ok") {
                    out.count(&format!("glob:load:{}", short(v["load"].as_str().unwrap_or(""), 40)));
                }
                let use_msg = v["use_msg"].as_str().unwrap_or("");
                let what_tail = format!(
                    "module `m` = `{}` loaded with run_io={}, optimize={}; `let x = import! m in x` is accepted by the checker (type of `import! m`: {}) and then: {}",
                    v["text"].as_str().unwrap_or("").trim().replace('\n', " "),
                    r,
                    o,
                    v["ity"].as_str().unwrap_or(""),
                    use_msg
                );
                if v["load"].as_str().unwrap_or("").starts_with("panic") {
                    let fp = panic_fp(v["load"].as_str().unwrap());
                    let what = format!(
                        "module `m` = `{}` (accepted by the checker) panicked while being loaded with run_io={}, optimize={}: {}",
                        v["text"].as_str().unwrap_or("").trim().replace('\n', " "),
                        r,
                        o,
                        v["load"].as_str().unwrap()
                    );
                    out.oracle_fail(&fp, &what, replay(v["text"].as_str().unwrap_or("")));
                    out.count(&format!("oracle:{}", fp));
                }
                match v["use"].as_str().unwrap() {
                    "wrong" => {
                        let fp = if r && i {
                            "wrong:import-of-io-module-under-run_io".to_string()
                        } else {
                            format!("wrong:{}", strip_noise(use_msg, 50))
                        };
                        out.oracle_fail(&fp, &what_tail, replay(v["text"].as_str().unwrap_or("")));
                        out.count(&format!("oracle:{}", fp));
                    }
                    "panic" => {
                        let fp = panic_fp(&format!("panic \"{}\"", use_msg));
                        out.oracle_fail(&fp, &what_tail, replay(v["text"].as_str().unwrap_or("")));
                        out.count(&format!("oracle:{}", fp));
                    }
                    _ => {
                        if !use_msg.is_empty() {
                            out.count(&format!("glob:use-error:{}", strip_noise(use_msg, 40)));
                        }
                    }
                }
            }
        }
    }
}

fn replay_main(args: &Args, path: &std::path::Path) {
    let v: Value = serde_json::from_str(&std::fs::read_to_string(path).unwrap()).unwrap();
    let c = &v["case"];
    let mut out = Out::new(&args.out);
    if let Some(g) = c.get("glob") {
        println!("module-layer scenario {}", g);
        let r = run_parallel("glob", vec![g.to_string()], 1, 1, Duration::from_secs(120));
        println!("=> {:?}", r[0]);
        out.finish();
        return;
    }
    let mask = c["mask"].as_u64().unwrap_or(0) as u8;
    let case = Case {
        origin: c["origin"].as_str().unwrap_or("replay").to_string(),
        name: c["name"].as_str().unwrap_or("replay").to_string(),
        src: c["source"].as_str().unwrap().to_string(),
        masks: vec![mask],
        modules: c["modules"]
            .as_array()
            .map(|a| {
                a.iter()
                    .map(|m| (m[0].as_str().unwrap().to_string(), m[1].as_str().unwrap().to_string(), m[2].as_bool().unwrap_or(false)))
                    .collect()
            })
            .unwrap_or_default(),
        has_io: c["has_io"].as_bool().unwrap_or(false),
        gen: None,
        expr: None,
        acc: None,
    };
    for (n, t, l) in &case.modules {
        println!("-- module {} ({}):\n{}", n, if *l { "load_script" } else { "add_module" }, t);
    }
    println!("-- program ({}), {}:\n{}", case.origin, decode_mask(mask), case.src);
    let r = run_parallel("run", vec![case.input()], 1, 1, Duration::from_secs(300));
    match &r[0] {
        Ok(s) => println!("=> child answered: {}", s),
        Err((class, stage)) => println!("=> child died: {} at stage `{}`", class, stage),
    }
    let verdict = judge(&case, &r[0], &mut out);
    if verdict.fails.is_empty() {
        println!("=> no property failure");
    }
    for f in &verdict.fails {
        println!("=> FAILURE {}: {}", family_fp(&case.origin, &f.fp), f.what);
    }
    record(&case, &verdict, &mut out, 0);
    out.finish();
}

fn main() {
    gv::quiet_panics();
    let argv: Vec<String> = std::env::args().collect();
    if argv.get(1).map(|s| s.as_str()) == Some("--child") {
        match argv.get(2).map(|s| s.as_str()) {
            Some("glob") => child_glob(),
            _ => child_run(),
        }
        return;
    }
    let args = Args::parse();
    if let Some(rp) = &args.replay {
        replay_main(&args, rp);
        return;
    }
    // `--probe FILE [--mask M]`: run one source file by hand (debugging aid)
    if let Some(p) = args.extra.iter().position(|a| a == "--probe") {
        let src = std::fs::read_to_string(&args.extra[p + 1]).unwrap();
        let masks: Vec<u8> = match args.extra.iter().position(|a| a == "--mask") {
            Some(q) => args.extra[q + 1].split(',').map(|m| m.parse().unwrap()).collect(),
            None => vec![0],
        };
        let case = Case { origin: "probe".into(), name: "probe".into(), src, masks, modules: vec![], has_io: false, gen: None, expr: None, acc: None };
        let r = run_parallel("run", vec![case.input()], 1, 1, Duration::from_secs(300));
        println!("{:?}", r[0]);
        let mut out = Out::new(&args.out);
        let v = judge(&case, &r[0], &mut out);
        for f in &v.fails {
            println!("FAILURE {}: {}", f.fp, f.what);
        }
        return;
    }
    let mut out = Out::new(&args.out);
    let thorough = args.thorough();
    let (mut n_gen, mut n_scen) = if thorough { (4000, 400) } else { (300, 40) };
    // experiments only: `C02_N=<generated programs>` overrides the size of the run
    if let Some(n) = std::env::var("C02_N").ok().and_then(|x| x.parse::<usize>().ok()) {
        n_gen = n;
        n_scen = (n / 8).max(1);
    }
    // thorough: all 32 masks on every 4th program, mask 0 + 7 other masks (one on a rota, the
    // rest sampled) otherwise — all 32 on every program does not fit 20 minutes on a busy machine
    let all32_every = 4;
    out.add("plan:all-32-masks-every-nth-program", if thorough { all32_every as u64 } else { 0 });
    let mut cases: Vec<Case> = vec![];

    // ---- corpus first
    let dir = std::path::Path::new("/verif/corpus/C02");
    if let Ok(rd) = std::fs::read_dir(dir) {
        let mut files: Vec<_> = rd.filter_map(|e| e.ok()).map(|e| e.path()).filter(|p| p.extension().map_or(false, |x| x == "glu")).collect();
        files.sort();
        for (i, p) in files.iter().enumerate() {
            let src = std::fs::read_to_string(p).unwrap();
            let src_masks = src.clone();
            cases.push(Case {
                origin: format!("corpus:{}", p.file_name().unwrap().to_string_lossy()),
                name: format!("c{}", i),
                src,
                masks: if thorough { (0..32).collect() } else { corpus_masks(&src_masks) },
                modules: vec![],
                has_io: false,
                gen: None,
                expr: None,
                acc: None,
            });
        }
    }

    // ---- generated programs and their mutants
    let mut rng = gv::rng::Rng::new(args.seed, 2);
    let mut mrng = gv::rng::Rng::new(args.seed, 202);
    let mut krng = gv::rng::Rng::new(args.seed, 2002);
    let mut pi = 0usize;
    for i in 0..n_gen {
        let (e, t) = {
            let mut g = Gen::new(&mut rng);
            g.program(2 + (i % 4) as u32)
        };
        let src = surf::program_text(&e);
        let masks = masks_for(pi, &mut krng, thorough, all32_every);
        cases.push(Case {
            origin: "generated".into(),
            name: format!("p{}", pi),
            src,
            masks,
            modules: vec![],
            has_io: false,
            gen: Some((e.clone(), t)),
            expr: Some(e.clone()),
            acc: None,
        });
        pi += 1;
        let n_mut = if thorough { 2 } else { 1 + (i % 2) };
        for _ in 0..n_mut {
            if let Some((m, kind)) = mutate::mutate(&e, &mut mrng) {
                let src = surf::program_text(&m);
                let masks = masks_for(pi, &mut krng, thorough, all32_every);
                cases.push(Case {
                    origin: format!("mutant:{}", kind),
                    name: format!("p{}", pi),
                    src,
                    masks,
                    modules: vec![],
                    has_io: false,
                    gen: None,
                    expr: Some(m),
                    acc: None,
                });
                pi += 1;
            } else {
                out.count("mutant:none-found");
            }
        }
    }

    // ---- multi-module scenarios
    let mut srng = gv::rng::Rng::new(args.seed, 20002);
    for i in 0..n_scen {
        let masks = masks_for(i * 7 + 3, &mut krng, thorough, all32_every);
        cases.push(gen_scenario(&mut srng, i, masks));
    }

    // ---- the enumerated family "generalisation under a binder" (c02/genbind.rs): all members in
    // the thorough tier, one in `stride` (chosen by a hash of index and seed) in the quick tier
    let fam = genbind::family();
    let stride = if thorough { 1 } else { std::env::var("C02_GENBIND_STRIDE").ok().and_then(|x| x.parse().ok()).unwrap_or(10usize) };
    out.add("plan:genbind-family-size", fam.len() as u64);
    out.add("plan:genbind-stride", stride as u64);
    for (i, m) in fam.into_iter().enumerate() {
        // pseudo-random selection (not a regular stride: the enumeration order is a product of
        // small loops, a regular stride would always skip the same combinations)
        let h = (i as u64 ^ args.seed.wrapping_mul(0x9E3779B97F4A7C15)).wrapping_mul(0xD1B54A32D192ED03);
        if (h >> 33) % stride as u64 != 0 {
            continue;
        }
        let src = surf::program_text(&m.expr);
        let second = 1 + ((i / stride) % 31) as u8;
        cases.push(Case {
            origin: format!("genbind:{}", m.shape),
            name: format!("gb{}", i),
            src,
            masks: vec![0, second],
            modules: vec![],
            has_io: false,
            gen: None,
            expr: Some(m.expr),
            acc: if m.in_model {
                Some((m.expanded, m.typed))
            } else {
                out.count("genbind:outside-model:pattern-bound-lambda-literal-used-polymorphically");
                None
            },
        });
    }

    let inputs: Vec<String> = cases.iter().map(|c| c.input()).collect();
    let (chunk, workers) = if thorough { (200, 8) } else { (100, 6) };
    let results = run_parallel("run", inputs, chunk, workers, Duration::from_secs(if thorough { 3000 } else { 600 }));
    for (idx, (case, res)) in cases.iter().zip(results.iter()).enumerate() {
        let v = judge(case, res, &mut out);
        record(case, &v, &mut out, idx);
    }

    // ---- the module layer
    glob_cases(&mut out, thorough);
    out.finish();
}
