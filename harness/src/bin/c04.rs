//! C04 — optimisation never changes what a program does.
#[path = "c04/coreser.rs"]
mod coreser;

use gluon::vm::api::{Hole, OpaqueValue};
use gluon::vm::core;
use gluon::vm::ExternModule;
use gluon::query::{AsyncCompilation, CompilationBase};
use gluon::{primitive, record, RootedThread, Thread, ThreadExt};
use gluon_base::fnv::FnvSet;
use gluon_base::symbol::SymbolRef;
use gv::surf;
use std::sync::Mutex;

static LOG: Mutex<Vec<i64>> = Mutex::new(Vec::new());

fn vlog(x: i64) -> i64 {
    LOG.lock().unwrap().push(x);
    x
}

fn verif_module(thread: &Thread) -> gluon::vm::Result<ExternModule> {
    ExternModule::new(thread, record! { vlog => primitive!(1, vlog) })
}

fn new_vm() -> RootedThread {
    let vm = gv::vm::new_vm();
    gluon::import::add_extern_module(&vm, "verif.h", verif_module);
    vm
}

type AnyVal = OpaqueValue<RootedThread, Hole>;

/// Run `src` as module `name` with the optimiser on/off; outcome + call log.
fn run(vm: &Thread, name: &str, src: &str, optimize: bool) -> (String, Vec<i64>) {
    gv::vm::settings(vm, false, optimize);
    LOG.lock().unwrap().clear();
    let r = gv::catch(|| vm.run_expr::<AnyVal>(name, src));
    let o = match r {
        Err(p) => format!("panic {}", gv::quote(&p.chars().take(80).collect::<String>())),
        Ok(Ok((v, _t))) => format!("(ok {})", surf::canon_value(v.get_variant())),
        Ok(Err(e)) => surf::classify_error(&format!("{}", e)),
    };
    let log = LOG.lock().unwrap().clone();
    (o, log)
}

struct CoreDump {
    input: String,
    used: Vec<String>,
    dce: String,
    opt: String,
}

fn core_dump(vm: &Thread, name: &str, src: &str) -> Result<CoreDump, String> {
    gv::vm::settings(vm, false, false);
    {
        let mut db = vm.get_database_mut();
        db.add_module(name.to_string(), src);
    }
    let mut db = vm.get_database();
    let g = futures::executor::block_on(db.core_expr(name.to_string(), None)).map_err(|e| format!("{}", e))?;
    let e = g.value.expr();
    let mut names = coreser::Names::default();
    let input = coreser::expr(e, &mut names);
    names.freeze();
    // dead_code.rs on the unoptimised expression
    let allocator = std::sync::Arc::new(core::Allocator::new());
    let mut dep = core::dead_code::DepGraph::default();
    let used: FnvSet<&SymbolRef> = dep.used_bindings(e);
    let mut used_names: Vec<String> = used
        .iter()
        .filter_map(|s| names.lookup(s))
        .collect();
    used_names.sort();
    used_names.dedup();
    let d = core::dead_code::dead_code_elimination(&used, &allocator, e);
    let dce = coreser::expr(d, &mut names);
    names.freeze();
    let env = gluon_base::ast::EmptyEnv::<gluon_base::symbol::Symbol>::default();
    let o = core::optimize::optimize(&allocator, &env, e);
    let opt = coreser::expr(o.value.expr(), &mut names);
    Ok(CoreDump { input, used: used_names, dce, opt })
}

fn probe(path: &str) {
    let src = std::fs::read_to_string(path).unwrap();
    let vm = new_vm();
    match core_dump(&vm, "probe_core", &src) {
        Ok(d) => {
            println!("INPUT {}", d.input);
            println!("USED  {}", d.used.join(" "));
            println!("DCE   {}", d.dce);
            println!("OPT   {}", d.opt);
        }
        Err(e) => println!("core error: {}", e),
    }
    gv::capture_panics();
    let vm = new_vm();
    let a = run(&vm, "probe_a", &src, false);
    println!("panic location: {:?}", gv::last_panic_location());
    let vm = new_vm();
    let b = run(&vm, "probe_b", &src, true);
    println!("noopt {:?}", a);
    println!("opt   {:?}", b);
}


// ---------------------------------------------------------------------------------------------
// Program construction

/// Extra top-level definitions every C04 program gets after `surf::HEADER`: the logging extern
/// reached directly, through record fields, through closures and through an imported module.
const HEADER2: &str = "let h = import! \"verif.h\"\nlet { vlog } = h\nlet vm = import! vmod\nlet vr = { f = vlog, g = \\x -> error \"boom\", k = 7, n = { f = h.vlog } }\nlet vpa = \\a b -> vlog (a #Int+ b)\nlet vcl = \\x -> (let _ = vlog x in x)\n";

const VMOD: &str = "let h = import! \"verif.h\"\nlet { error } = import! std.prim\n{ tick = \\x -> h.vlog x, boom = \\x -> error \"mboom\", twice = \\f x -> f (f x), quiet = \\x -> x #Int+ 1 }\n";

use surf::{b, Expr, Pat, Src};

fn var(x: &str) -> Expr {
    Expr::Var(x.to_string())
}
fn app(f: Expr, args: Vec<Expr>) -> Expr {
    Expr::App(b(f), args)
}
fn proj(e: Expr, f: &str) -> Expr {
    Expr::Proj(b(e), f.to_string(), 0)
}
fn record(fields: Vec<(&str, Expr)>) -> Expr {
    let layout = (0..fields.len()).map(Src::Field).collect();
    Expr::Record { fields: fields.into_iter().map(|(n, e)| (n.to_string(), e)).collect(), base: None, layout }
}
fn prim(op: &'static str, a: Expr, bb: Expr) -> Expr {
    Expr::Prim(op, b(a), b(bb))
}

pub const N_FORMS: usize = 24;

/// The discarded expression of form `form` (an effectful / failing / pure computation whose
/// result the program throws away) and a pattern that fits it.  `k` tags the call in the log.
fn discard_form(form: usize, k: i64) -> (&'static str, Pat, Expr) {
    let kk = Expr::Int(k);
    let w = Pat::Wild;
    match form {
        0 => ("direct", w, app(var("vlog"), vec![kk])),
        1 => ("field", w, app(proj(var("vr"), "f"), vec![kk])),
        2 => ("nested-field", w, app(proj(proj(var("vr"), "n"), "f"), vec![kk])),
        3 => ("field-failing", w, app(proj(var("vr"), "g"), vec![kk])),
        4 => ("module-field", w, app(proj(var("vm"), "tick"), vec![kk])),
        5 => ("module-failing", w, app(proj(var("vm"), "boom"), vec![kk])),
        6 => ("partial", w, app(app(var("vpa"), vec![kk]), vec![Expr::Int(1)])),
        7 => (
            "partial-named",
            w,
            Expr::Let(Pat::Var("pa".into()), b(app(var("vpa"), vec![kk])), b(app(var("pa"), vec![Expr::Int(2)]))),
        ),
        8 => ("closure", w, app(var("vcl"), vec![kk])),
        9 => ("lambda", w, app(Expr::Lam(vec!["lx".into()], b(app(var("vlog"), vec![var("lx")]))), vec![kk])),
        10 => ("arith-div0", w, prim("/", kk, Expr::Int(0))),
        11 => ("arith-overflow", w, prim("+", Expr::Int(i64::MAX), prim("+", kk, Expr::Int(1)))),
        12 => (
            "if-callee",
            w,
            app(Expr::If(b(Expr::True), b(proj(var("vr"), "f")), b(var("vlog"))), vec![kk]),
        ),
        13 => (
            "match-callee",
            w,
            Expr::Match(
                b(var("vr")),
                vec![(Pat::Rec(vec![("f".into(), 0, Pat::Var("mf".into()))]), app(var("mf"), vec![kk]))],
            ),
        ),
        14 => ("builtin-arg", w, prim("+", app(var("vlog"), vec![kk]), Expr::Int(1))),
        15 => (
            "tuple-pattern",
            Pat::Tup(vec![Pat::Var("ta".into()), Pat::Wild]),
            Expr::Tuple(vec![app(var("vlog"), vec![kk]), Expr::Int(2)]),
        ),
        16 => (
            "record-pattern",
            Pat::Rec(vec![("ra".into(), 0, Pat::Var("ra".into()))]),
            record(vec![("ra", app(proj(var("vr"), "f"), vec![kk])), ("rb", Expr::Int(3))]),
        ),
        17 => (
            "literal-proj",
            w,
            proj(record(vec![("x", app(var("vlog"), vec![kk])), ("y", Expr::Int(2))]), "y"),
        ),
        18 => ("array", w, Expr::Array(vec![app(proj(var("vm"), "tick"), vec![kk])])),
        19 => ("pure-proj", w, proj(var("vr"), "k")),
        20 => (
            "twice",
            w,
            app(proj(var("vm"), "twice"), vec![proj(var("vr"), "f"), kk]),
        ),
        21 => ("named-unused", Pat::Var("unused".into()), app(proj(var("vr"), "f"), vec![kk])),
        22 => (
            "literal-proj-effect-dropped-field",
            w,
            proj(
                record(vec![
                    ("x", app(proj(var("vm"), "tick"), vec![kk.clone()])),
                    ("y", prim("/", kk, Expr::Int(0))),
                    ("z", Expr::Int(1)),
                ]),
                "z",
            ),
        ),
        _ => ("pure-module-call", w, app(proj(var("vm"), "quiet"), vec![kk])),
    }
}

fn discard(form: usize, k: i64, body: Expr) -> (&'static str, Expr) {
    let (name, p, d) = discard_form(form, k);
    (name, Expr::Let(p, b(d), b(body)))
}

pub const N_CTX: usize = 10;

/// A small program exercising one discard form in one context.
fn targeted(form: usize, ctx: usize) -> (String, Expr) {
    let (fname, inner) = discard(form, 100 + form as i64, Expr::Int(1));
    let (cname, e) = match ctx {
        0 => ("top", inner),
        1 => (
            "closure-called",
            Expr::Let(
                Pat::Var("cf".into()),
                b(Expr::Lam(vec!["cy".into()], b(prim("+", inner, var("cy"))))),
                b(app(var("cf"), vec![Expr::Int(2)])),
            ),
        ),
        2 => (
            "closure-uncalled",
            Expr::Let(
                Pat::Var("cf".into()),
                b(Expr::Lam(vec!["cy".into()], b(prim("+", inner, var("cy"))))),
                b(Expr::Int(3)),
            ),
        ),
        3 => (
            "rec-fun",
            Expr::LetRec(
                vec![(
                    "rf".into(),
                    vec!["rn".into()],
                    Expr::If(
                        b(prim("<", var("rn"), Expr::Int(1))),
                        b(Expr::Int(0)),
                        b(prim("+", inner, app(var("rf"), vec![prim("-", var("rn"), Expr::Int(1))]))),
                    ),
                )],
                b(app(var("rf"), vec![Expr::Int(2)])),
            ),
        ),
        4 => (
            "match-arm",
            Expr::Match(
                b(app(Expr::Ctor { ty: 0, tag: 0 }, vec![Expr::Int(1)])),
                vec![
                    (Pat::Ctor { ty: 0, tag: 0, args: vec![Pat::Var("mq".into())] }, prim("+", inner, var("mq"))),
                    (Pat::Wild, Expr::Int(0)),
                ],
            ),
        ),
        5 => ("record-field", proj(record(vec![("fa", inner), ("fb", Expr::Int(2))]), "fa")),
        6 => ("let-rhs-used", Expr::Let(Pat::Var("lz".into()), b(inner), b(var("lz")))),
        7 => ("let-rhs-unused", Expr::Let(Pat::Var("lz".into()), b(inner), b(Expr::Int(5)))),
        8 => ("if-branch", Expr::If(b(prim("<", Expr::Int(1), Expr::Int(2))), b(inner), b(Expr::Int(9)))),
        _ => (
            "unused-tuple-component",
            Expr::Let(
                Pat::Tup(vec![Pat::Wild, Pat::Var("tb".into())]),
                b(Expr::Tuple(vec![inner, Expr::Int(4)])),
                b(var("tb")),
            ),
        ),
    };
    (format!("{}@{}", fname, cname), e)
}

struct Inst<'a> {
    rng: &'a mut gv::rng::Rng,
    k: i64,
    forms: std::collections::BTreeSet<&'static str>,
    p_discard: u64,
}

impl<'a> Inst<'a> {
    fn maybe_discard(&mut self, e: Expr) -> Expr {
        if self.rng.chance(self.p_discard, 100) {
            self.k += 1;
            // failing forms are rarer: they end the program
            let mut form = self.rng.below(N_FORMS as u64) as usize;
            if (form == 3 || form == 5) && !self.rng.chance(1, 4) {
                form = 1;
            }
            let (n, e2) = discard(form, 1000 + self.k, e);
            self.forms.insert(n);
            e2
        } else {
            e
        }
    }
    /// Insert logging calls at Int positions and discarded computations in front of bodies.
    fn go(&mut self, e: Expr) -> Expr {
        let bx = |s: &mut Self, e: Box<Expr>| b(s.go(*e));
        match e {
            Expr::Int(n) => {
                if self.rng.chance(1, 7) {
                    self.forms.insert("vlog-int");
                    app(var("vlog"), vec![Expr::Int(n)])
                } else {
                    Expr::Int(n)
                }
            }
            Expr::Lam(xs, body) => {
                // a `let` between two lambdas changes how the type checker generalises the
                // inner one (programs outside the fragment): only discard in front of a non-lambda
                let inner_lam = matches!(*body, Expr::Lam(..));
                let body = self.go(*body);
                Expr::Lam(xs, b(if inner_lam { body } else { self.maybe_discard(body) }))
            }
            Expr::App(f, args) => {
                let f = bx(self, f);
                Expr::App(f, args.into_iter().map(|a| self.go(a)).collect())
            }
            Expr::Let(p, e1, e2) => {
                let e1 = bx(self, e1);
                let e2 = self.go(*e2);
                Expr::Let(p, e1, b(self.maybe_discard(e2)))
            }
            Expr::LetFun(f, xs, e1, e2) => {
                let e1 = self.go(*e1);
                let e1 = self.maybe_discard(e1);
                let e2 = bx(self, e2);
                Expr::LetFun(f, xs, b(e1), e2)
            }
            Expr::LetRec(bs, body) => {
                let bs = bs
                    .into_iter()
                    .map(|(f, xs, e)| {
                        let e = self.go(e);
                        // only function bodies (a recursive *value* must stay a constructor application)
                        let e = if xs.is_empty() { e } else { self.maybe_discard(e) };
                        (f, xs, e)
                    })
                    .collect();
                Expr::LetRec(bs, bx(self, body))
            }
            Expr::If(c, a, bb) => {
                let c = bx(self, c);
                let a = self.go(*a);
                let a = self.maybe_discard(a);
                Expr::If(c, b(a), bx(self, bb))
            }
            Expr::Prim(op, a, bb) => {
                let a = bx(self, a);
                let bb = bx(self, bb);
                let e = Expr::Prim(op, a, bb);
                if matches!(op, "+" | "-" | "*" | "/") && self.rng.chance(1, 8) {
                    self.forms.insert("vlog-arith");
                    app(var("vlog"), vec![e])
                } else {
                    e
                }
            }
            Expr::And(a, bb) => Expr::And(bx(self, a), bx(self, bb)),
            Expr::Or(a, bb) => Expr::Or(bx(self, a), bx(self, bb)),
            Expr::Match(s, alts) => {
                let s = bx(self, s);
                let alts = alts
                    .into_iter()
                    .map(|(p, e)| {
                        let e = self.go(e);
                        (p, self.maybe_discard(e))
                    })
                    .collect();
                Expr::Match(s, alts)
            }
            Expr::Record { fields, base, layout } => Expr::Record {
                fields: fields.into_iter().map(|(n, e)| (n, self.go(e))).collect(),
                base: base.map(|x| bx(self, x)),
                layout,
            },
            Expr::Proj(e, f, i) => Expr::Proj(bx(self, e), f, i),
            Expr::Tuple(es) => Expr::Tuple(es.into_iter().map(|a| self.go(a)).collect()),
            Expr::Array(es) => Expr::Array(es.into_iter().map(|a| self.go(a)).collect()),
            other => other,
        }
    }
}

fn full_text(e: &Expr) -> String {
    let t = surf::program_text(e);
    match t.strip_prefix(surf::HEADER) {
        Some(rest) => format!("{}{}{}", surf::HEADER, HEADER2, rest),
        None => format!("{}{}", HEADER2, t),
    }
}

// ---------------------------------------------------------------------------------------------
// Child: runs one program both ways and dumps its core IR

fn setup_vm(optimize: bool) -> RootedThread {
    let vm = new_vm();
    gv::vm::settings(&vm, false, optimize);
    {
        let mut db = vm.get_database_mut();
        db.add_module("vmod".to_string(), VMOD);
    }
    vm
}

fn run_on(vm: &Thread, name: &str, src: &str) -> (String, Vec<i64>) {
    LOG.lock().unwrap().clear();
    let r = gv::catch(|| vm.run_expr::<AnyVal>(name, src));
    let o = match r {
        Err(p) => format!("panic {}", gv::quote(&normalize(&p))),
        Ok(Ok((v, _t))) => format!("(ok {})", surf::canon_value(v.get_variant())),
        Ok(Err(e)) => surf::classify_error(&format!("{}", e)),
    };
    let log = LOG.lock().unwrap().clone();
    (o, log)
}

/// Make a panic message usable as a stable fingerprint (the scheme of the C01 harness):
/// addresses and numbers are replaced.
fn normalize(msg: &str) -> String {
    let mut out = String::new();
    let cs: Vec<char> = msg.chars().collect();
    let mut i = 0;
    while i < cs.len() {
        if cs[i] == '0' && i + 1 < cs.len() && cs[i + 1] == 'x' {
            i += 2;
            while i < cs.len() && cs[i].is_ascii_hexdigit() {
                i += 1;
            }
            out.push_str("ADDR");
        } else if cs[i].is_ascii_digit() {
            while i < cs.len() && cs[i].is_ascii_digit() {
                i += 1;
            }
            out.push('#');
        } else {
            out.push(cs[i]);
            i += 1;
        }
    }
    out.chars().take(90).collect()
}

/// The stable part of a (normalised) panic message: messages that embed generated variable or
/// type-variable names are cut down to their fixed head.
fn panic_site(m: &str) -> String {
    for head in ["Undefined variable", "Expected record, got"] {
        if m.starts_with(head) {
            return head.to_string();
        }
    }
    m.to_string()
}

fn child() {
    let vm_a = setup_vm(false);
    let vm_b = setup_vm(true);
    let mut i = 0;
    gv::child::serve(|src| {
        i += 1;
        let (oa, la) = run_on(&vm_a, &format!("a{}", i), src);
        let (ob, lb) = run_on(&vm_b, &format!("b{}", i), src);
        let core = if oa.starts_with("err:static") || oa.starts_with("panic") {
            serde_json::json!({"error": "not compiled"})
        } else {
            match gv::catch(|| core_dump(&vm_a, &format!("c{}", i), src)) {
                Ok(Ok(d)) => serde_json::json!({"input": d.input, "used": d.used, "dce": d.dce, "opt": d.opt}),
                Ok(Err(e)) => serde_json::json!({"error": e.lines().next().unwrap_or("")}),
                Err(p) => serde_json::json!({"error": format!("panic {}", p)}),
            }
        };
        serde_json::json!({"oa": oa, "la": la, "ob": ob, "lb": lb, "core": core}).to_string()
    });
}

// ---------------------------------------------------------------------------------------------
// The property oracle, written from the property statement

fn class_of(o: &str) -> String {
    o.split(' ').next().unwrap_or("").trim_matches(|c| c == '(' || c == ')').to_string()
}

/// `None` when the optimised run is allowed by the property; otherwise what differs.
fn allowed(oa: &str, la: &[i64], ob: &str, lb: &[i64]) -> Option<String> {
    if oa == ob && la == lb {
        return None;
    }
    // the only permitted difference: an unused builtin arithmetic operation was skipped, so the
    // unoptimised run stopped with its overflow / division by zero and the optimised one went on
    if oa == "err:arith" && lb.len() >= la.len() && lb[..la.len()] == *la {
        return None;
    }
    let kind = if la != lb {
        if lb.len() < la.len() && la[..lb.len()] == *lb {
            "lost-calls"
        } else if la.len() < lb.len() && lb[..la.len()] == *la {
            "extra-calls"
        } else {
            "different-calls"
        }
    } else {
        "outcome"
    };
    Some(format!("{}:{}->{}", kind, class_of(oa), class_of(ob)))
}

struct Prog {
    label: String,
    src: String,
    constructs: Vec<String>,
    targeted: bool,
}

fn judge(out: &mut gv::Out, p: &Prog, res: &Result<String, String>, idx: usize) {
    let v: serde_json::Value = match res {
        Ok(r) => serde_json::from_str(r).unwrap_or(serde_json::json!({"oa": "abort bad-json"})),
        Err(class) => {
            out.count("outcome:abort");
            out.oracle_fail(
                &format!("abort:{}", class),
                &format!("a generated program made the pipeline abort: {}", class),
                serde_json::json!({"source": p.src, "label": p.label}),
            );
            return;
        }
    };
    let oa = v["oa"].as_str().unwrap_or("").to_string();
    let ob = v["ob"].as_str().unwrap_or("").to_string();
    let la: Vec<i64> = v["la"].as_array().map(|a| a.iter().filter_map(|x| x.as_i64()).collect()).unwrap_or_default();
    let lb: Vec<i64> = v["lb"].as_array().map(|a| a.iter().filter_map(|x| x.as_i64()).collect()).unwrap_or_default();
    let ca = class_of(&oa);
    let cb = class_of(&ob);
    out.count(&format!("outcome:{}", ca));
    if ca == "err:static" && cb == "err:static" {
        out.count("skipped:static-error");
        out.count(&format!("reject:{}", oa));
        if std::env::var("C04_DUMP").is_ok() {
            eprintln!("=== {}\n{}", oa, p.src);
        }
        return;
    }
    if ca == "panic" || cb == "panic" {
        // internal failure of the compiler pipeline (the class of findings C01 lists); the
        // fingerprint names the failing site and whether only one of the two paths fails
        let msg = |o: &str| serde_json::from_str::<String>(o.trim_start_matches("panic ")).unwrap_or_else(|_| o.to_string());
        let (m, side) = if ca == "panic" && cb == "panic" {
            (msg(&oa), "")
        } else if ca == "panic" {
            (msg(&oa), ":only-unoptimised")
        } else {
            (msg(&ob), ":only-optimised")
        };
        out.oracle_fail(
            &format!("panic:{}{}", panic_site(&m), side),
            &format!(
                "a generated program made the pipeline fail internally: optimize=false gives {}, optimize=true gives {}",
                oa, ob
            ),
            serde_json::json!({"source": p.src, "label": p.label}),
        );
        return;
    }
    match allowed(&oa, &la, &ob, &lb) {
        None => {
            if oa != ob || la != lb {
                out.count("allowed-difference:arith-skipped");
            }
        }
        Some(diff) => {
            let fp = if p.targeted { format!("opt-changes-behaviour:{}:{}", p.label, diff) } else { format!("opt-changes-behaviour:{}", diff) };
            out.oracle_fail(
                &fp,
                &format!(
                    "optimised and unoptimised runs differ ({}): optimize=false gives {} with calls {:?}; optimize=true gives {} with calls {:?}",
                    diff, oa, la, ob, lb
                ),
                serde_json::json!({"source": p.src, "label": p.label}),
            );
        }
    }
    out.count(&format!("log-len:{}", match la.len() { 0 => "0", 1..=3 => "1-3", 4..=15 => "4-15", _ => "16+" }));
    for c in &p.constructs {
        out.count(&format!("construct:{}", c));
    }
    if p.constructs.len() >= 2 {
        let mut key = p.constructs.clone();
        key.push(ca.clone());
        key.push(cb);
        key.push(format!("log{}", la.len().min(6)));
        out.class(key.join(","));
    }
    // structural correspondence on the core IR
    let core = &v["core"];
    if let Some(input) = core["input"].as_str() {
        let used: Vec<String> = core["used"].as_array().map(|a| a.iter().filter_map(|x| x.as_str().map(|s| s.to_string())).collect()).unwrap_or_default();
        let mut u = String::from("(used");
        for n in &used {
            u.push(' ');
            u.push_str(n);
        }
        u.push(')');
        let payload = format!(
            "{} (dce {}) (opt {}) (kept true true) (closed true true)",
            u,
            core["dce"].as_str().unwrap_or(""),
            core["opt"].as_str().unwrap_or("")
        );
        if core["dce"].as_str() != Some(input) {
            out.count("core:dce-changed");
        }
        if core["opt"].as_str().map_or(false, |o| o.contains("dummy%")) {
            out.count("core:unnecessary-alloc-dummy");
        }
        out.count(&format!("core:size:{}", match input.len() { 0..=999 => "<1k", 1000..=4999 => "1k-5k", _ => "5k+" }));
        out.case(&format!("opt {}", input), &payload);
    } else {
        out.count("skipped:no-core");
    }
    if idx % 61 == 7 {
        out.sample(serde_json::json!({"label": p.label, "source": p.src, "noopt": [oa, la], "opt": [ob, lb]}));
    }
}

/// Like `gv::child::batch`, but stdin is fed from its own thread: the answers of this harness
/// (core dumps) are large, so a child can fill its stdout pipe before it has read all its input.
fn batch(inputs: &[String], chunk: usize, timeout: std::time::Duration) -> Vec<Result<String, String>> {
    use std::io::{Read, Write};
    use std::process::{Command, Stdio};
    let mut results: Vec<Result<String, String>> = Vec::with_capacity(inputs.len());
    let mut start = 0;
    while start < inputs.len() {
        let end = (start + chunk).min(inputs.len());
        let mut payload = String::new();
        for i in &inputs[start..end] {
            payload.push_str(&serde_json::to_string(i).unwrap());
            payload.push('\n');
        }
        let exe = std::env::current_exe().unwrap();
        let mut ch = Command::new(exe)
            .arg("--child")
            .stdin(Stdio::piped())
            .stdout(Stdio::piped())
            .stderr(Stdio::null())
            .spawn()
            .expect("spawn child");
        let mut si = ch.stdin.take().unwrap();
        let mut so = ch.stdout.take().unwrap();
        let t_in = std::thread::spawn(move || {
            let _ = si.write_all(payload.as_bytes());
        });
        let t_out = std::thread::spawn(move || {
            let mut s = Vec::new();
            let _ = so.read_to_end(&mut s);
            String::from_utf8_lossy(&s).into_owned()
        });
        let t0 = std::time::Instant::now();
        let class: Option<String> = loop {
            match ch.try_wait().unwrap() {
                Some(st) => {
                    use std::os::unix::process::ExitStatusExt;
                    break if let Some(sig) = st.signal() {
                        Some(format!("signal:{}", sig))
                    } else if st.code() == Some(0) {
                        None
                    } else {
                        Some(format!("exit:{}", st.code().unwrap_or(-1)))
                    };
                }
                None => {
                    if t0.elapsed() > timeout {
                        let _ = ch.kill();
                        let _ = ch.wait();
                        break Some("timeout".to_string());
                    }
                    std::thread::sleep(std::time::Duration::from_millis(2));
                }
            }
        };
        let out = t_out.join().unwrap();
        let _ = t_in.join();
        let mut n = 0;
        for line in out.lines() {
            if let Some(rest) = line.strip_prefix("R ") {
                if start + n < end {
                    results.push(Ok(serde_json::from_str::<String>(rest).unwrap_or_else(|_| rest.to_string())));
                    n += 1;
                }
            }
        }
        if start + n < end {
            results.push(Err(class.unwrap_or_else(|| "exit:incomplete".to_string())));
            n += 1;
        }
        start += n;
    }
    results
}

fn main() {
    gv::quiet_panics();
    let a: Vec<String> = std::env::args().collect();
    if a.get(1).map(|s| s.as_str()) == Some("--probe") {
        probe(&a[2]);
        return;
    }
    if a.get(1).map(|s| s.as_str()) == Some("--child") {
        child();
        return;
    }
    let args = gv::Args::parse();
    let mut out = gv::Out::new(&args.out);
    if let Some(rp) = &args.replay {
        let v: serde_json::Value = serde_json::from_str(&std::fs::read_to_string(rp).unwrap()).unwrap();
        let src = v["case"]["source"].as_str().unwrap().to_string();
        println!("{}", src);
        let r = batch(&[src], 1, std::time::Duration::from_secs(120));
        println!("=> {:?}", r[0]);
        out.finish();
        return;
    }
    let mut progs: Vec<Prog> = vec![];
    // corpus: minimised past failures first
    if let Ok(rd) = std::fs::read_dir("/verif/corpus/C04") {
        let mut files: Vec<_> = rd.filter_map(|e| e.ok()).map(|e| e.path()).filter(|p| p.extension().map_or(false, |x| x == "glu")).collect();
        files.sort();
        for f in files {
            let src = std::fs::read_to_string(&f).unwrap();
            progs.push(Prog {
                label: format!("corpus:{}", f.file_stem().unwrap().to_string_lossy()),
                src,
                constructs: vec!["corpus".into(), "x".into()],
                targeted: true,
            });
        }
    }
    // targeted stream: every discard form in every context
    for form in 0..N_FORMS {
        for ctx in 0..N_CTX {
            let (label, e) = targeted(form, ctx);
            let parts: Vec<String> = label.split('@').map(|s| s.to_string()).collect();
            progs.push(Prog { label, src: full_text(&e), constructs: parts, targeted: true });
        }
    }
    // random stream: gv::surf programs with logging calls and discarded computations inserted
    let n = if args.thorough() { 6000 } else { 320 };
    let mut rng = gv::rng::Rng::new(args.seed, 4);
    for i in 0..n {
        let depth = 2 + (i % 4) as u32;
        let e = {
            let mut g = surf::Gen::new(&mut rng);
            g.program(depth).0
        };
        let mut inst = Inst { rng: &mut rng, k: 0, forms: Default::default(), p_discard: 18 + (i % 3) as u64 * 10 };
        let e2 = inst.go(e);
        let e2 = inst.maybe_discard(e2);
        let mut cs: Vec<String> = surf::constructs(&e2).iter().map(|s| s.to_string()).collect();
        cs.extend(inst.forms.iter().map(|s| format!("d:{}", s)));
        progs.push(Prog { label: format!("random:{}", i), src: full_text(&e2), constructs: cs, targeted: false });
    }
    let inputs: Vec<String> = progs.iter().map(|p| p.src.clone()).collect();
    let results = batch(&inputs, 60, std::time::Duration::from_secs(600));
    for (i, (p, r)) in progs.iter().zip(results.iter()).enumerate() {
        judge(&mut out, p, r, i);
    }
    out.finish();
}
