//! C04 — optimisation never changes what a program does.
#[path = "c04/coreser.rs"]
mod coreser;

use gluon::vm::api::{Hole, OpaqueValue};
use gluon::vm::core;
use gluon::vm::ExternModule;
use gluon::query::{AsyncCompilation, CompilationBase};
use gluon::{primitive, record, RootedThread, Thread, ThreadExt};
use gluon_base::fnv::FnvSet;
use gluon_base::symbol::SymbolRef;
use gv::surf;
use std::sync::Mutex;

static LOG: Mutex<Vec<i64>> = Mutex::new(Vec::new());

fn vlog(x: i64) -> i64 {
    LOG.lock().unwrap().push(x);
    x
}

fn verif_module(thread: &Thread) -> gluon::vm::Result<ExternModule> {
    ExternModule::new(thread, record! { vlog => primitive!(1, vlog) })
}

fn new_vm() -> RootedThread {
    let vm = gv::vm::new_vm();
    gluon::import::add_extern_module(&vm, "verif.h", verif_module);
    vm
}

type AnyVal = OpaqueValue<RootedThread, Hole>;

/// Run `src` as module `name` with the optimiser on/off; outcome + call log.
fn run(vm: &Thread, name: &str, src: &str, optimize: bool) -> (String, Vec<i64>) {
    gv::vm::settings(vm, false, optimize);
    LOG.lock().unwrap().clear();
    let r = gv::catch(|| vm.run_expr::<AnyVal>(name, src));
    let o = match r {
        Err(p) => format!("panic {}", gv::quote(&p.chars().take(80).collect::<String>())),
        Ok(Ok((v, _t))) => format!("(ok {})", surf::canon_value(v.get_variant())),
        Ok(Err(e)) => surf::classify_error(&format!("{}", e)),
    };
    let log = LOG.lock().unwrap().clone();
    (o, log)
}

struct CoreDump {
    input: String,
    used: Vec<String>,
    dce: String,
    opt: String,
}

fn core_dump(vm: &Thread, name: &str, src: &str) -> Result<CoreDump, String> {
    gv::vm::settings(vm, false, false);
    {
        let mut db = vm.get_database_mut();
        db.add_module(name.to_string(), src);
    }
    let mut db = vm.get_database();
    let g = futures::executor::block_on(db.core_expr(name.to_string(), None)).map_err(|e| format!("{}", e))?;
    let e = g.value.expr();
    let mut names = coreser::Names::default();
    let input = coreser::expr(e, &mut names);
    names.freeze();
    // dead_code.rs on the unoptimised expression
    let allocator = std::sync::Arc::new(core::Allocator::new());
    let mut dep = core::dead_code::DepGraph::default();
    let used: FnvSet<&SymbolRef> = dep.used_bindings(e);
    let mut used_names: Vec<String> = used
        .iter()
        .filter_map(|s| names.lookup(s))
        .collect();
    used_names.sort();
    used_names.dedup();
    let d = core::dead_code::dead_code_elimination(&used, &allocator, e);
    let dce = coreser::expr(d, &mut names);
    names.freeze();
    let env = gluon_base::ast::EmptyEnv::<gluon_base::symbol::Symbol>::default();
    let o = core::optimize::optimize(&allocator, &env, e);
    let opt = coreser::expr(o.value.expr(), &mut names);
    Ok(CoreDump { input, used: used_names, dce, opt })
}

fn probe(path: &str) {
    let src = std::fs::read_to_string(path).unwrap();
    let vm = new_vm();
    match core_dump(&vm, "probe_core", &src) {
        Ok(d) => {
            println!("INPUT {}", d.input);
            println!("USED  {}", d.used.join(" "));
            println!("DCE   {}", d.dce);
            println!("OPT   {}", d.opt);
        }
        Err(e) => println!("core error: {}", e),
    }
    let vm = new_vm();
    let a = run(&vm, "probe_a", &src, false);
    let vm = new_vm();
    let b = run(&vm, "probe_b", &src, true);
    println!("noopt {:?}", a);
    println!("opt   {:?}", b);
}

fn main() {
    gv::quiet_panics();
    let a: Vec<String> = std::env::args().collect();
    if a.get(1).map(|s| s.as_str()) == Some("--probe") {
        probe(&a[2]);
        return;
    }
}
