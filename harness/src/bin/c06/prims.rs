//! Part 1: the primitive sweep.
use crate::sys;
use gluon::vm::api::{Hole, OpaqueValue, ValueRef};
use gluon::vm::Variants;
use gluon::{Thread, ThreadExt};
use gluon_base::types::{arg_iter, remove_forall, ArcType};
use gv::{quote, Args, Out};
use std::collections::BTreeMap;
use std::io::Read;
use std::time::Duration;

#[derive(serde_derive::Deserialize, Clone, Debug)]
pub struct Entry {
    pub module: String,
    pub field: String,
    pub name: String,
    pub arity: usize,
    pub path: String,
    pub kind: String,
    pub file: String,
}

pub fn table() -> Vec<Entry> {
    serde_json::from_str(include_str!("prim_table.json")).expect("prim_table.json")
}

#[derive(Clone, Debug, PartialEq)]
pub enum Kind {
    Int,
    Byte,
    Float,
    Str,
    Char,
    Unit,
    ArrInt,
    ArrByte,
    /// a value that only another primitive can make (file, regex, string buffer, …)
    Special(String),
}

#[derive(Clone, Debug, PartialEq)]
pub enum Arg {
    I(i64),
    B(u8),
    F(u64),
    S(String),
    C(char),
    U,
    AI(Vec<i64>),
    AB(Vec<u8>),
    /// provider expression (Gluon text) + protocol tag
    X(&'static str, &'static str),
}

impl Arg {
    pub fn text(&self) -> String {
        match self {
            Arg::I(n) => {
                if *n == i64::MIN {
                    "(-0x8000000000000000)".into()
                } else if *n < 0 {
                    format!("({})", n)
                } else {
                    format!("{}", n)
                }
            }
            Arg::B(b) => format!("{}b", b),
            Arg::F(bits) => {
                let f = f64::from_bits(*bits);
                if f.is_nan() {
                    "flt.nan".into()
                } else if f == f64::INFINITY {
                    "flt.infinity".into()
                } else if f == f64::NEG_INFINITY {
                    "flt.neg_infinity".into()
                } else if f == f64::MAX {
                    "flt.max_".into()
                } else if f == f64::MIN_POSITIVE {
                    "flt.min_positive".into()
                } else if f.is_sign_negative() {
                    format!("({:?})", f)
                } else {
                    format!("{:?}", f)
                }
            }
            Arg::S(s) => {
                let mut o = String::from("\"");
                for c in s.chars() {
                    match c {
                        '"' => o.push_str("\\\""),
                        '\\' => o.push_str("\\\\"),
                        '\n' => o.push_str("\\n"),
                        '\t' => o.push_str("\\t"),
                        '\r' => o.push_str("\\r"),
                        c => o.push(c),
                    }
                }
                o.push('"');
                o
            }
            Arg::C(c) => match c {
                '\'' => "'\\''".into(),
                '\\' => "'\\\\'".into(),
                '\n' => "'\\n'".into(),
                '\t' => "'\\t'".into(),
                c => format!("'{}'", c),
            },
            Arg::U => "()".into(),
            Arg::AI(v) => format!(
                "[{}]",
                v.iter().map(|n| Arg::I(*n).text()).collect::<Vec<_>>().join(", ")
            ),
            Arg::AB(v) => format!(
                "[{}]",
                v.iter().map(|n| format!("{}b", n)).collect::<Vec<_>>().join(", ")
            ),
            Arg::X(e, _) => format!("({})", e),
        }
    }
    pub fn sexp(&self) -> String {
        match self {
            Arg::I(n) => format!("(i {})", n),
            Arg::B(b) => format!("(b {})", b),
            Arg::F(b) => format!("(f {})", b),
            Arg::S(s) => format!("(s {})", quote(s)),
            Arg::C(c) => format!("(c {})", *c as u32),
            Arg::U => "(u)".into(),
            Arg::AI(v) => format!(
                "(ai{})",
                v.iter().map(|n| format!(" {}", n)).collect::<String>()
            ),
            Arg::AB(v) => format!(
                "(ab{})",
                v.iter().map(|n| format!(" {}", n)).collect::<String>()
            ),
            Arg::X(_, tag) => format!("(x {})", tag),
        }
    }
}

const I_CORE: &[i64] = &[0, 1, -1, i64::MIN, i64::MAX, 64, 99];
const I_EXT: &[i64] = &[
    2, 3, 7, 8, 9, 10, 16, 36, 37, 63, 65, 100, 255, 256, -2, -63, -64, -65,
    4294967295, 4294967296, 4294967298, 4294967306, 4294967332, 4294967333,
    3037000499, 3037000500, -3037000500, 2147483648, 55296, 57343, 1114111, 1114112,
    i64::MIN + 1, i64::MAX - 1, 4611686018427387904, -4611686018427387904,
];
const B_CORE: &[u8] = &[0, 1, 2, 7, 8, 9, 15, 16, 17, 127, 128, 200, 255];
const S_ALL: &[&str] = &[
    "", "abc", "a\u{e9}", "\u{e9}a", "\u{65e5}\u{672c}", "x\u{1f600}y", "12", "-9223372036854775808",
    "9223372036854775808", "zz", " a b ", "\u{e9}", "+7", "ff", "1.5", "a+", "(", "/", "/tmp/../x.y",
    "a\nb", "255", "256",
];
const C_ALL: &[char] = &['a', '9', 'z', 'Z', ' ', '\u{e9}', '\u{65e5}', '\u{1f600}', '\u{df}', '\'', '\n', '\u{10ffff}', '\u{7f}', '\u{80}', '\u{7ff}', '\u{800}', '\u{ffff}', '\u{10000}'];

fn floats() -> Vec<u64> {
    [
        0.0f64, -0.0, 1.0, -1.0, 0.5, 2.5, -2.5, 10000000000.0, 9300000000000000000.0,
        -9300000000000000000.0, f64::NAN, f64::INFINITY, f64::NEG_INFINITY, f64::MAX,
        f64::MIN_POSITIVE, 1e-7, 3.0,
    ]
    .iter()
    .map(|f| f.to_bits())
    .collect()
}

/// Index-like Int values for a primitive that also takes a string / array: positions inside, at
/// and past the end, inside a code point, negative.
const I_INDEX: &[i64] = &[0, 1, 2, 3, 4, 5, 6, 7, 8, -1, i64::MIN, i64::MAX, 99];

fn values(kind: &Kind, indexy: bool, core_only: bool) -> Vec<Arg> {
    match kind {
        Kind::Int => {
            if indexy {
                I_INDEX.iter().map(|n| Arg::I(*n)).collect()
            } else if core_only {
                I_CORE.iter().map(|n| Arg::I(*n)).collect()
            } else {
                I_CORE.iter().chain(I_EXT.iter()).map(|n| Arg::I(*n)).collect()
            }
        }
        Kind::Byte => B_CORE.iter().map(|n| Arg::B(*n)).collect(),
        Kind::Float => floats().into_iter().map(Arg::F).collect(),
        Kind::Str => {
            let n = if core_only { 8 } else { S_ALL.len() };
            S_ALL[..n].iter().map(|s| Arg::S(s.to_string())).collect()
        }
        Kind::Char => {
            let n = if core_only { 8 } else { C_ALL.len() };
            C_ALL[..n].iter().map(|c| Arg::C(*c)).collect()
        }
        Kind::Unit => vec![Arg::U],
        Kind::ArrInt => vec![
            Arg::AI(vec![]),
            Arg::AI(vec![7]),
            Arg::AI(vec![1, 2, 3]),
            Arg::AI(vec![i64::MIN, 0, i64::MAX, -1, 5]),
        ],
        Kind::ArrByte => vec![
            Arg::AB(vec![]),
            Arg::AB(vec![97, 98, 99]),
            Arg::AB(vec![0xc3, 0xa9]),
            Arg::AB(vec![0xff, 0xfe]),
            Arg::AB(vec![0xe6, 0x97]),
            Arg::AB(vec![1, 2, 3, 4, 5, 6, 7, 8, 9, 10, 11, 12, 13, 14, 15, 16]),
            Arg::AB(vec![0xed, 0xa0, 0x80]),
        ],
        Kind::Special(t) => specials(t),
    }
}

/// Provider expressions for arguments that only other primitives can construct.
fn specials(t: &str) -> Vec<Arg> {
    if t.starts_with("std.effect.st.string.StringBuf") || t.starts_with("StringBuf") {
        vec![
            Arg::X("let b = sbuf.new () in let _ = sbuf.push_str b \"a\u{e9}b\" in b", "sb:a\u{e9}b"),
            Arg::X("sbuf.new ()", "sb:"),
        ]
    } else if t.contains("Regex") {
        vec![Arg::X(
            "match rgx.new \"(a+)(b)?\" with | Ok r -> r | Err _ -> (import! std.prim).error \"regex\"",
            "regex",
        )]
    } else if t.contains("XorShiftRng") {
        vec![Arg::X(
            "rnd.xor_shift_new [1b, 2b, 3b, 4b, 5b, 6b, 7b, 8b, 9b, 10b, 11b, 12b, 13b, 14b, 15b, 16b]",
            "rng",
        )]
    } else {
        vec![]
    }
}

pub fn kind_of(t: &ArcType) -> Kind {
    let s = t.to_string();
    match s.as_str() {
        "Int" => Kind::Int,
        "Byte" => Kind::Byte,
        "Float" => Kind::Float,
        "String" => Kind::Str,
        "Char" => Kind::Char,
        "()" => Kind::Unit,
        "Array Byte" => Kind::ArrByte,
        _ => {
            if s.starts_with("Array ") && s.len() == 7 {
                Kind::ArrInt
            } else if s.len() == 1 && s.chars().all(|c| c.is_ascii_lowercase()) {
                Kind::Int
            } else {
                Kind::Special(s)
            }
        }
    }
}

/// Which primitives have their *values* (not only the outcome class) computed by the Lean model.
pub fn value_modelled(name: &str) -> bool {
    let (module, field) = name.split_at(name.rfind('.').unwrap());
    let field = &field[1..];
    match module {
        "std.int.prim" => !matches!(field, "from_float"),
        "std.byte.prim" => true,
        "std.array.prim" => true,
        "std.char.prim" => matches!(field, "from_int" | "to_int" | "is_digit" | "to_digit" | "len_utf8" | "len_utf16"),
        "std.string.prim" => matches!(
            field,
            "len" | "is_empty" | "is_char_boundary" | "as_bytes" | "split_at" | "starts_with" | "ends_with"
                | "append" | "append_char" | "from_char" | "slice" | "char_at" | "contains" | "find" | "rfind"
                | "from_utf8"
        ),
        "std.prim" => matches!(field, "show_int" | "show_byte" | "string_eq" | "string_compare" | "discriminant_value"),
        "std.effect.st.string.prim" => matches!(field, "len" | "slice" | "pop" | "push_str"),
        _ => false,
    }
}

/// Modules whose outcome *class* the Lean model predicts (ok / err / abort).
pub fn class_modelled(name: &str) -> bool {
    let module = &name[..name.rfind('.').unwrap()];
    matches!(
        module,
        "std.int.prim" | "std.byte.prim" | "std.float.prim" | "std.array.prim" | "std.char.prim" | "std.string.prim"
            | "std.prim" | "std.effect.st.string.prim"
    ) || matches!(name, "std.random.prim.gen_int_range" | "std.random.prim.xor_shift_new")
}

pub struct Case {
    pub entry: usize,
    pub args: Vec<Arg>,
    pub program: String,
}

pub fn program(e: &Entry, args: &[Arg]) -> String {
    let mut p = String::new();
    p.push_str(&format!("let m = import! {}\n", e.module));
    p.push_str("let flt = import! std.float.prim\n");
    if args.iter().any(|a| matches!(a, Arg::X(_, t) if t.starts_with("sb:"))) || e.module == "std.effect.st.string.prim" {
        p.push_str("let sbuf = import! std.effect.st.string.prim\n");
    }
    if args.iter().any(|a| matches!(a, Arg::X(_, "regex"))) {
        p.push_str("let rgx = import! std.regex.prim\n");
    }
    if args.iter().any(|a| matches!(a, Arg::X(_, "rng"))) {
        p.push_str("let rnd = import! std.random.prim\n");
    }
    p.push_str(&format!("m.{}", e.field));
    for a in args {
        p.push(' ');
        p.push_str(&a.text());
    }
    p.push('\n');
    p
}

/// Canonical rendering of a result value.
pub fn render(v: Variants, depth: u32) -> String {
    if depth > 6 {
        return "deep".into();
    }
    match v.as_ref() {
        ValueRef::Int(i) => format!("(i {})", i),
        ValueRef::Byte(b) => format!("(b {})", b),
        ValueRef::Float(f) => format!("(f {})", f.to_bits()),
        ValueRef::String(s) => format!("(s {})", quote(s)),
        ValueRef::Data(d) => {
            let mut o = format!("(d {}", d.tag());
            for f in d.iter() {
                o.push(' ');
                o.push_str(&render(f, depth + 1));
            }
            o.push(')');
            o
        }
        ValueRef::Array(a) => {
            let mut o = String::from("(a");
            for f in a.iter() {
                o.push(' ');
                o.push_str(&render(f, depth + 1));
            }
            o.push(')');
            o
        }
        ValueRef::Userdata(_) => "userdata".into(),
        ValueRef::Thread(_) => "thread".into(),
        ValueRef::Closure(_) => "closure".into(),
        ValueRef::Internal => "internal".into(),
    }
}

pub fn error_class(e: &gluon::Error) -> &'static str {
    match e {
        gluon::Error::VM(_) => "err",
        gluon::Error::Parse(_) | gluon::Error::Typecheck(_) | gluon::Error::Macro(_) | gluon::Error::Other(_) => "compile-error",
        gluon::Error::IO(_) => "err",
        gluon::Error::Multiple(es) => {
            if es.iter().all(|e| error_class(e) == "err") {
                "err"
            } else {
                "compile-error"
            }
        }
    }
}

fn first_line(s: &str) -> String {
    let l = s.lines().next().unwrap_or("");
    let mut t: String = l.chars().take(160).collect();
    t = t.replace('\t', " ");
    t
}

pub fn eval_line(vm: &Thread, src: &str) -> String {
    match vm.run_expr::<OpaqueValue<&Thread, Hole>>("c06", src) {
        Ok((v, _)) => format!("ok\t{}", render(v.get_variant(), 0)),
        Err(e) => format!("{}\t{}", error_class(&e), first_line(&e.to_string())),
    }
}

pub fn warm_vm() -> gluon::RootedThread {
    let vm = gv::vm::new_vm();
    {
        let mut db = vm.get_database_mut();
        db.set_implicit_prelude(true);
        db.run_io(true);
    }
    vm
}

/// `--child prims`: stdin = one case per line `idx \t program` (newlines as \x01); every case runs in a fork.
pub fn child_main() {
    gv::quiet_panics();
    let mut input = String::new();
    std::io::stdin().read_to_string(&mut input).unwrap();
    let vm = warm_vm();
    // load every module once so the forked children only compile the call
    let mods: std::collections::BTreeSet<String> = table().into_iter().map(|e| e.module).collect();
    for m in mods {
        let _ = vm.run_expr::<OpaqueValue<&Thread, Hole>>("warm", &format!("let _ = import! {}\n()", m));
    }
    for line in input.lines() {
        let (idx, prog) = match line.split_once('\t') {
            Some(x) => x,
            None => continue,
        };
        let prog = prog.replace('\x01', "\n");
        let st = sys::in_fork(10, || format!("{}\t{}\n", idx, eval_line(&vm, &prog)));
        match st {
            sys::Forked::Done => {}
            sys::Forked::Exit(c) => println!("{}\texit:{}\t", idx, c),
            sys::Forked::Signal(14) => println!("{}\ttimeout\t", idx),
            sys::Forked::Signal(s) => println!("{}\tsignal:{}\t", idx, s),
        }
    }
}

/// Run programs isolated; returns per program (class, detail).
pub fn run_isolated(programs: &[String]) -> Vec<(String, String)> {
    let mut res: Vec<Option<(String, String)>> = vec![None; programs.len()];
    let mut start = 0;
    let mut rounds = 0;
    while start < programs.len() && rounds < 50 {
        rounds += 1;
        let mut input = String::new();
        for (i, p) in programs.iter().enumerate().skip(start) {
            input.push_str(&format!("{}\t{}\n", i, p.replace('\n', "\x01")));
        }
        let ex = gv::child::run(&["--child", "prims"], input.as_bytes(), Duration::from_secs(3600));
        let outp = match &ex {
            gv::child::Exit::Ok(o) => o.clone(),
            gv::child::Exit::Code(_, o, _) | gv::child::Exit::Signal(_, o, _) => o.clone(),
            gv::child::Exit::Timeout(o) => o.clone(),
        };
        let mut last = start;
        for l in outp.lines() {
            let mut it = l.splitn(3, '\t');
            if let (Some(i), Some(c)) = (it.next(), it.next()) {
                if let Ok(i) = i.parse::<usize>() {
                    if i < res.len() {
                        res[i] = Some((c.to_string(), it.next().unwrap_or("").to_string()));
                        last = i + 1;
                    }
                }
            }
        }
        if let gv::child::Exit::Ok(_) = ex {
            break;
        }
        // the fork server itself died: should not happen; mark the case it was at and go on
        if last < res.len() && res[last].is_none() {
            res[last] = Some(("server-died".into(), ex.class()));
            last += 1;
        }
        start = last;
    }
    res.into_iter()
        .map(|r| r.unwrap_or(("not-run".into(), String::new())))
        .collect()
}

fn is_abort(class: &str) -> bool {
    class.starts_with("signal:") || class.starts_with("exit:") || class == "timeout" || class == "server-died"
}

pub fn run(args: &Args, out: &mut Out) {
    let tab = table();
    let vm = warm_vm();
    let mut rng = gv::rng::Rng::new(args.seed, 6);
    let per_prim = if args.thorough() { 400 } else { 40 };
    let mut cases: Vec<Case> = vec![];
    let mut sigs: BTreeMap<String, String> = BTreeMap::new();
    for (ei, e) in tab.iter().enumerate() {
        out.count(&format!("table:{}", e.module));
        if e.kind == "bytecode" {
            out.count("skipped:bytecode-entry");
            continue;
        }
        let src = format!("let m = import! {}\nm.{}", e.module, e.field);
        let typ = match vm.typecheck_str("sig", &src, None) {
            Ok((_, t)) => t,
            Err(err) => {
                eprintln!("cannot type {}: {}", e.name, err);
                std::process::exit(2);
            }
        };
        let typ = remove_forall(&typ).clone();
        let arg_types: Vec<ArcType> = arg_iter(&typ).cloned().collect();
        sigs.insert(e.name.clone(), typ.to_string());
        let kinds: Vec<Kind> = arg_types.iter().map(kind_of).collect();
        let has_container = kinds.iter().any(|k| matches!(k, Kind::Str | Kind::ArrInt | Kind::ArrByte | Kind::Special(_)));
        // IO primitives take their declared arity minus the hidden world argument
        let lists: Vec<Vec<Arg>> = kinds
            .iter()
            .map(|k| values(k, has_container && *k == Kind::Int, kinds.len() >= 3))
            .collect();
        if lists.iter().any(|l| l.is_empty()) {
            out.count("skipped:needs-host-object");
            out.count(&format!("skipped-prim:{}", e.name));
            continue;
        }
        let total: usize = lists.iter().map(|l| l.len()).product();
        let mut tuples: Vec<Vec<Arg>> = vec![];
        if total <= per_prim {
            let mut idx = vec![0usize; lists.len()];
            loop {
                tuples.push(idx.iter().enumerate().map(|(k, i)| lists[k][*i].clone()).collect());
                let mut k = 0;
                while k < idx.len() {
                    idx[k] += 1;
                    if idx[k] < lists[k].len() {
                        break;
                    }
                    idx[k] = 0;
                    k += 1;
                }
                if k == idx.len() {
                    break;
                }
            }
        } else {
            // the core grid first (first ≤7 values of every list), then seeded samples of the rest
            let core: Vec<usize> = lists.iter().map(|l| l.len().min(if lists.len() >= 3 { 4 } else { 7 })).collect();
            let mut idx = vec![0usize; lists.len()];
            loop {
                tuples.push(idx.iter().enumerate().map(|(k, i)| lists[k][*i].clone()).collect());
                let mut k = 0;
                while k < idx.len() {
                    idx[k] += 1;
                    if idx[k] < core[k] {
                        break;
                    }
                    idx[k] = 0;
                    k += 1;
                }
                if k == idx.len() {
                    break;
                }
            }
            let mut guard = 0;
            let target = per_prim.max(tuples.len() + 12);
            while tuples.len() < target && guard < 10 * per_prim {
                guard += 1;
                let t: Vec<Arg> = lists.iter().map(|l| rng.pick(l).clone()).collect();
                if !tuples.contains(&t) {
                    tuples.push(t);
                }
            }
        }
        for t in tuples {
            let program = program(e, &t);
            cases.push(Case { entry: ei, args: t, program });
        }
    }
    out.stats.insert("signatures".into(), serde_json::to_value(&sigs).unwrap());
    drop(vm);
    let programs: Vec<String> = cases.iter().map(|c| c.program.clone()).collect();
    let results = run_isolated(&programs);
    let mut compile_errors = 0;
    let mut aborting: BTreeMap<String, (String, String)> = BTreeMap::new();
    for (c, (class, detail)) in cases.iter().zip(results.iter()) {
        let e = &tab[c.entry];
        let argtxt = c.args.iter().map(|a| a.sexp()).collect::<Vec<_>>().join(" ");
        if class == "compile-error" || class == "not-run" {
            compile_errors += 1;
            eprintln!("HARNESS: {} for program:\n{}\n{}", class, c.program, detail);
            continue;
        }
        let cls = if is_abort(class) { "abort" } else { class.as_str() };
        out.count(&format!("outcome:{}", cls));
        out.count(&format!("calls:{}", e.module));
        out.class(format!("{}:{}", e.name, cls));
        if is_abort(class) {
            if !aborting.contains_key(&e.name) {
                aborting.insert(e.name.clone(), (c.program.clone(), class.clone()));
                out.oracle_fail(
                    &format!("abort:{}", e.name),
                    &format!(
                        "calling {} ({}, {}) from a script kills the host process ({}); first input: {}",
                        e.name, e.path, e.file, class, argtxt
                    ),
                    serde_json::json!({"kind": "prim", "name": e.name, "program": c.program, "args": argtxt}),
                );
            }
        }
        if class_modelled(&e.name) {
            let vm_flag = value_modelled(&e.name);
            let payload = match cls {
                "ok" => {
                    if vm_flag {
                        format!("(ok {})", detail)
                    } else {
                        "ok".to_string()
                    }
                }
                other => other.to_string(),
            };
            let req = format!("prim {} {} {}", quote(&e.name), if vm_flag { "v" } else { "c" }, argtxt);
            if out.n_cases % 397 == 3 {
                out.sample(serde_json::json!({"request": req, "impl": payload}));
            }
            out.case(&req, &payload);
        } else {
            out.count("oracle-only-calls");
        }
    }
    out.stats.insert("aborting_primitives".into(), (aborting.len() as u64).into());
    if compile_errors > 0 {
        eprintln!("{} generated programs did not compile / run", compile_errors);
        std::process::exit(2);
    }
}

pub fn replay(out: &mut Out, case: &serde_json::Value) {
    let prog = case["program"].as_str().unwrap_or("").to_string();
    let name = case["name"].as_str().unwrap_or("?");
    let r = run_isolated(&[prog.clone()]);
    println!("replay {}:\n{}=> {} {}", name, prog, r[0].0, r[0].1);
    if is_abort(&r[0].0) {
        out.oracle_fail(
            &format!("abort:{}", name),
            &format!("calling {} from a script kills the host process ({})", name, r[0].0),
            case.clone(),
        );
    }
}
