//! Part 1: the primitive sweep.
use crate::sys;
use gluon::vm::api::{Hole, OpaqueValue, ValueRef};
use gluon::vm::Variants;
use gluon::{Thread, ThreadExt};
use gluon_base::types::{arg_iter, remove_forall, ArcType};
use gv::{quote, Args, Out};
use std::collections::BTreeMap;
use std::io::Read;
use std::time::Duration;

#[derive(serde_derive::Deserialize, Clone, Debug)]
pub struct Entry {
    pub module: String,
    pub field: String,
    pub name: String,
    pub arity: usize,
    pub path: String,
    pub kind: String,
    pub file: String,
}

pub fn table() -> Vec<Entry> {
    serde_json::from_str(include_str!("prim_table.json")).expect("prim_table.json")
}

#[derive(Clone, Debug, PartialEq)]
pub enum Kind {
    Int,
    Byte,
    Float,
    Str,
    Char,
    Unit,
    ArrInt,
    ArrByte,
    /// a value that only another primitive can make (file, regex, string buffer, …)
    Special(String),
}

#[derive(Clone, Debug, PartialEq)]
pub enum Arg {
    I(i64),
    B(u8),
    F(u64),
    S(String),
    C(char),
    U,
    AI(Vec<i64>),
    AB(Vec<u8>),
    /// provider expression (Gluon text) + protocol tag
    X(&'static str, &'static str),
}

impl Arg {
    pub fn text(&self) -> String {
        match self {
            Arg::I(n) => {
                if *n == i64::MIN {
                    "(-0x8000000000000000)".into()
                } else if *n < 0 {
                    format!("({})", n)
                } else {
                    format!("{}", n)
                }
            }
            Arg::B(b) => format!("{}b", b),
            Arg::F(bits) => {
                let f = f64::from_bits(*bits);
                if f.is_nan() {
                    "flt.nan".into()
                } else if f == f64::INFINITY {
                    "flt.infinity".into()
                } else if f == f64::NEG_INFINITY {
                    "flt.neg_infinity".into()
                } else if f == f64::MAX {
                    "flt.max_".into()
                } else if f == f64::MIN_POSITIVE {
                    "flt.min_positive".into()
                } else {
                    let mut t = format!("{:?}", f.abs());
                    if t.contains('e') {
                        t = if f.abs() >= 1.0 { format!("{:.1}", f.abs()) } else { format!("{:.12}", f.abs()) };
                    }
                    if f.is_sign_negative() {
                        format!("(-{})", t)
                    } else {
                        t
                    }
                }
            }
            Arg::S(s) => {
                let mut o = String::from("\"");
                for c in s.chars() {
                    match c {
                        '"' => o.push_str("\\\""),
                        '\\' => o.push_str("\\\\"),
                        '\n' => o.push_str("\\n"),
                        '\t' => o.push_str("\\t"),
                        '\r' => o.push_str("\\r"),
                        c => o.push(c),
                    }
                }
                o.push('"');
                o
            }
            Arg::C(c) => match c {
                '\'' => "'\\''".into(),
                '\\' => "'\\\\'".into(),
                '\n' => "'\\n'".into(),
                '\t' => "'\\t'".into(),
                // non-ASCII char literals lex since /repo dc01a7c (they panicked the tokenizer before: D13)
                c => format!("'{}'", c),
            },
            Arg::U => "()".into(),
            Arg::AI(v) => format!(
                "[{}]",
                v.iter().map(|n| Arg::I(*n).text()).collect::<Vec<_>>().join(", ")
            ),
            Arg::AB(v) => format!(
                "[{}]",
                v.iter().map(|n| format!("{}b", n)).collect::<Vec<_>>().join(", ")
            ),
            Arg::X(e, _) => e.to_string(),
        }
    }
    pub fn sexp(&self) -> String {
        match self {
            Arg::I(n) => format!("(i {})", n),
            Arg::B(b) => format!("(b {})", b),
            Arg::F(b) => format!("(f {})", b),
            Arg::S(s) => format!("(s {})", quote(s)),
            Arg::C(c) => format!("(c {})", *c as u32),
            Arg::U => "(u)".into(),
            Arg::AI(v) => format!(
                "(ai{})",
                v.iter().map(|n| format!(" {}", n)).collect::<String>()
            ),
            Arg::AB(v) => format!(
                "(ab{})",
                v.iter().map(|n| format!(" {}", n)).collect::<String>()
            ),
            Arg::X(_, tag) => format!("(x {})", tag),
        }
    }
}

const I_CORE: &[i64] = &[0, 1, -1, i64::MIN, i64::MAX, 64, 99];
const I_EXT: &[i64] = &[
    2, 3, 7, 8, 9, 10, 16, 36, 37, 63, 65, 100, 255, 256, -2, -63, -64, -65,
    4294967295, 4294967296, 4294967298, 4294967306, 4294967332, 4294967333,
    3037000499, 3037000500, -3037000500, 2147483648, 55296, 57343, 1114111, 1114112,
    i64::MIN + 1, i64::MAX - 1, 4611686018427387904, -4611686018427387904,
];
const B_CORE: &[u8] = &[0, 1, 2, 7, 8, 9, 15, 16, 17, 127, 128, 200, 255];
const S_ALL: &[&str] = &[
    "", "abc", "a\u{e9}", "\u{e9}a", "\u{65e5}\u{672c}", "x\u{1f600}y", "12", "-9223372036854775808",
    "9223372036854775808", "zz", " a b ", "\u{e9}", "+7", "ff", "1.5", "a+", "(", "/", "/tmp/../x.y",
    "a\nb", "255", "256",
];
const C_ALL: &[char] = &['a', '9', 'z', 'Z', ' ', '\u{e9}', '\u{65e5}', '\u{1f600}', '\u{df}', '\'', '\n', '\u{10ffff}', '\u{7f}', '\u{80}', '\u{7ff}', '\u{800}', '\u{ffff}', '\u{10000}'];

fn floats() -> Vec<u64> {
    [
        0.0f64, -0.0, 1.0, -1.0, 0.5, 2.5, -2.5, 10000000000.0, 9300000000000000000.0,
        -9300000000000000000.0, f64::NAN, f64::INFINITY, f64::NEG_INFINITY, f64::MAX,
        f64::MIN_POSITIVE, 1e-7, 3.0,
    ]
    .iter()
    .map(|f| f.to_bits())
    .collect()
}

/// Index-like Int values for a primitive that also takes a string / array: positions inside, at
/// and past the end, inside a code point, negative.
const I_INDEX: &[i64] = &[0, 1, 2, 3, -1, i64::MAX, 4, 5, 6, 7, 8, i64::MIN, 99];

fn values(kind: &Kind, indexy: bool, core_only: bool) -> Vec<Arg> {
    match kind {
        Kind::Int => {
            if indexy {
                I_INDEX.iter().map(|n| Arg::I(*n)).collect()
            } else if core_only {
                I_CORE.iter().map(|n| Arg::I(*n)).collect()
            } else {
                I_CORE.iter().chain(I_EXT.iter()).map(|n| Arg::I(*n)).collect()
            }
        }
        Kind::Byte => B_CORE.iter().map(|n| Arg::B(*n)).collect(),
        Kind::Float => floats().into_iter().map(Arg::F).collect(),
        Kind::Str => {
            let n = if core_only { 8 } else { S_ALL.len() };
            S_ALL[..n].iter().map(|s| Arg::S(s.to_string())).collect()
        }
        Kind::Char => {
            let n = if core_only { 8 } else { C_ALL.len() };
            C_ALL[..n].iter().map(|c| Arg::C(*c)).collect()
        }
        Kind::Unit => vec![Arg::U],
        Kind::ArrInt => vec![
            Arg::AI(vec![]),
            Arg::AI(vec![7]),
            Arg::AI(vec![1, 2, 3]),
            Arg::AI(vec![i64::MIN, 0, i64::MAX, -1, 5]),
        ],
        Kind::ArrByte => vec![
            Arg::AB(vec![]),
            Arg::AB(vec![97, 98, 99]),
            Arg::AB(vec![0xc3, 0xa9]),
            Arg::AB(vec![0xff, 0xfe]),
            Arg::AB(vec![0xe6, 0x97]),
            Arg::AB(vec![1, 2, 3, 4, 5, 6, 7, 8, 9, 10, 11, 12, 13, 14, 15, 16]),
            Arg::AB(vec![0xed, 0xa0, 0x80]),
        ],
        Kind::Special(t) => specials(t),
    }
}

/// Provider variables (bound by set-up lines of `program`) for arguments that only other
/// primitives can construct.
fn specials(t: &str) -> Vec<Arg> {
    if t.contains("StringBuf") {
        vec![Arg::X("sb1", "sb:a\u{e9}b"), Arg::X("sb0", "sb:")]
    } else if t.contains("Regex") {
        vec![Arg::X("rx1", "regex")]
    } else if t.contains("XorShiftRng") {
        vec![Arg::X("rng1", "rng")]
    } else {
        vec![]
    }
}

pub fn kind_of(t: &ArcType) -> Kind {
    let s = t.to_string();
    match s.as_str() {
        "Int" => Kind::Int,
        "Byte" => Kind::Byte,
        "Float" => Kind::Float,
        "String" => Kind::Str,
        "Char" => Kind::Char,
        "()" => Kind::Unit,
        "Array Byte" => Kind::ArrByte,
        _ => {
            if s.starts_with("Array ") && s.len() == 7 {
                Kind::ArrInt
            } else if s.len() == 1 && s.chars().all(|c| c.is_ascii_lowercase()) {
                Kind::Int
            } else {
                Kind::Special(s)
            }
        }
    }
}

/// Which primitives have their *values* (not only the outcome class) computed by the Lean model.
pub fn value_modelled(name: &str) -> bool {
    let (module, field) = name.split_at(name.rfind('.').unwrap());
    let field = &field[1..];
    match module {
        "std.int.prim" => !matches!(field, "from_float"),
        "std.byte.prim" => true,
        "std.array.prim" => true,
        "std.char.prim" => matches!(field, "from_int" | "to_int" | "is_digit" | "to_digit" | "len_utf8" | "len_utf16"),
        "std.string.prim" => matches!(
            field,
            "len" | "is_empty" | "is_char_boundary" | "as_bytes" | "split_at" | "starts_with" | "ends_with"
                | "append" | "append_char" | "from_char" | "slice" | "char_at" | "contains" | "find" | "rfind"
                | "from_utf8"
        ),
        "std.prim" => matches!(field, "show_int" | "show_byte" | "string_eq" | "string_compare" | "discriminant_value"),
        "std.effect.st.string.prim" => matches!(field, "len" | "slice" | "pop" | "push_str"),
        _ => false,
    }
}

/// Modules whose outcome *class* the Lean model predicts (ok / err / abort).
pub fn class_modelled(name: &str) -> bool {
    let module = &name[..name.rfind('.').unwrap()];
    matches!(
        module,
        "std.int.prim" | "std.byte.prim" | "std.float.prim" | "std.array.prim" | "std.char.prim" | "std.string.prim"
            | "std.prim" | "std.effect.st.string.prim"
    ) || matches!(name, "std.random.prim.gen_int_range" | "std.random.prim.xor_shift_new")
}

pub fn program(e: &Entry, args: &[Arg], wrap: bool) -> String {
    let mut p = String::new();
    p.push_str(&format!("let m = import! {}\n", e.module));
    let txt: String = args.iter().map(|a| a.text()).collect::<Vec<_>>().join(" ");
    if txt.contains("flt.") {
        p.push_str("let flt = import! std.float.prim\n");
    }
    if txt.contains("strp.") {
        p.push_str("let strp = import! std.string.prim\n");
    }
    let has = |t: &str| args.iter().any(|a| matches!(a, Arg::X(v, _) if *v == t));
    if has("sb1") || has("sb0") {
        p.push_str("let sbuf = import! std.effect.st.string.prim\n");
        p.push_str("let sb0 = sbuf.new ()\n");
        p.push_str("let sb1 = sbuf.new ()\nlet _ = sbuf.push_str sb1 \"a\u{e9}b\"\n");
    }
    if has("rx1") {
        p.push_str("let { Result } = import! std.types\nlet rgx = import! std.regex.prim\n");
        p.push_str("let rx1 =\n    match rgx.new \"(a+)(b)?\" with\n    | Ok r -> r\n    | Err _ -> (import! std.prim).error \"regex\"\n");
    }
    if has("rng1") {
        p.push_str("let rnd = import! std.random.prim\n");
        p.push_str("let rng1 = rnd.xor_shift_new [1b, 2b, 3b, 4b, 5b, 6b, 7b, 8b, 9b, 10b, 11b, 12b, 13b, 14b, 15b, 16b]\n");
    }
    let mut call = format!("m.{}", e.field);
    for a in args {
        call.push(' ');
        call.push_str(&a.text());
    }
    if wrap {
        p.push_str(&format!("let r = {}\n{{ r }}\n", call));
    } else {
        p.push_str(&call);
        p.push('\n');
    }
    p
}

/// Canonical rendering of a result value.
pub fn render(v: Variants, depth: u32) -> String {
    if depth > 6 {
        return "deep".into();
    }
    match v.as_ref() {
        ValueRef::Int(i) => format!("(i {})", i),
        ValueRef::Byte(b) => format!("(b {})", b),
        ValueRef::Float(f) => format!("(f {})", f.to_bits()),
        ValueRef::String(s) => format!("(s {})", quote(s)),
        ValueRef::Data(d) => {
            let mut o = format!("(d {}", d.tag());
            for f in d.iter() {
                o.push(' ');
                o.push_str(&render(f, depth + 1));
            }
            o.push(')');
            o
        }
        ValueRef::Array(a) => {
            let mut o = String::from("(a");
            for f in a.iter() {
                o.push(' ');
                o.push_str(&render(f, depth + 1));
            }
            o.push(')');
            o
        }
        ValueRef::Userdata(_) => "userdata".into(),
        ValueRef::Thread(_) => "thread".into(),
        ValueRef::Closure(_) => "closure".into(),
        ValueRef::Internal => "internal".into(),
    }
}

pub fn error_class(e: &gluon::Error) -> &'static str {
    match e {
        gluon::Error::VM(_) => "err",
        gluon::Error::Parse(_) | gluon::Error::Typecheck(_) | gluon::Error::Macro(_) | gluon::Error::Other(_) => "compile-error",
        gluon::Error::IO(_) => "err",
        gluon::Error::Multiple(es) => {
            if es.iter().all(|e| error_class(e) == "err") {
                "err"
            } else {
                "compile-error"
            }
        }
    }
}

fn first_line(s: &str) -> String {
    let l = s.lines().next().unwrap_or("");
    let mut t: String = l.chars().take(160).collect();
    t = t.replace('\t', " ");
    t
}

macro_rules! tlog {
    ($($a:tt)*) => {
        if let Ok(p) = std::env::var("C06_TIMING") {
            use std::io::Write;
            if let Ok(mut f) = std::fs::OpenOptions::new().create(true).append(true).open(p) {
                let _ = writeln!(f, $($a)*);
            }
        }
    };
}

static LAST_PANIC: std::sync::Mutex<String> = std::sync::Mutex::new(String::new());

pub fn install_panic_hook() {
    std::panic::set_hook(Box::new(|info| {
        let loc = info
            .location()
            .map(|l| format!("{}:{}", l.file().trim_start_matches("/repo/"), l.line()))
            .unwrap_or_default();
        if std::env::var("C06_SHOW_PANICS").is_ok() {
            eprintln!("panic at {}: {}", loc, info);
        }
        if let Ok(mut g) = LAST_PANIC.lock() {
            *g = loc;
        }
    }));
}

/// Evaluate one program; `unwrap` = the program wrapped its result as `{ r = … }`.
pub fn eval_line(vm: &Thread, src: &str, unwrap: bool) -> String {
    let r = gv::catch(|| match vm.run_expr::<OpaqueValue<&Thread, Hole>>("c06", src) {
        Ok((v, _)) => {
            let v = v.get_variant();
            let shown = if unwrap {
                match v.as_ref() {
                    ValueRef::Data(d) => d.get_variant(0).map(|x| render(x, 0)).unwrap_or("?".into()),
                    _ => render(v, 0),
                }
            } else {
                render(v, 0)
            };
            format!("ok\t{}", shown)
        }
        Err(e) => format!("{}\t{}", error_class(&e), first_line(&e.to_string())),
    });
    match r {
        Ok(l) => l,
        Err(msg) => {
            let loc = LAST_PANIC.lock().map(|g| g.clone()).unwrap_or_default();
            format!("panic\t{} {}", loc, first_line(&msg))
        }
    }
}

pub fn warm_vm(prelude: bool) -> gluon::RootedThread {
    let vm = gv::vm::new_vm();
    {
        let mut db = vm.get_database_mut();
        db.set_implicit_prelude(prelude);
        db.run_io(true);
    }
    vm
}

pub fn needs_prelude(module: &str) -> bool {
    matches!(module, "std.path.prim" | "std.fs.prim" | "std.regex.prim" | "std.io.prim")
}

/// `--child prims`: stdin = one case per line `idx \t flags \t program` (newlines as \x01).
/// flags: P/N implicit prelude, W/R result wrapped in a record.  Cases run in forked workers; a
/// worker that dies is replaced and the case it was at is reported with the way it died.
pub fn child_main() {
    install_panic_hook();
    let mut input = String::new();
    std::io::stdin().read_to_string(&mut input).unwrap();
    let mut chan = sys::private_stdout();
    let lines: Vec<(String, String, String)> = input
        .lines()
        .filter_map(|l| {
            let mut it = l.splitn(3, '\t');
            Some((it.next()?.to_string(), it.next()?.to_string(), it.next()?.replace('\x01', "\n")))
        })
        .collect();
    for prelude in [false, true] {
        let idxs: Vec<usize> = (0..lines.len()).filter(|i| lines[*i].1.contains('P') == prelude).collect();
        if idxs.is_empty() {
            continue;
        }
        let t0 = std::time::Instant::now();
        let vm = warm_vm(prelude);
        // load the modules once so the workers only compile the call
        let mods: std::collections::BTreeSet<String> = table().into_iter().map(|e| e.module).collect();
        for m in mods {
            if prelude || !needs_prelude(&m) {
                let _ = vm.run_expr::<OpaqueValue<&Thread, Hole>>("warm", &format!("let _ = import! {}\n()", m));
            }
        }
        tlog!("[c06 child] prelude={} warm {:?} cases {}", prelude, t0.elapsed(), idxs.len());
        let mut k = 0usize;
        let mut forks = 0;
        while k < idxs.len() {
            forks += 1;
            if k + 1 >= idxs.len() {
                tlog!("[c06 child] prelude={} forks {} elapsed {:?}", prelude, forks, t0.elapsed());
            }
            let end = if lines[idxs[k]].1.contains('I') {
                k + 1
            } else {
                let mut e = k;
                while e < idxs.len() && e < k + 400 && !lines[idxs[e]].1.contains('I') {
                    e += 1;
                }
                e
            };
            let (st, last) = sys::worker(|progress| {
                for j in k..end {
                    progress(j as u32);
                    sys::set_alarm(10);
                    let (idx, flags, prog) = &lines[idxs[j]];
                    let l = if flags.contains('F') {
                        let fresh = warm_vm(flags.contains('P'));
                        eval_line(&fresh, prog, flags.contains('W'))
                    } else {
                        eval_line(&vm, prog, flags.contains('W'))
                    };
                    use std::io::Write;
                    let _ = chan.write_all(format!("{}\t{}\n", idx, l).as_bytes());
                }
                sys::set_alarm(0);
                progress(u32::MAX);
            });
            match (st, last) {
                (sys::Forked::Done, Some(u32::MAX)) => k = end,
                (st, Some(j)) if (j as usize) < end && j != u32::MAX => {
                    let idx = &lines[idxs[j as usize]].0;
                    use std::io::Write;
                    // A 10 s alarm on a loaded machine is not a hang: the case is run again, alone, with a
                    // 180 s budget; only a timeout that persists is reported (a genuine hang still is).
                    let mut st = st;
                    if st == sys::Forked::Signal(14) {
                        let jj = j as usize;
                        let (st2, last2) = sys::worker(|progress| {
                            progress(jj as u32);
                            sys::set_alarm(180);
                            let (idx, flags, prog) = &lines[idxs[jj]];
                            let l = if flags.contains('F') {
                                let fresh = warm_vm(flags.contains('P'));
                                eval_line(&fresh, prog, flags.contains('W'))
                            } else {
                                eval_line(&vm, prog, flags.contains('W'))
                            };
                            use std::io::Write;
                            let _ = chan.write_all(format!("{}\t{}\n", idx, l).as_bytes());
                            sys::set_alarm(0);
                            progress(u32::MAX);
                        });
                        if st2 == sys::Forked::Done && last2 == Some(u32::MAX) {
                            tlog!("[c06 child] case {} timed out at 10 s, finished alone (load)", idx);
                            k = jj + 1;
                            continue;
                        }
                        st = st2;
                    }
                    let l = match st {
                        sys::Forked::Signal(14) => format!("{}\ttimeout\t\n", idx),
                        sys::Forked::Signal(s) => format!("{}\tsignal:{}\t\n", idx, s),
                        sys::Forked::Exit(c) => format!("{}\texit:{}\t\n", idx, c),
                        sys::Forked::Done => format!("{}\texit:0\t\n", idx),
                    };
                    let _ = chan.write_all(l.as_bytes());
                    k = j as usize + 1;
                }
                _ => {
                    // worker died before its first case: give up on this batch
                    for j in k..end {
                        use std::io::Write;
                        let _ = chan.write_all(format!("{}\tserver-died\t\n", lines[idxs[j]].0).as_bytes());
                    }
                    k = end;
                }
            }
        }
    }
}

/// Run programs isolated; `flags[i]` as in `child_main`. Returns per program (class, detail).
pub fn run_isolated(programs: &[(String, String)]) -> Vec<(String, String)> {
    let mut res: Vec<Option<(String, String)>> = vec![None; programs.len()];
    let mut input = String::new();
    for (i, (flags, p)) in programs.iter().enumerate() {
        input.push_str(&format!("{}\t{}\t{}\n", i, flags, p.replace('\n', "\x01")));
    }
    let ex = gv::child::run(&["--child", "prims"], input.as_bytes(), Duration::from_secs(3600));
    let outp = match &ex {
        gv::child::Exit::Ok(o) => o.clone(),
        #[allow(unreachable_patterns)]
        gv::child::Exit::Code(_, o, e) | gv::child::Exit::Signal(_, o, e) => {
            eprintln!("fork server died: {} {}", ex.class(), e);
            o.clone()
        }
        gv::child::Exit::Timeout(o) => o.clone(),
    };
    for l in outp.lines() {
        let mut it = l.splitn(3, '\t');
        if let (Some(i), Some(c)) = (it.next(), it.next()) {
            if let Ok(i) = i.parse::<usize>() {
                if i < res.len() {
                    res[i] = Some((c.to_string(), it.next().unwrap_or("").to_string()));
                }
            }
        }
    }
    res.into_iter()
        .map(|r| r.unwrap_or(("not-run".into(), String::new())))
        .collect()
}

fn is_abort(class: &str) -> bool {
    class.starts_with("signal:") || class.starts_with("exit:") || class == "timeout" || class == "server-died"
}

pub struct Case {
    pub entry: usize,
    pub args: Vec<Arg>,
    pub program: String,
    pub flags: String,
}

/// Whole programs whose *evaluation by the host* (not a primitive) must end in a value or an error.
pub const PROGRAMS: &[(&str, &str)] = &[
    ("nan-result", "0.0 #Float/ 0.0\n"),
    ("nan-in-record", "{ x = 0.0 #Float/ 0.0 }\n"),
    ("char-literal-2-bytes", "'\u{e9}'\n"),
    ("char-literal-3-bytes", "'\u{65e5}'\n"),
    ("string-literal-non-ascii", "\"\u{e9}\u{65e5}\"\n"),
    ("int-div-zero", "1 #Int/ 0\n"),
    ("int-div-overflow", "(-0x8000000000000000) #Int/ (-1)\n"),
    ("int-add-overflow", "9223372036854775807 #Int+ 1\n"),
    ("int-mul-overflow", "9223372036854775807 #Int* 2\n"),
    ("int-sub-overflow", "(-0x8000000000000000) #Int- 1\n"),
    ("byte-add-overflow", "255b #Byte+ 1b\n"),
    ("byte-sub-overflow", "0b #Byte- 1b\n"),
    ("byte-div-zero", "1b #Byte/ 0b\n"),
    ("float-div-zero", "{ x = 1.0 #Float/ 0.0 }\n"),
    ("error-call", "(import! std.prim).error \"boom\"\n"),
    ("parse-error", "let x = in\n"),
    ("type-error", "1 #Int+ \"a\"\n"),
    ("unterminated-char", "'a\n"),
    ("unterminated-string", "\"abc\n"),
    ("empty-char", "''\n"),
    ("bad-escape", "\"\\q\"\n"),
    ("lone-non-ascii", "\u{e9}\n"),
    ("non-ascii-after-number", "1\u{e9}\n"),
    ("non-ascii-after-float", "1.5\u{e9}\n"),
    ("hex-non-ascii", "0x\u{e9}\n"),
    ("byte-literal-overflow", "256b\n"),
    ("int-literal-overflow", "9223372036854775808\n"),
    ("array-index-oob", "(import! std.array.prim).index [1, 2] 5\n"),
    ("undefined-variable", "xyz\n"),
    ("undefined-import", "import! std.does_not_exist\n"),
    ("import-path-prim-first-prelude", "let m = import! std.path.prim\nm.is_absolute \"/\"\n"),
    ("import-fs-prim-first-prelude", "let m = import! std.fs.prim\n1\n"),
    ("import-regex-prim-first-prelude", "let m = import! std.regex.prim\n1\n"),
    ("import-random-prim-first", "let m = import! std.random.prim\n1\n"),
    ("import-st-string-prim-first", "let m = import! std.effect.st.string.prim\n1\n"),
    ("import-io-prim-first-prelude", "let m = import! std.io.prim\n1\n"),
];

pub fn run(args: &Args, out: &mut Out) {
    let tab = table();
    let vm = warm_vm(true);
    let mut rng = gv::rng::Rng::new(args.seed, 6);
    let mut cases: Vec<Case> = vec![];
    let mut sigs: BTreeMap<String, String> = BTreeMap::new();
    for (ei, e) in tab.iter().enumerate() {
        out.count(&format!("table:{}", e.module));
        if e.kind == "bytecode" {
            out.count("skipped:bytecode-entry");
            continue;
        }
        if matches!(e.module.as_str(), "std.thread.prim" | "std.channel.prim" | "std.lazy.prim") {
            // arguments are threads / channels / closures (and `sleep`, `recv` block): exercised by the
            // history steps through the async primitives instead of the argument sweep
            out.count("skipped:sweep-excluded-module");
            continue;
        }
        let prelude = needs_prelude(&e.module);
        let per_prim = match (args.thorough(), prelude) {
            (true, false) => 400,
            (true, true) => 60,
            (false, false) => 30,
            (false, true) => 8,
        };
        let src = format!("let m = import! {}\nm.{}", e.module, e.field);
        let typ = match vm.typecheck_str("sig", &src, None) {
            Ok((_, t)) => t,
            Err(err) => {
                eprintln!("cannot type {}: {}", e.name, err);
                std::process::exit(2);
            }
        };
        let typ = remove_forall(&typ).clone();
        let arg_types: Vec<ArcType> = arg_iter(&typ).cloned().collect();
        let ret = {
            let mut it = arg_iter(&typ);
            while it.next().is_some() {}
            it.typ.to_string()
        };
        let is_io = ret.starts_with("IO ") || ret.starts_with("std.io.IO ") || ret.contains("IO ");
        sigs.insert(e.name.clone(), typ.to_string());
        let kinds: Vec<Kind> = arg_types.iter().map(kind_of).collect();
        let has_container = kinds.iter().any(|k| matches!(k, Kind::Str | Kind::ArrInt | Kind::ArrByte | Kind::Special(_)));
        let lists: Vec<Vec<Arg>> = kinds
            .iter()
            .map(|k| values(k, has_container && *k == Kind::Int, kinds.len() >= 3))
            .collect();
        if lists.iter().any(|l| l.is_empty()) {
            out.count("skipped:needs-host-object");
            out.count(&format!("skipped-prim:{}", e.name));
            continue;
        }
        let total: usize = lists.iter().map(|l| l.len()).product();
        let mut tuples: Vec<Vec<Arg>> = vec![];
        let grid = |limit: &dyn Fn(usize) -> usize, tuples: &mut Vec<Vec<Arg>>| {
            let mut idx = vec![0usize; lists.len()];
            loop {
                tuples.push(idx.iter().enumerate().map(|(k, i)| lists[k][*i].clone()).collect());
                let mut k = 0;
                while k < idx.len() {
                    idx[k] += 1;
                    if idx[k] < limit(k) {
                        break;
                    }
                    idx[k] = 0;
                    k += 1;
                }
                if k == idx.len() {
                    break;
                }
            }
        };
        if total <= per_prim {
            grid(&|k| lists[k].len(), &mut tuples);
        } else {
            // the core grid first (leading values of every list), then seeded samples of the rest
            let w = match lists.len() {
                1 => per_prim,
                2 => 6,
                _ => 3,
            };
            grid(&|k| lists[k].len().min(w), &mut tuples);
            tuples.truncate(per_prim.max(36));
            let target = per_prim.max(tuples.len() + 8);
            let mut guard = 0;
            while tuples.len() < target && guard < 10 * target {
                guard += 1;
                let t: Vec<Arg> = lists.iter().map(|l| rng.pick(l).clone()).collect();
                if !tuples.contains(&t) {
                    tuples.push(t);
                }
            }
        }
        for t in tuples {
            let program = program(e, &t, !is_io);
            let flags = format!("{}{}", if prelude { "P" } else { "N" }, if is_io { "R" } else { "W" });
            cases.push(Case { entry: ei, args: t, program, flags });
        }
    }
    out.stats.insert("signatures".into(), serde_json::to_value(&sigs).unwrap());
    drop(vm);
    let mut programs: Vec<(String, String)> = cases.iter().map(|c| (c.flags.clone(), c.program.clone())).collect();
    let n_prim = programs.len();
    for (name, p) in PROGRAMS {
        programs.push((if name.ends_with("-prelude") { "PRIF" } else { "NRIF" }.into(), p.to_string()));
    }
    let results = run_isolated(&programs);
    let mut bad = 0;
    let mut aborting: BTreeMap<String, (String, String)> = BTreeMap::new();
    for (c, (class, detail)) in cases.iter().zip(results.iter()) {
        let e = &tab[c.entry];
        let argtxt = c.args.iter().map(|a| a.sexp()).collect::<Vec<_>>().join(" ");
        let class = &(if class == "compile-error" && (e.field == "run_expr" || e.field == "load_script") {
            "err".to_string()
        } else {
            class.clone()
        });
        if class == "panic" {
            out.count("outcome:panic");
            out.class(format!("{}:panic", e.name));
            if !aborting.contains_key(&e.name) {
                aborting.insert(e.name.clone(), (c.program.clone(), class.clone()));
                out.oracle_fail(
                    &format!("panic:{}", e.name),
                    &format!("calling {} from a script panics inside gluon ({}); first input: {}", e.name, detail, argtxt),
                    serde_json::json!({"kind": "prim", "name": e.name, "program": c.program, "flags": c.flags, "args": argtxt}),
                );
            }
            continue;
        }
        if class == "compile-error" || class == "not-run" || class == "server-died" {
            bad += 1;
            eprintln!("HARNESS: {} for program:\n{}\n{}", class, c.program, detail);
            continue;
        }
        let cls = if is_abort(class) { "abort" } else { class.as_str() };
        out.count(&format!("outcome:{}", cls));
        out.count(&format!("calls:{}", e.module));
        out.class(format!("{}:{}", e.name, cls));
        if is_abort(class) && !aborting.contains_key(&e.name) {
            aborting.insert(e.name.clone(), (c.program.clone(), class.clone()));
            out.oracle_fail(
                &format!("abort:{}", e.name),
                &format!(
                    "calling {} ({}, {}) from a script kills the host process ({}); first input: {}",
                    e.name, e.path, e.file, class, argtxt
                ),
                serde_json::json!({"kind": "prim", "name": e.name, "program": c.program, "flags": c.flags, "args": argtxt}),
            );
        }
        if class_modelled(&e.name) {
            let vm_flag = value_modelled(&e.name);
            let payload = match cls {
                "ok" => {
                    if vm_flag {
                        format!("(ok {})", detail)
                    } else {
                        "ok".to_string()
                    }
                }
                other => other.to_string(),
            };
            let req = format!("prim {} {} {}", quote(&e.name), if vm_flag { "v" } else { "c" }, argtxt);
            if out.n_cases % 397 == 3 {
                out.sample(serde_json::json!({"request": req, "impl": payload}));
            }
            out.case(&req, &payload);
        } else {
            out.count("oracle-only-calls");
        }
    }
    out.stats.insert("aborting_primitives".into(), (aborting.len() as u64).into());
    // the model's tables cover the generated table exactly (evaluated by the driver, not the kernel)
    out.case("coverage", "(coverage (unmodelled) (ghost) (dup) (stray) (raw-route) (async-steps))");
    // whole programs
    for ((name, prog), (class, detail)) in PROGRAMS.iter().zip(results[n_prim..].iter()) {
        out.count(&format!("program-outcome:{}", if is_abort(class) { "abort" } else { class.as_str() }));
        out.class(format!("program:{}:{}", name, class));
        if class == "panic" {
            let site = detail.split(':').next().unwrap_or("?").to_string();
            out.oracle_fail(
                &format!("panic:{}:{}", site, name),
                &format!("evaluating the program {:?} panics inside gluon ({})", prog, detail),
                serde_json::json!({"kind": "prim", "name": format!("program:{}", name), "program": prog, "flags": if name.ends_with("-prelude") { "PRIF" } else { "NRIF" }}),
            );
        } else if is_abort(class) || class == "not-run" {
            out.oracle_fail(
                &format!("abort:program:{}", name),
                &format!("evaluating the program {:?} and holding its result kills the host process ({})", prog, class),
                serde_json::json!({"kind": "prim", "name": format!("program:{}", name), "program": prog, "flags": if name.ends_with("-prelude") { "PRIF" } else { "NRIF" }}),
            );
        }
    }
    if bad > 0 {
        eprintln!("{} generated programs did not compile / run", bad);
        std::process::exit(2);
    }
}

pub fn replay(out: &mut Out, case: &serde_json::Value) {
    let prog = case["program"].as_str().unwrap_or("").to_string();
    let flags = case["flags"].as_str().unwrap_or("PR").to_string();
    let name = case["name"].as_str().unwrap_or("?");
    let r = run_isolated(&[(flags, prog.clone())]);
    println!("replay {}:\n{}=> {} {}", name, prog, r[0].0, r[0].1);
    if is_abort(&r[0].0) || r[0].0 == "panic" {
        let fp = match (r[0].0 == "panic", name.strip_prefix("program:")) {
            (true, Some(pn)) => format!("panic:{}:{}", r[0].1.split(':').next().unwrap_or("?"), pn),
            (true, None) => format!("panic:{}", name),
            (false, _) => format!("abort:{}", name),
        };
        out.oracle_fail(
            &fp,
            &format!("{} kills / panics the host process ({} {})", name, r[0].0, r[0].1),
            case.clone(),
        );
    }
}
