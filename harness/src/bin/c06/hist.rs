//! Part 2: histories (stub).
use gv::{Args, Out};
pub fn child_main() {}
pub fn run(_args: &Args, _out: &mut Out) {}
pub fn replay(_out: &mut Out, _case: &serde_json::Value) {}
