//! Part 2: histories of failing and succeeding evaluations on one long-lived VM.
use crate::prims::{error_class, install_panic_hook, render};
use gluon::vm::api::{Hole, OpaqueValue};
use gluon::vm::stack::State;
use gluon::vm::thread::ThreadInternal;
use gluon::{RootedThread, Thread, ThreadExt};
use gv::{Args, Out};
use std::io::Read;
use std::time::Duration;

const MAX_STACK: u32 = 60_000;
const MEM_LIMIT_EXTRA: usize = 16 << 20;

/// (kind, fails?, program)
pub fn kinds() -> Vec<(&'static str, bool, String)> {
    let deep = |d: u32| {
        format!(
            "let p = import! std.prim\nlet a = import! std.array.prim\nrec let f n xs = if n #Int== 0 then p.error \"boom\" else 1 #Int+ f (n #Int- 1) (a.append xs [n, n, n, n])\nf {} [0]\n",
            d
        )
    };
    vec![
        ("ok-int", false, "1 #Int+ 2\n".to_string()),
        (
            "ok-rec",
            false,
            "rec let f n = if n #Int== 0 then 0 else n #Int+ f (n #Int- 1)\nf 300\n".to_string(),
        ),
        (
            "ok-array",
            false,
            "let a = import! std.array.prim\na.len (a.append [1, 2, 3] [4, 5])\n".to_string(),
        ),
        ("ok-string", false, "let s = import! std.string.prim\ns.append \"ab\" \"cd\"\n".to_string()),
        ("err-deep-10", true, deep(10)),
        ("err-deep-50", true, deep(50)),
        ("err-deep-200", true, deep(200)),
        (
            "err-prim",
            true,
            "let a = import! std.array.prim\n1 #Int+ a.index [1, 2] 5\n".to_string(),
        ),
        ("err-arith", true, "let f x = 1 #Int+ (x #Int/ 0)\nf 5\n".to_string()),
        (
            "stack-overflow",
            true,
            "rec let f n = if n #Int== 0 then 0 else 1 #Int+ f (n #Int- 1)\nf 100000000\n".to_string(),
        ),
        (
            "oom",
            true,
            "let a = import! std.array.prim\nrec let f n xs = if n #Int== 0 then a.len xs else f (n #Int- 1) (a.append xs xs)\nf 40 [1, 2, 3, 4, 5, 6, 7, 8]\n"
                .to_string(),
        ),
        // panics of primitive functions, caught in `unpack_and_call` since /repo 27c589a (they aborted before)
        ("caught-int-shl", true, "let i = import! std.int.prim\n1 #Int+ i.shl 1 100\n".to_string()),
        (
            "caught-string-slice",
            true,
            "let s = import! std.string.prim\nlet f x = s.append (s.slice \"abc\" 2 1) x\nf \"z\"\n".to_string(),
        ),
        (
            "caught-array-arg",
            true,
            "let i = import! std.int.prim\nlet a = import! std.array.prim\nrec let f n xs = if n #Int== 0 then i.rem (0 #Int- 9223372036854775807 #Int- 1) (0 #Int- 1) else 1 #Int+ f (n #Int- 1) (a.append xs [n])\nf 20 [0]\n"
                .to_string(),
        ),
        (
            "caught-st-string",
            true,
            "let b = import! std.effect.st.string.prim\nlet x = b.new ()\nlet _ = b.push_str x \"abc\"\nb.slice x 2 1\n".to_string(),
        ),
        // the host calls a Gluon function (`Function::call`, vm/src/api/function.rs:445 `call_first`); `#call` = the
        // program evaluates to a function Int -> Int which is then called with 200
        (
            "host-call-ok",
            false,
            "#call\nrec let f n = if n #Int== 0 then 0 else 1 #Int+ f (n #Int- 1)\nf\n".to_string(),
        ),
        (
            "host-call-err",
            true,
            "#call\nlet p = import! std.prim\nrec let f n = if n #Int== 0 then p.error \"boom\" else 1 #Int+ f (n #Int- 1)\nf\n".to_string(),
        ),
        // failures that surface through FUTURE-RETURNING primitives (`primitive!(n, async fn …)`, completed by
        // `Context::return_future`): names start with `async-`; the Lean step is `afail`
        (
            "async-lazy-force-err",
            true,
            "let p = import! std.prim\nlet l = import! std.lazy.prim\nlet x = l.lazy (\\_ -> if 1 #Int== 1 then p.error \"boom\" else 1)\n1 #Int+ l.force x\n".to_string(),
        ),
        (
            "async-lazy-force-ok",
            false,
            "let l = import! std.lazy.prim\nlet x = l.lazy (\\_ -> 41)\n1 #Int+ l.force x\n".to_string(),
        ),
        (
            "async-catch-recovers",
            false,
            "let p = import! std.prim\nlet io = import! std.io.prim\nio.catch (io.flat_map (\\_ -> io.wrap (p.error \"boom\")) (io.wrap ())) (\\_ -> io.wrap 7)\n".to_string(),
        ),
        (
            "async-catch-lazy-recovers",
            false,
            "let p = import! std.prim\nlet io = import! std.io.prim\nlet l = import! std.lazy.prim\nlet x = l.lazy (\\_ -> if 1 #Int== 1 then p.error \"boom\" else 1)\nio.catch (io.flat_map (\\_ -> io.wrap (l.force x)) (io.wrap ())) (\\_ -> io.wrap 7)\n".to_string(),
        ),
        (
            "async-catch-rethrows-err",
            true,
            "let p = import! std.prim\nlet io = import! std.io.prim\nio.catch (io.flat_map (\\_ -> io.wrap (p.error \"boom\")) (io.wrap ())) (\\e -> io.throw e)\n".to_string(),
        ),
        (
            "async-run-expr-err",
            true,
            "let io = import! std.io.prim\nio.run_expr \"(import! std.prim).error \\\"boom\\\"\"\n".to_string(),
        ),
        (
            "async-run-expr-ok",
            false,
            "let io = import! std.io.prim\nio.run_expr \"1 #Int+ 2\"\n".to_string(),
        ),
        (
            "async-load-script-err",
            true,
            "let io = import! std.io.prim\nio.load_script \"c06mod\" \"(import! std.prim).error \\\"boom\\\"\"\n".to_string(),
        ),
        (
            "async-thread-resume-err",
            true,
            "let p = import! std.prim\nlet t = import! std.thread.prim\nlet io = import! std.io.prim\nio.flat_map (\\th -> t.resume th) (t.spawn (io.flat_map (\\_ -> io.wrap (p.error \"boom\")) (io.wrap ())))\n".to_string(),
        ),
        ("async-thread-join-err", true, "let p = import! std.prim\nlet t = import! std.thread.prim\nlet io = import! std.io.prim\nt.join (io.flat_map (\\_ -> io.wrap (p.error \"boom\")) (io.wrap ())) (io.wrap 1)\n".to_string()),
        ("async-thread-join-ok", false, "let p = import! std.prim\nlet t = import! std.thread.prim\nlet io = import! std.io.prim\nt.join (io.wrap 2) (io.wrap 1)\n".to_string()),
        ("async-thread-yield-ok", false, "let p = import! std.prim\nlet t = import! std.thread.prim\nlet io = import! std.io.prim\nlet _ = t.yield ()\n5\n".to_string()),
        ("type-error", true, "1 #Int+ \"a\"\n".to_string()),
        ("parse-error", true, "let x = in\n".to_string()),
    ]
}

fn new_vm() -> RootedThread {
    let vm = gv::vm::new_vm();
    {
        let mut db = vm.get_database_mut();
        db.set_implicit_prelude(false);
        db.run_io(true);
    }
    // load the modules the programs import, so that every VM starts from the same state
    for m in [
        "std.prim",
        "std.array.prim",
        "std.string.prim",
        "std.int.prim",
        "std.effect.st.string.prim",
        "std.lazy.prim",
        "std.io.prim",
        "std.thread.prim",
    ] {
        let _ = vm.run_expr::<OpaqueValue<&Thread, Hole>>("warm", &format!("let _ = import! {}\n()", m));
    }
    vm.context().set_max_stack_size(MAX_STACK);
    vm.collect();
    let base = vm.allocated_memory();
    vm.set_memory_limit(base + MEM_LIMIT_EXTRA);
    vm
}

fn eval(vm: &Thread, src: &str) -> String {
    if let Some(fsrc) = src.strip_prefix("#call\n") {
        return eval_call(vm, fsrc);
    }
    let r = gv::catch(|| match vm.run_expr::<OpaqueValue<&Thread, Hole>>("h", src) {
        Ok((v, _)) => format!("ok:{}", render(v.get_variant(), 0)),
        Err(e) => {
            let msg = e.to_string();
            let l = msg.lines().next().unwrap_or("").chars().take(60).collect::<String>();
            // numbers in messages (limits, sizes) are not part of the comparison
            let mut m = String::new();
            for c in l.chars() {
                if c.is_ascii_digit() {
                    if !m.ends_with('#') {
                        m.push('#');
                    }
                } else {
                    m.push(c);
                }
            }
            let l = m;
            format!("{}:{}", error_class(&e), l)
        }
    });
    r.unwrap_or_else(|p| format!("panic:{}", p.lines().next().unwrap_or("")))
}

fn eval_call(vm: &Thread, src: &str) -> String {
    use gluon::vm::api::FunctionRef;
    let r = gv::catch(|| {
        let f = vm.run_expr::<FunctionRef<fn(i64) -> i64>>("h", src);
        match f {
            Err(e) => format!("{}:load {}", error_class(&e), e.to_string().lines().next().unwrap_or("")),
            Ok((mut f, _)) => match f.call(200) {
                Ok(v) => format!("ok:(i {})", v),
                Err(e) => {
                    let msg = e.to_string();
                    format!("err:{}", msg.lines().next().unwrap_or("").chars().take(60).collect::<String>())
                }
            },
        }
    });
    r.unwrap_or_else(|p| format!("panic:{}", p.lines().next().unwrap_or("")))
}

/// (frames, values, allocated bytes) of the thread at rest
fn measure(vm: &Thread) -> (usize, usize, usize) {
    // a VM whose context mutex was poisoned by a panic inside gluon cannot be inspected any more: 999_999
    gv::catch(|| {
        let (fr, vals) = {
            let mut ctx = vm.context();
            let fl = ctx.frame_level();
            let sf = ctx.stack_frame::<State>();
            let v = sf.len() as usize + sf.frame().offset as usize;
            (fl, v)
        };
        (fr, vals, vm.allocated_memory())
    })
    .unwrap_or((999_999, 999_999, 0))
}

fn collect(vm: &Thread) {
    let _ = gv::catch(|| vm.collect());
}

/// `--child hist`: stdin = `seed tier`; prints the observations.
pub fn child_main() {
    install_panic_hook();
    let mut input = String::new();
    std::io::stdin().read_to_string(&mut input).unwrap();
    let mut it = input.split_whitespace();
    let seed: u64 = it.next().unwrap().parse().unwrap();
    let thorough = it.next() == Some("thorough");
    let replay: Option<Vec<usize>> = it.next().map(|s| s.split(',').filter_map(|x| x.parse().ok()).collect());
    let ks = kinds();
    // 1. leak probes: the same failing program five times on one VM, collecting after every run
    let mut leak = vec![0usize; ks.len()];
    let mut leakf = vec![0usize; ks.len()];
    if replay.is_none() {
        for (ki, (name, fails, src)) in ks.iter().enumerate() {
            let vm = new_vm();
            let (f0, v0, _) = measure(&vm);
            let r1 = eval(&vm, src);
            collect(&vm);
            let (f1, v1, m1) = measure(&vm);
            let mut last = (f1, v1, m1);
            let mut same = true;
            for _ in 0..4 {
                let r = eval(&vm, src);
                same &= r == r1;
                collect(&vm);
                last = measure(&vm);
            }
            leak[ki] = v1.saturating_sub(v0);
            leakf[ki] = f1.saturating_sub(f0);
            println!(
                "L\t{}\t{}\t{}\t{}\t{}\t{}\t{}\t{}\t{}\t{}",
                name, fails, f0, v0, f1, v1, last.1, m1, last.2, if same { r1 } else { format!("UNSTABLE {}", r1) }
            );
        }
    } else {
        for (ki, (_, _, src)) in ks.iter().enumerate() {
            let vm = new_vm();
            let (f0, v0, _) = measure(&vm);
            let _ = eval(&vm, src);
            collect(&vm);
            let (f1, v1, _) = measure(&vm);
            leak[ki] = v1.saturating_sub(v0);
            leakf[ki] = f1.saturating_sub(f0);
        }
    }
    // 2. histories
    let mut rng = gv::rng::Rng::new(seed, 66);
    let n_hist = if thorough { 300 } else { 40 };
    let kidx = |n: &str| ks.iter().position(|k| k.0 == n).unwrap();
    // fixed scenarios first: the consequences of the leak that random histories only sometimes reach
    let scenarios: Vec<Vec<usize>> = vec![
        vec![kidx("stack-overflow"), kidx("ok-rec")],
        {
            let mut v = vec![kidx("oom"); 10];
            v.push(kidx("err-deep-200"));
            v.push(kidx("ok-array"));
            v
        },
    ];
    let histories: Vec<Vec<usize>> = match replay {
        Some(h) => vec![h],
        None => scenarios.into_iter().chain((0..n_hist)
            .map(|i| {
                let len = if i < 13 { i % 13 } else { rng.range(1, 12) as usize };
                (0..len).map(|_| rng.below(ks.len() as u64) as usize).collect()
            }))
            .collect(),
    };
    for h in histories {
        let vm = new_vm();
        let (f0, v0, _) = measure(&vm);
        let mut diffs = vec![];
        for (pos, ki) in h.iter().enumerate() {
            let (name, fails, src) = &ks[*ki];
            let got = eval(&vm, src);
            if *fails {
                collect(&vm);
            }
            let fresh = new_vm();
            let want = eval(&fresh, src);
            if got != want {
                diffs.push(format!("{}@{}: long-lived `{}` fresh `{}`", name, pos, got, want));
            }
        }
        collect(&vm);
        let (f1, v1, _) = measure(&vm);
        let steps: Vec<String> = h
            .iter()
            .map(|ki| {
                if ks[*ki].0.starts_with("async-") && ks[*ki].1 {
                    format!("(afail 1 {})", leak[*ki])
                } else if ks[*ki].0 == "host-call-err" {
                    format!("(hostfail {} {})", leakf[*ki], leak[*ki])
                } else if ks[*ki].1 {
                    format!("(fail 1 {})", leak[*ki])
                } else if leak[*ki] == 1 {
                    // a successful IO action: `execute_io` leaves its dummy function slot (thread.rs:1265)
                    "(okio)".to_string()
                } else {
                    "(ok 1 0)".to_string()
                }
            })
            .collect();
        println!(
            "H\t{}\t{}\t{}\t{}\t{}",
            h.iter().map(|k| k.to_string()).collect::<Vec<_>>().join(","),
            steps.join(" "),
            f1 as i64 - f0 as i64 + 1,
            v1 as i64 - v0 as i64,
            diffs.join(" ;; ")
        );
    }
}

fn run_child(seed: u64, tier: &str, replay: Option<&str>) -> (String, String) {
    let input = match replay {
        Some(r) => format!("{} {} {}", seed, tier, r),
        None => format!("{} {}", seed, tier),
    };
    let ex = gv::child::run(&["--child", "hist"], input.as_bytes(), Duration::from_secs(3000));
    match ex {
        gv::child::Exit::Ok(o) => (o, "ok".into()),
        other => {
            let c = other.class();
            match other {
                gv::child::Exit::Code(_, o, e) | gv::child::Exit::Signal(_, o, e) => (o, format!("{} {}", c, e)),
                gv::child::Exit::Timeout(o) => (o, c),
                gv::child::Exit::Ok(o) => (o, c),
            }
        }
    }
}

fn digest(out: &mut Out, text: &str, status: &str) {
    let ks = kinds();
    if status != "ok" {
        out.oracle_fail(
            "abort:history",
            &format!("the history runner process died: {}", status.chars().take(300).collect::<String>()),
            serde_json::json!({"kind": "history", "steps": ""}),
        );
    }
    for l in text.lines() {
        let f: Vec<&str> = l.split('\t').collect();
        if f[0] == "L" && f.len() >= 11 {
            let (name, fails) = (f[1], f[2] == "true");
            let n = |i: usize| f[i].parse::<i64>().unwrap_or(0);
            let (f0, v0, f1, v1, v5, m1, m5) = (n(3), n(4), n(5), n(6), n(7), n(8), n(9));
            out.count(&format!("probe:{}", name));
            out.class(format!("probe:{}:{}", name, f[10].split(':').next().unwrap_or("")));
            if f[10].starts_with("UNSTABLE") || f[10].starts_with("panic") {
                out.oracle_fail(
                    &format!("history-differs:repeat:{}", name),
                    &format!("evaluating `{}` five times on one VM does not give the same result every time: {}", name, f[10]),
                    serde_json::json!({"kind": "history", "steps": vec![name; 5].join(",")}),
                );
            }
            let res = f[10].trim_start_matches("UNSTABLE ");
            if fails != !res.starts_with("ok:") {
                out.oracle_fail(
                    &format!("wrong-outcome:{}", name),
                    &format!(
                        "`{}` must {} on a fresh VM but gives `{}`",
                        name,
                        if fails { "fail with an error value" } else { "succeed (e.g. io.catch must recover: the handler's value is the result)" },
                        res.chars().take(120).collect::<String>()
                    ),
                    serde_json::json!({"kind": "history", "steps": name}),
                );
            } else if fails && res.starts_with("err:") {
                // the host must see the script's OWN error
                let src = &ks.iter().find(|k| k.0 == name).unwrap().2;
                if src.contains("boom") && !res.contains("boom") {
                    out.oracle_fail(
                        &format!("wrong-error:{}", name),
                        &format!("the script fails with `boom` but the host receives `{}` ({})", res.chars().take(120).collect::<String>(), name),
                        serde_json::json!({"kind": "history", "steps": name}),
                    );
                }
            }
            if f1 != f0 {
                out.oracle_fail(
                    &format!("frame-leak:{}", name),
                    &format!("after a failed evaluation ({}) the thread has {} frames instead of {}", name, f1, f0),
                    serde_json::json!({"kind": "history", "steps": name}),
                );
            }
            if v1 > v0 && !fails {
                out.count(&format!("success-leaves-values:{}:{}", name, v1 - v0));
            }
            if v1 > v0 && fails {
                out.oracle_fail(
                    &format!("stack-leak:{}", name),
                    &format!(
                        "after a failed evaluation ({}) and collect() {} values of the failed run are still on the value stack ({} after five runs)",
                        name, v1 - v0, v5 - v0
                    ),
                    serde_json::json!({"kind": "history", "steps": name}),
                );
            }
            if m5 - m1 >= 4 * 256 && name.starts_with("async-thread-") {
                // every spawned / joined child thread (also of SUCCESSFUL runs: async-thread-join-ok grows the same)
                // stays allocated after collect(): not specific to failed runs, reported to the lead, not an oracle failure
                out.count(&format!("thread-objects-not-reclaimed:{}", name));
            } else if m5 - m1 >= 4 * 256 && fails {
                out.oracle_fail(
                    &format!("memory-leak:{}", name),
                    &format!(
                        "every further failed evaluation ({}) leaves memory that collect() does not reclaim: {} bytes after one run, {} after five",
                        name, m1, m5
                    ),
                    serde_json::json!({"kind": "history", "steps": name}),
                );
            }
        } else if f[0] == "H" && f.len() >= 6 {
            let hist: Vec<usize> = f[1].split(',').filter_map(|x| x.parse().ok()).collect();
            let names: Vec<&str> = hist.iter().map(|k| ks[*k].0).collect();
            out.count(&format!("history-len:{}", hist.len()));
            let nfail = hist.iter().filter(|k| ks[**k].1).count();
            if nfail > 0 && nfail < hist.len() {
                out.class(format!("hist:{}", names.join(",")));
            }
            let req = format!("hist real ({})", f[2]);
            let payload = format!("(frames {} values {})", f[3], f[4]);
            // a VM that cannot be inspected any more (poisoned context mutex) is outside the model
            let host_outside = f[3].parse::<i64>().unwrap_or(0) > 900_000;
            if host_outside {
                out.count("skipped-correspondence:history-after-failed-host-call");
            } else {
                if out.n_cases % 17 == 0 {
                    out.sample(serde_json::json!({"request": req, "impl": payload, "history": names}));
                }
                out.case(&req, &payload);
            }
            if !f[5].is_empty() {
                // attribute to the failing kind (earlier in the history) that leaves most on the stack
                let first = f[5].split(" ;; ").next().unwrap_or("");
                let pos: usize = first
                    .split('@')
                    .nth(1)
                    .and_then(|s| s.split(':').next())
                    .and_then(|s| s.parse().ok())
                    .unwrap_or(0);
                // closed set of culprits: what the earlier failed runs left behind
                let before: Vec<&str> = hist[..pos].iter().filter(|k| ks[**k].1).map(|k| ks[*k].0).collect();
                let culprit = if before.contains(&"host-call-err") {
                    "host-call-err"
                } else if before.contains(&"stack-overflow") {
                    "stack-overflow"
                } else if before.contains(&"oom") {
                    "oom"
                } else if before.is_empty() {
                    "none"
                } else {
                    "accumulated-leak"
                };
                out.oracle_fail(
                    &format!("history-differs:after:{}", culprit),
                    &format!(
                        "an evaluation on a VM that had failed evaluations before gives a different result than on a fresh VM: {} (history {})",
                        first,
                        names.join(",")
                    ),
                    serde_json::json!({"kind": "history", "steps": f[1]}),
                );
            }
        }
    }
}

pub fn run(args: &Args, out: &mut Out) {
    let (text, status) = run_child(args.seed, &args.tier, None);
    digest(out, &text, &status);
}

pub fn replay(out: &mut Out, case: &serde_json::Value) {
    let steps = case["steps"].as_str().unwrap_or("").to_string();
    let ks = kinds();
    // steps: comma separated kind indices or names
    let idx: Vec<String> = steps
        .split(',')
        .filter(|s| !s.is_empty())
        .map(|s| match s.parse::<usize>() {
            Ok(i) => i.to_string(),
            Err(_) => ks.iter().position(|k| k.0 == s).unwrap_or(0).to_string(),
        })
        .collect();
    // a single failing kind: replay as "fail, then the same again" so that the probe logic applies
    let (text, status) = if idx.len() == 1 {
        run_child(1, "quick", None)
    } else {
        run_child(1, "quick", Some(&idx.join(",")))
    };
    println!("{}", text);
    digest(out, &text, &status);
}
