//! Minimal libc bindings (the harness crate has no `libc` dependency; std links libc anyway).
use std::io::Write;

extern "C" {
    fn fork() -> i32;
    fn waitpid(pid: i32, status: *mut i32, options: i32) -> i32;
    fn _exit(code: i32) -> !;
    fn alarm(seconds: u32) -> u32;
    fn pipe(fds: *mut i32) -> i32;
    fn read(fd: i32, buf: *mut u8, n: usize) -> isize;
    fn write(fd: i32, buf: *const u8, n: usize) -> isize;
    fn close(fd: i32) -> i32;
    fn dup(fd: i32) -> i32;
    fn dup2(a: i32, b: i32) -> i32;
    fn open(path: *const u8, flags: i32, ...) -> i32;
}

/// Move the protocol channel away from fd 1 (scripts may print): returns a writer on a
/// duplicate of the original stdout; fd 0 and fd 1 now are /dev/null.
pub fn private_stdout() -> std::fs::File {
    use std::os::unix::io::FromRawFd;
    unsafe {
        let keep = dup(1);
        let null_w = open(b"/dev/null\0".as_ptr(), 1);
        dup2(null_w, 1);
        let null_r = open(b"/dev/null\0".as_ptr(), 0);
        dup2(null_r, 0);
        std::fs::File::from_raw_fd(keep)
    }
}

pub fn set_alarm(seconds: u32) {
    unsafe {
        alarm(seconds);
    }
}

/// Run `work(progress)` in a forked copy of this (single-threaded) process; `work` calls
/// `progress(i)` just before it starts item `i`.  Returns how the worker ended and the last
/// item it reported.
pub fn worker(work: impl FnOnce(&mut dyn FnMut(u32))) -> (Forked, Option<u32>) {
    let _ = std::io::stdout().flush();
    unsafe {
        let mut fds = [0i32; 2];
        if pipe(fds.as_mut_ptr()) != 0 {
            panic!("pipe failed");
        }
        let pid = fork();
        if pid < 0 {
            panic!("fork failed");
        }
        if pid == 0 {
            close(fds[0]);
            let wfd = fds[1];
            let mut progress = |i: u32| {
                let b = i.to_le_bytes();
                write(wfd, b.as_ptr(), 4);
            };
            work(&mut progress);
            let _ = std::io::stdout().flush();
            _exit(0);
        }
        close(fds[1]);
        let mut last = None;
        let mut buf = [0u8; 4];
        loop {
            let mut got = 0usize;
            while got < 4 {
                let r = read(fds[0], buf.as_mut_ptr().add(got), 4 - got);
                if r <= 0 {
                    break;
                }
                got += r as usize;
            }
            if got < 4 {
                break;
            }
            last = Some(u32::from_le_bytes(buf));
        }
        close(fds[0]);
        let mut status: i32 = 0;
        loop {
            let r = waitpid(pid, &mut status, 0);
            if r == pid {
                break;
            }
        }
        let sig = status & 0x7f;
        let st = if sig == 0 {
            let code = (status >> 8) & 0xff;
            if code == 0 {
                Forked::Done
            } else {
                Forked::Exit(code)
            }
        } else {
            Forked::Signal(sig)
        };
        (st, last)
    }
}

#[derive(Debug, Clone, PartialEq)]
pub enum Forked {
    /// the forked child wrote its own answer and exited 0
    Done,
    Exit(i32),
    Signal(i32),
}

/// Run `f` in a forked copy of this (single-threaded) process. `f` returns the line to print.
/// The line is written with one `write` and the child leaves through `_exit`, so no destructor
/// or buffered output of the parent image is replayed.
pub fn in_fork(timeout_s: u32, f: impl FnOnce() -> String) -> Forked {
    let _ = std::io::stdout().flush();
    unsafe {
        let pid = fork();
        if pid < 0 {
            panic!("fork failed");
        }
        if pid == 0 {
            alarm(timeout_s);
            let line = f();
            let mut so = std::io::stdout();
            let _ = so.write_all(line.as_bytes());
            let _ = so.flush();
            _exit(0);
        }
        let mut status: i32 = 0;
        loop {
            let r = waitpid(pid, &mut status, 0);
            if r == pid {
                break;
            }
            if r < 0 {
                // EINTR: retry
                continue;
            }
        }
        let sig = status & 0x7f;
        if sig == 0 {
            let code = (status >> 8) & 0xff;
            if code == 0 {
                Forked::Done
            } else {
                Forked::Exit(code)
            }
        } else {
            Forked::Signal(sig)
        }
    }
}
