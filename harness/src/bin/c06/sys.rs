//! Minimal libc bindings (the harness crate has no `libc` dependency; std links libc anyway).
use std::io::Write;

extern "C" {
    fn fork() -> i32;
    fn waitpid(pid: i32, status: *mut i32, options: i32) -> i32;
    fn _exit(code: i32) -> !;
    fn alarm(seconds: u32) -> u32;
}

#[derive(Debug, Clone, PartialEq)]
pub enum Forked {
    /// the forked child wrote its own answer and exited 0
    Done,
    Exit(i32),
    Signal(i32),
}

/// Run `f` in a forked copy of this (single-threaded) process. `f` returns the line to print.
/// The line is written with one `write` and the child leaves through `_exit`, so no destructor
/// or buffered output of the parent image is replayed.
pub fn in_fork(timeout_s: u32, f: impl FnOnce() -> String) -> Forked {
    let _ = std::io::stdout().flush();
    unsafe {
        let pid = fork();
        if pid < 0 {
            panic!("fork failed");
        }
        if pid == 0 {
            alarm(timeout_s);
            let line = f();
            let mut so = std::io::stdout();
            let _ = so.write_all(line.as_bytes());
            let _ = so.flush();
            _exit(0);
        }
        let mut status: i32 = 0;
        loop {
            let r = waitpid(pid, &mut status, 0);
            if r == pid {
                break;
            }
            if r < 0 {
                // EINTR: retry
                continue;
            }
        }
        let sig = status & 0x7f;
        if sig == 0 {
            let code = (status >> 8) & 0xff;
            if code == 0 {
                Forked::Done
            } else {
                Forked::Exit(code)
            }
        } else {
            Forked::Signal(sig)
        }
    }
}
