//! C08, text level: (ii) operator chains written as source text through the real grammar,
//! layout and `Reparser`, against the Lean model; (iii) the round-trip oracle: one AST printed
//! in several concrete styles must parse to the same tree, with spans delimiting the text.
use gluon_base::ast::{
    self, DisplayEnv, Expr, IdentEnv, Literal, Pattern, PatternField, RootExpr, SpannedExpr,
    SpannedPattern, ValueBindings,
};
use gluon_base::mk_ast_arena;
use gluon_base::types::TypeCache;
use gluon_parser::infix::{Error as InfixError, Fixity, OpMeta, OpTable, Reparser};
use gluon_parser::{parse_partial_expr, ParseErrors};
use gv::{quote, Out};
use std::fmt::Write;
use std::marker::PhantomData;

pub struct MockEnv<T>(PhantomData<T>);
impl<T: AsRef<str>> DisplayEnv for MockEnv<T> {
    type Ident = T;
    fn string<'a>(&'a self, ident: &'a Self::Ident) -> &'a str {
        ident.as_ref()
    }
}
impl<T> IdentEnv for MockEnv<T>
where
    T: AsRef<str> + for<'a> From<&'a str>,
{
    fn from_str(&mut self, s: &str) -> Self::Ident {
        T::from(s)
    }
}

/// user-declared operators of the text-level chains
pub const USER_OPS: &[(&str, i32, Fixity)] = &[
    ("+++", 5, Fixity::Left),
    ("***", 7, Fixity::Left),
    (">>>", 5, Fixity::Right),
    ("<<<", 9, Fixity::Right),
    ("$$", 0, Fixity::Right),
    ("<+>", 6, Fixity::Left),
    ("<|>", 4, Fixity::Right),
];
pub const BUILTIN_OPS: &[&str] = &[
    "#Int+", "#Int-", "#Int*", "#Int/", "#Int==", "#Int<", "#Float+", "#Float*", "#Float<",
    "#Byte<", "#Byte+", "#Char==", "#String==", "#Int>=", "#Int<=", "#Int>", "#Int/=", "&&", "||",
];

fn user_table() -> OpTable<String> {
    OpTable::new(USER_OPS.iter().map(|(n, p, f)| (n.to_string(), OpMeta::new(*p, *f))))
}

pub type Parsed = Result<RootExpr<String>, (Option<RootExpr<String>>, ParseErrors)>;

pub fn parse_only(input: &str) -> Parsed {
    let mut symbols: MockEnv<String> = MockEnv(PhantomData);
    mk_ast_arena!(arena);
    match parse_partial_expr(arena.borrow(), &mut symbols, &TypeCache::default(), input) {
        Ok(expr) => {
            let expr = arena.alloc(expr);
            Ok(RootExpr::new(arena.clone(), expr))
        }
        Err((expr, err)) => Err((
            expr.map(|expr| {
                let expr = arena.alloc(expr);
                RootExpr::new(arena.clone(), expr)
            }),
            err,
        )),
    }
}

/// Parse and re-balance infix chains with the user table (built-ins fall back to the table in
/// infix.rs). `Err(Some((stack op, next op)))` = conflicting fixities.
pub fn parse_reparse(input: &str) -> Result<RootExpr<String>, Option<(String, String)>> {
    let mut expr = match parse_only(input) {
        Ok(e) => e,
        Err(_) => return Err(None),
    };
    let symbols: MockEnv<String> = MockEnv(PhantomData);
    let r = expr.with_arena(|arena, expr| {
        let mut reparser = Reparser::new(arena.borrow(), user_table(), &symbols);
        reparser.reparse(expr)
    });
    match r {
        Ok(()) => Ok(expr),
        Err(errs) => {
            for e in errs {
                if let InfixError::ConflictingFixities((s, _), (n, _)) = e.value {
                    return Err(Some((s, n)));
                }
            }
            Err(None)
        }
    }
}

fn render_infix(e: &SpannedExpr<String>, src: &str, spans_ok: &mut bool) -> String {
    match &e.value {
        Expr::Infix { lhs, op, rhs, .. } => {
            let l = render_infix(lhs, src, spans_ok);
            let r = render_infix(rhs, src, spans_ok);
            if e.span.start() != lhs.span.start() || e.span.end() != rhs.span.end() {
                *spans_ok = false;
            }
            format!("({} {} {})", l, quote(&op.value.name), r)
        }
        Expr::Literal(Literal::Int(i)) => {
            // the span must delimit exactly the literal's text (1-based byte positions)
            let (s, t) = (e.span.start().to_usize(), e.span.end().to_usize());
            if s < 1 || t > src.len() + 1 || src.get(s - 1..t - 1) != Some(&format!("{}", i)) {
                *spans_ok = false;
            }
            format!("{}", i)
        }
        Expr::Tuple { elems, .. } if elems.len() == 1 => render_infix(&elems[0], src, spans_ok),
        _ => "?".into(),
    }
}

pub fn chains(out: &mut Out, rng: &mut gv::rng::Rng, n_cases: usize) {
    for _ in 0..n_cases {
        let n = rng.range(1, 7) as usize;
        let builtin_only = rng.chance(1, 3);
        let mut text = String::from("0");
        let mut req = String::from("infix 0");
        for i in 0..n {
            let use_builtin = builtin_only || rng.chance(1, 3);
            let (name, opsexp) = if use_builtin {
                let nm = *rng.pick(BUILTIN_OPS);
                (nm.to_string(), format!("(op {} builtin)", quote(nm)))
            } else {
                let (nm, p, f) = *rng.pick(USER_OPS);
                (
                    nm.to_string(),
                    format!("(op {} {} {})", quote(nm), p, if f == Fixity::Left { "L" } else { "R" }),
                )
            };
            // vary the concrete spacing / line breaks between operands (continuation lines are
            // indented so the layout rule keeps them in the same expression)
            let sep = match rng.below(6) {
                0 => "\n    ",
                1 => "  ",
                _ => " ",
            };
            let _ = write!(text, "{}{} {}", sep, name, i + 1);
            let _ = write!(req, " {} {}", opsexp, i + 1);
        }
        let payload = match gv::catch(|| parse_reparse(&text)) {
            Err(p) => {
                out.oracle_fail(
                    "panic:parse+reparse",
                    &format!("parsing an operator chain panicked: {}", p),
                    serde_json::json!({"text": text}),
                );
                "panic".to_string()
            }
            Ok(Ok(expr)) => {
                let mut ok = true;
                let r = render_infix(expr.expr(), &text, &mut ok);
                if !ok {
                    out.oracle_fail(
                        "span:text-chain",
                        "a span of the re-balanced chain does not delimit its text",
                        serde_json::json!({"text": text, "tree": r}),
                    );
                }
                format!("(ok {})", r)
            }
            Ok(Err(Some((s, nn)))) => format!("(conflict {} {})", quote(&s), quote(&nn)),
            Ok(Err(None)) => "parse-error".to_string(),
        };
        out.count(&format!("text-chain:{}", payload.split(' ').next().unwrap().trim_matches(|c| c == '(' || c == ')')));
        if n >= 2 {
            out.class(format!("text:{}", req));
        }
        if out.n_cases % 499 == 7 {
            out.sample(serde_json::json!({"text": text, "impl": payload}));
        }
        out.case(&req, &payload);
    }
}

// ---------------------------------------------------------------------------------------------
// (iii) round trip over concrete styles

fn canon_pat(p: &SpannedPattern<String>, o: &mut String) {
    match &p.value {
        Pattern::As(x, inner) => {
            let _ = write!(o, "(as {} ", x.value);
            canon_pat(inner, o);
            o.push(')');
        }
        Pattern::Constructor(c, args) => {
            let _ = write!(o, "(ctor {}", c.name);
            for a in args.iter() {
                o.push(' ');
                canon_pat(a, o);
            }
            o.push(')');
        }
        Pattern::Ident(x) => {
            let _ = write!(o, "{}", x.name);
        }
        Pattern::Record { fields, .. } => {
            o.push_str("(rec");
            for f in fields.iter() {
                match f {
                    PatternField::Type { name } => {
                        let _ = write!(o, " (type {})", name.value);
                    }
                    PatternField::Value { name, value } => {
                        let _ = write!(o, " ({}", name.value);
                        if let Some(v) = value {
                            o.push(' ');
                            canon_pat(v, o);
                        }
                        o.push(')');
                    }
                }
            }
            o.push(')');
        }
        Pattern::Tuple { elems, .. } => {
            if elems.len() == 1 {
                canon_pat(&elems[0], o);
            } else {
                o.push_str("(tup");
                for e in elems.iter() {
                    o.push(' ');
                    canon_pat(e, o);
                }
                o.push(')');
            }
        }
        Pattern::Literal(l) => {
            let _ = write!(o, "{:?}", l);
        }
        Pattern::Error => o.push_str("<error>"),
    }
}

/// Position-free rendering of an expression; parentheses (1-tuples) are transparent, the
/// right-nested raw infix chain is kept as parsed.
pub fn canon(e: &SpannedExpr<String>, o: &mut String) {
    match &e.value {
        Expr::Ident(x) => {
            let _ = write!(o, "{}", x.name);
        }
        Expr::Literal(l) => {
            let _ = write!(o, "{:?}", l);
        }
        Expr::App { func, args, .. } => {
            o.push_str("(app ");
            canon(func, o);
            for a in args.iter() {
                o.push(' ');
                canon(a, o);
            }
            o.push(')');
        }
        Expr::Lambda(l) => {
            o.push_str("(lam (");
            for a in l.args.iter() {
                let _ = write!(o, "{} ", a.name.value.name);
            }
            o.push_str(") ");
            canon(l.body, o);
            o.push(')');
        }
        Expr::IfElse(c, a, b) => {
            o.push_str("(if ");
            canon(c, o);
            o.push(' ');
            canon(a, o);
            o.push(' ');
            canon(b, o);
            o.push(')');
        }
        Expr::Match(s, alts) => {
            o.push_str("(match ");
            canon(s, o);
            for a in alts.iter() {
                o.push_str(" (");
                canon_pat(&a.pattern, o);
                o.push(' ');
                canon(&a.expr, o);
                o.push(')');
            }
            o.push(')');
        }
        Expr::Infix { lhs, op, rhs, .. } => {
            o.push_str("(infix ");
            canon(lhs, o);
            let _ = write!(o, " {} ", op.value.name);
            canon(rhs, o);
            o.push(')');
        }
        Expr::Projection(e, f, _) => {
            o.push_str("(proj ");
            canon(e, o);
            let _ = write!(o, " {})", f);
        }
        Expr::Array(a) => {
            o.push_str("(array");
            for e in a.exprs.iter() {
                o.push(' ');
                canon(e, o);
            }
            o.push(')');
        }
        Expr::Record { types, exprs, base, .. } => {
            o.push_str("(record");
            for t in types.iter() {
                let _ = write!(o, " (type {})", t.name.value);
            }
            for f in exprs.iter() {
                let _ = write!(o, " ({}", f.name.value);
                if let Some(v) = &f.value {
                    o.push(' ');
                    canon(v, o);
                }
                o.push(')');
            }
            if let Some(b) = base {
                o.push_str(" .. ");
                canon(b, o);
            }
            o.push(')');
        }
        Expr::Tuple { elems, .. } => {
            if elems.len() == 1 {
                canon(&elems[0], o);
            } else {
                o.push_str("(tuple");
                for e in elems.iter() {
                    o.push(' ');
                    canon(e, o);
                }
                o.push(')');
            }
        }
        Expr::LetBindings(bs, body) => {
            let rec = match bs {
                ValueBindings::Plain(_) => false,
                ValueBindings::Recursive(_) => true,
            };
            let _ = write!(o, "({}", if rec { "letrec" } else { "let" });
            for b in bs.iter() {
                o.push_str(" (");
                canon_pat(&b.name, o);
                o.push_str(" (");
                for a in b.args.iter() {
                    let _ = write!(o, "{} ", a.name.value.name);
                }
                o.push_str(") ");
                canon(&b.expr, o);
                o.push(')');
            }
            o.push(' ');
            canon(body, o);
            o.push(')');
        }
        Expr::TypeBindings(ts, body) => {
            o.push_str("(types");
            for t in ts.iter() {
                let _ = write!(o, " {}", t.name.value);
            }
            o.push(' ');
            canon(body, o);
            o.push(')');
        }
        Expr::Block(es) => {
            o.push_str("(block");
            for e in es.iter() {
                o.push(' ');
                canon(e, o);
            }
            o.push(')');
        }
        Expr::MacroExpansion { original, .. } => canon(original, o),
        Expr::Annotated(e, _) => canon(e, o),
        Expr::Do(_) => o.push_str("<do>"),
        Expr::Error(_) => o.push_str("<error>"),
    }
}

/// Every expression node's span must lie inside the source on char boundaries, contain its
/// children's spans, and start/end on non-whitespace.
fn check_spans(e: &SpannedExpr<String>, src: &str, bad: &mut Option<String>) {
    use gluon_base::ast::Visitor;
    struct V<'s> {
        src: &'s str,
        bad: Option<String>,
    }
    impl<'a, 'ast, 's> Visitor<'a, 'ast> for V<'s> {
        type Ident = String;
        fn visit_expr(&mut self, e: &'a SpannedExpr<'ast, String>) {
            let (s, t) = (e.span.start().to_usize(), e.span.end().to_usize());
            // macro/implicit nodes have empty spans at 0
            if !(s == 0 && t == 0) {
                let ok = s >= 1
                    && s <= t
                    && t <= self.src.len() + 1
                    && self.src.is_char_boundary(s - 1)
                    && self.src.is_char_boundary(t - 1);
                if !ok {
                    self.bad.get_or_insert(format!("span {}..{} outside the text", s, t));
                } else if s < t {
                    let txt = &self.src[s - 1..t - 1];
                    if txt.starts_with(char::is_whitespace) || txt.ends_with(char::is_whitespace) {
                        self.bad
                            .get_or_insert(format!("span {}..{} starts or ends on whitespace: {:?}", s, t, txt));
                    }
                }
            }
            ast::walk_expr(self, e);
        }
    }
    let mut v = V { src, bad: None };
    v.visit_expr(e);
    if let Some(b) = v.bad {
        bad.get_or_insert(b);
    }
}

/// Re-style a program text produced by `gv::surf::program_text` without changing its tree.
pub fn restyle(text: &str, style: usize, rng: &mut gv::rng::Rng) -> String {
    match style {
        // comments and blank lines between and at the end of lines
        1 => {
            let mut o = String::new();
            for line in text.lines() {
                if rng.chance(1, 4) {
                    o.push_str("// a line comment\n");
                }
                if rng.chance(1, 5) {
                    o.push('\n');
                }
                o.push_str(line);
                if rng.chance(1, 4) {
                    o.push_str(" // trailing");
                }
                if rng.chance(1, 6) {
                    o.push_str(" /* block */");
                }
                o.push('\n');
            }
            o
        }
        // CRLF line ends
        2 => text.replace('\n', "\r\n"),
        // trailing whitespace and whitespace-only lines (columns of tokens must not move: the
        // layout of a multi-line `match` depends on them)
        3 => {
            let mut o = String::new();
            for line in text.lines() {
                o.push_str(line);
                o.push_str(&" ".repeat(rng.below(4) as usize));
                o.push('\n');
                if rng.chance(1, 5) {
                    o.push_str("      \n");
                }
            }
            o
        }
        _ => text.to_string(),
    }
}

pub fn roundtrip(out: &mut Out, rng: &mut gv::rng::Rng, n_progs: usize) {
    use gv::surf;
    for i in 0..n_progs {
        let mut g = surf::Gen::new(rng);
        let (e, _) = g.program(2 + (i % 3) as u32);
        let base_text = surf::program_text(&e);
        // style 4: redundant parentheses around the result expression and every top-level
        // binding's right-hand side is what `program_text` already does for open forms; add a
        // fully parenthesised copy of the final expression
        let reference = match gv::catch(|| parse_only(&base_text)) {
            Ok(Ok(r)) => r,
            Ok(Err(_)) => {
                out.count("roundtrip:skipped-unparsable");
                continue;
            }
            Err(p) => {
                out.oracle_fail("panic:parse", &format!("the parser panicked: {}", p), serde_json::json!({"text": base_text}));
                continue;
            }
        };
        let mut ref_canon = String::new();
        canon(reference.expr(), &mut ref_canon);
        let mut bad = None;
        check_spans(reference.expr(), &base_text, &mut bad);
        if let Some(b) = bad {
            out.oracle_fail("span:expr", &format!("span law broken: {}", b), serde_json::json!({"text": base_text}));
        }
        out.count("roundtrip:programs");
        for style in 1..=3 {
            let t = restyle(&base_text, style, rng);
            out.add("roundtrip:variants", 1);
            match gv::catch(|| parse_only(&t)) {
                Ok(Ok(r)) => {
                    let mut c = String::new();
                    canon(r.expr(), &mut c);
                    if c != ref_canon {
                        out.oracle_fail(
                            &format!("roundtrip:style{}-changes-tree", style),
                            "the same program in another legal concrete style parses to a different tree",
                            serde_json::json!({"text": base_text, "restyled": t}),
                        );
                    }
                    let mut bad = None;
                    check_spans(r.expr(), &t, &mut bad);
                    if let Some(b) = bad {
                        out.oracle_fail(
                            &format!("span:expr-style{}", style),
                            &format!("span law broken: {}", b),
                            serde_json::json!({"text": t}),
                        );
                    }
                }
                Ok(Err(_)) => out.oracle_fail(
                    &format!("roundtrip:style{}-unparsable", style),
                    "the same program in another legal concrete style does not parse",
                    serde_json::json!({"text": base_text, "restyled": t}),
                ),
                Err(p) => out.oracle_fail(
                    "panic:parse",
                    &format!("the parser panicked: {}", p),
                    serde_json::json!({"text": t}),
                ),
            }
        }
    }
}
