//! C08, first clause: an abstract tree of the expression core, printed in the explicit one-line
//! style with redundant parentheses and token-free trivia, must parse back to that tree with
//! spans that delimit the corresponding text.  Correspondence: the Lean driver prints the same
//! tree with the model printer (`PP.place`), runs C09's layout model and the grammar model
//! (`ExprGrammar.parseTop`); text, tree and every span are compared exactly.
use super::textlevel::parse_only;
use gluon_base::ast::{Expr, Literal, Pattern, SpannedExpr, ValueBindings};
use gv::{quote, Out};
use std::fmt::Write;

#[derive(Clone, Debug, PartialEq)]
pub enum X {
    Id(String),
    Int(u64),
    Str(String),
    Tuple(Vec<X>), // 0 = unit, 1 = parentheses
    App(Box<X>, Vec<X>),
    Infix(Box<X>, String, Box<X>),
    Lam(Vec<String>, Box<X>),
    If(Box<X>, Box<X>, Box<X>),
    Let(String, Vec<String>, Box<X>, Box<X>),
    Other,
}

const IDENTS: &[&str] = &["a", "b", "c", "f", "g", "x", "y", "z", "foo", "bar1", "k_2"];
const STRS: &[&str] = &["", "s", "hello", "A1"];
const OPS: &[&str] = &[
    "+++", "***", ">>>", "<<<", "$$", "<+>", "<|>", "+", "-", "*", "<", "==", "&&", "||", "#Int+",
];

pub struct G<'a> {
    pub rng: &'a mut gv::rng::Rng,
}

impl<'a> G<'a> {
    fn id(&mut self) -> String {
        self.rng.pick(IDENTS).to_string()
    }
    fn maybe_paren(&mut self, x: X) -> X {
        if self.rng.chance(1, 7) {
            X::Tuple(vec![x])
        } else {
            x
        }
    }
    /// level 0: something the grammar accepts as `AtomicExpr`
    fn atomic(&mut self, d: u32) -> X {
        let r = if d == 0 { self.rng.below(3) } else { self.rng.below(8) };
        match r {
            0 => X::Id(self.id()),
            1 => X::Int(self.rng.below(1000)),
            2 => X::Str(self.rng.pick(STRS).to_string()),
            3 => X::Tuple(vec![]),
            4 | 5 => X::Tuple(vec![self.expr(d - 1)]),
            6 => {
                let n = self.rng.range(2, 3);
                X::Tuple((0..n).map(|_| self.expr(d - 1)).collect())
            }
            _ => X::Id(self.id()),
        }
    }
    /// level <= 1: `AppExpr`
    fn app(&mut self, d: u32) -> X {
        if d == 0 || self.rng.chance(1, 2) {
            return self.atomic(d);
        }
        let f = if self.rng.chance(3, 4) { X::Id(self.id()) } else { self.atomic(d - 1) };
        let n = self.rng.range(1, 3);
        let x = X::App(Box::new(f), (0..n).map(|_| self.atomic(d - 1)).collect());
        self.maybe_paren(x)
    }
    /// level <= 2: `InfixExpr`
    fn infix(&mut self, d: u32) -> X {
        if d == 0 {
            return self.atomic(0);
        }
        let x = match self.rng.below(6) {
            0 | 1 => return self.app(d),
            2 => {
                let n = self.rng.range(1, 3);
                X::Lam((0..n).map(|_| self.id()).collect(), Box::new(self.expr(d - 1)))
            }
            _ => {
                let l = self.app(d - 1);
                let o = self.rng.pick(OPS).to_string();
                let r = self.infix(d - 1);
                X::Infix(Box::new(l), o, Box::new(r))
            }
        };
        self.maybe_paren(x)
    }
    /// level <= 3: `Expr`
    pub fn expr(&mut self, d: u32) -> X {
        if d == 0 {
            return self.atomic(0);
        }
        let x = match self.rng.below(6) {
            0 | 1 | 2 => return self.infix(d),
            3 => {
                let mut c = self.expr(d - 1);
                if !closed_end(&c) {
                    c = X::Tuple(vec![c]);
                }
                X::If(Box::new(c), Box::new(self.expr(d - 1)), Box::new(self.expr(d - 1)))
            }
            _ => {
                let n = if self.rng.chance(1, 2) { 0 } else { self.rng.range(1, 2) };
                X::Let(
                    self.id(),
                    (0..n).map(|_| self.id()).collect(),
                    Box::new(self.expr(d - 1)),
                    Box::new(self.expr(d - 1)),
                )
            }
        };
        self.maybe_paren(x)
    }
}

/// the printed form ends with a real token (no hidden layout block still open)
fn closed_end(x: &X) -> bool {
    match x {
        X::Id(_) | X::Int(_) | X::Str(_) | X::Tuple(_) | X::App(..) => true,
        X::Infix(_, _, r) => closed_end(r),
        _ => false,
    }
}

/// The harness' own printer: the token texts in order.
pub fn emit(x: &X, o: &mut Vec<String>) {
    match x {
        X::Id(n) => o.push(n.clone()),
        X::Int(n) => o.push(n.to_string()),
        X::Str(s) => o.push(format!("\"{}\"", s)),
        X::Tuple(es) => {
            o.push("(".into());
            for (i, e) in es.iter().enumerate() {
                if i > 0 {
                    o.push(",".into());
                }
                emit(e, o);
            }
            o.push(")".into());
        }
        X::App(f, args) => {
            emit(f, o);
            for a in args {
                emit(a, o);
            }
        }
        X::Infix(l, op, r) => {
            emit(l, o);
            o.push(op.clone());
            emit(r, o);
        }
        X::Lam(args, b) => {
            o.push("\\".into());
            o.extend(args.iter().cloned());
            o.push("->".into());
            emit(b, o);
        }
        X::If(c, a, b) => {
            o.push("if".into());
            emit(c, o);
            o.push("then".into());
            emit(a, o);
            o.push("else".into());
            emit(b, o);
        }
        X::Let(x, args, rhs, body) => {
            o.push("let".into());
            o.push(x.clone());
            o.extend(args.iter().cloned());
            o.push("=".into());
            emit(rhs, o);
            o.push("in".into());
            emit(body, o);
        }
        X::Other => o.push("?".into()),
    }
}

/// trivia between token i-1 and token i in style k (same table as `PP.gap` of the driver)
fn gap(k: u64, i: usize) -> &'static str {
    if k == 0 {
        return " ";
    }
    match (k + 3 * i as u64) % 5 {
        0 => "  ",
        1 => " /* c */ ",
        2 => "   ",
        _ => " ",
    }
}

pub fn text_of(x: &X, k: u64) -> String {
    let mut toks = vec![];
    emit(x, &mut toks);
    let mut s = String::new();
    for (i, t) in toks.iter().enumerate() {
        if i > 0 {
            s.push_str(gap(k, i));
        }
        s.push_str(t);
    }
    s
}

fn request_tree(x: &X, o: &mut String) {
    match x {
        X::Id(n) => {
            let _ = write!(o, "(id {})", n);
        }
        X::Int(n) => {
            let _ = write!(o, "(int {})", n);
        }
        X::Str(s) => {
            let _ = write!(o, "(str {})", quote(s));
        }
        X::Tuple(es) => {
            o.push_str(match es.len() {
                0 => "(unit",
                1 => "(paren",
                _ => "(tuple",
            });
            for e in es {
                o.push(' ');
                request_tree(e, o);
            }
            o.push(')');
        }
        X::App(f, args) => {
            o.push_str("(app ");
            request_tree(f, o);
            for a in args {
                o.push(' ');
                request_tree(a, o);
            }
            o.push(')');
        }
        X::Infix(l, op, r) => {
            o.push_str("(infix ");
            request_tree(l, o);
            let _ = write!(o, " {} ", quote(op));
            request_tree(r, o);
            o.push(')');
        }
        X::Lam(args, b) => {
            let _ = write!(o, "(lam ({}) ", args.join(" "));
            request_tree(b, o);
            o.push(')');
        }
        X::If(c, a, b) => {
            o.push_str("(if ");
            request_tree(c, o);
            o.push(' ');
            request_tree(a, o);
            o.push(' ');
            request_tree(b, o);
            o.push(')');
        }
        X::Let(x, args, rhs, body) => {
            let _ = write!(o, "(let {} ({}) ", x, args.join(" "));
            request_tree(rhs, o);
            o.push(' ');
            request_tree(body, o);
            o.push(')');
        }
        X::Other => o.push_str("(other)"),
    }
}

/// Render the real tree with every span (the payload compared with the model's) and rebuild it
/// as an `X`; `bad` collects span-law violations: the text a node's span delimits must consist
/// of exactly the tokens of that node's printed form.
fn render(
    e: &SpannedExpr<String>,
    src: &str,
    o: &mut String,
    bad: &mut Option<String>,
    op_bad: &mut Option<(&'static str, String)>,
) -> X {
    let (s, t) = (e.span.start().to_usize(), e.span.end().to_usize());
    let sp = format!("{} {}", s, t);
    let x = match &e.value {
        Expr::Ident(id) => {
            let _ = write!(o, "(id {} {})", id.name, sp);
            X::Id(id.name.clone())
        }
        Expr::Literal(Literal::Int(i)) => {
            let _ = write!(o, "(int {} {})", i, sp);
            X::Int(*i as u64)
        }
        Expr::Literal(Literal::String(st)) => {
            let _ = write!(o, "(str {} {})", quote(st), sp);
            X::Str(st.to_string())
        }
        Expr::Tuple { elems, .. } => {
            let _ = write!(o, "(tuple {}", sp);
            let mut xs = vec![];
            for el in elems.iter() {
                o.push(' ');
                xs.push(render(el, src, o, bad, op_bad));
            }
            o.push(')');
            X::Tuple(xs)
        }
        Expr::App { func, args, implicit_args } if implicit_args.is_empty() => {
            let _ = write!(o, "(app {} ", sp);
            let f = render(func, src, o, bad, op_bad);
            let mut xs = vec![];
            for a in args.iter() {
                o.push(' ');
                xs.push(render(a, src, o, bad, op_bad));
            }
            o.push(')');
            X::App(Box::new(f), xs)
        }
        Expr::Infix { lhs, op, rhs, .. } => {
            let _ = write!(o, "(infix {} ", sp);
            let l = render(lhs, src, o, bad, op_bad);
            let _ = write!(
                o,
                " {} {} {} ",
                quote(&op.value.name),
                op.span.start().to_usize(),
                op.span.end().to_usize()
            );
            {
                // the operator's own span must delimit the operator's text
                let (os, oe) = (op.span.start().to_usize(), op.span.end().to_usize());
                if os < 1 || oe < os || src.get(os - 1..oe - 1) != Some(op.value.name.as_str()) {
                    let kind = if op.value.name.starts_with('#') { "type-prefixed" } else { "plain" };
                    op_bad.get_or_insert((
                        kind,
                        format!(
                            "the span {}..{} of operator {} delimits {:?}",
                            os,
                            oe,
                            op.value.name,
                            src.get(os.max(1) - 1..oe.max(1) - 1)
                        ),
                    ));
                }
            }
            let r = render(rhs, src, o, bad, op_bad);
            o.push(')');
            X::Infix(Box::new(l), op.value.name.clone(), Box::new(r))
        }
        Expr::Lambda(l) => {
            let _ = write!(o, "(lam {} (", sp);
            let mut names = vec![];
            for (i, a) in l.args.iter().enumerate() {
                if i > 0 {
                    o.push(' ');
                }
                let _ = write!(
                    o,
                    "({} {} {})",
                    a.name.value.name,
                    a.name.span.start().to_usize(),
                    a.name.span.end().to_usize()
                );
                names.push(a.name.value.name.clone());
            }
            o.push_str(") ");
            let b = render(l.body, src, o, bad, op_bad);
            o.push(')');
            X::Lam(names, Box::new(b))
        }
        Expr::IfElse(c, a, b) => {
            let _ = write!(o, "(if {} ", sp);
            let c = render(c, src, o, bad, op_bad);
            o.push(' ');
            let a = render(a, src, o, bad, op_bad);
            o.push(' ');
            let b = render(b, src, o, bad, op_bad);
            o.push(')');
            X::If(Box::new(c), Box::new(a), Box::new(b))
        }
        Expr::LetBindings(ValueBindings::Plain(bind), body) => match &bind.name.value {
            Pattern::Ident(id) => {
                let _ = write!(
                    o,
                    "(let {} ({} {} {}) (",
                    sp,
                    id.name,
                    bind.name.span.start().to_usize(),
                    bind.name.span.end().to_usize()
                );
                let mut names = vec![];
                for (i, a) in bind.args.iter().enumerate() {
                    if i > 0 {
                        o.push(' ');
                    }
                    let _ = write!(
                        o,
                        "({} {} {})",
                        a.name.value.name,
                        a.name.span.start().to_usize(),
                        a.name.span.end().to_usize()
                    );
                    names.push(a.name.value.name.clone());
                }
                o.push_str(") ");
                let rhs = render(&bind.expr, src, o, bad, op_bad);
                o.push(' ');
                let b = render(body, src, o, bad, op_bad);
                o.push(')');
                X::Let(id.name.clone(), names, Box::new(rhs), Box::new(b))
            }
            _ => {
                o.push_str("(other)");
                X::Other
            }
        },
        _ => {
            o.push_str("(other)");
            X::Other
        }
    };
    // span law, directly from the statement: the delimited text is the node's own text
    if x != X::Other && bad.is_none() {
        let ok = s >= 1 && s <= t && t <= src.len() + 1;
        if !ok {
            *bad = Some(format!("span {}..{} outside the text", s, t));
        } else {
            let txt = &src[s - 1..t - 1];
            let got: Vec<String> = txt
                .replace("/* c */", " ")
                .split_whitespace()
                .map(|w| w.to_string())
                .collect();
            let mut want = vec![];
            emit(&x, &mut want);
            // `(`, `)`, `,`, `\` are printed as separate words, so words = tokens
            if got != want
                || txt.starts_with(char::is_whitespace)
                || txt.ends_with(char::is_whitespace)
                || txt.starts_with("/*")
                || txt.ends_with("*/")
            {
                *bad = Some(format!("span {}..{} delimits {:?}, the node prints as {:?}", s, t, txt, want.join(" ")));
            }
        }
    }
    x
}

/// remove redundant parentheses (1-tuples)
fn strip(x: &X) -> X {
    let b = |x: &X| Box::new(strip(x));
    match x {
        X::Tuple(es) if es.len() == 1 => strip(&es[0]),
        X::Tuple(es) => X::Tuple(es.iter().map(strip).collect()),
        X::App(f, args) => X::App(b(f), args.iter().map(strip).collect()),
        X::Infix(l, o, r) => X::Infix(b(l), o.clone(), b(r)),
        X::Lam(a, body) => X::Lam(a.clone(), b(body)),
        X::If(c, t, e) => X::If(b(c), b(t), b(e)),
        X::Let(x, a, rhs, body) => X::Let(x.clone(), a.clone(), b(rhs), b(body)),
        other => other.clone(),
    }
}

fn shape(x: &X) -> &'static str {
    match x {
        X::Id(_) | X::Int(_) | X::Str(_) => "leaf",
        X::Tuple(es) => match es.len() {
            0 => "unit",
            1 => "paren",
            _ => "tuple",
        },
        X::App(..) => "app",
        X::Infix(..) => "infix",
        X::Lam(..) => "lam",
        X::If(..) => "if",
        X::Let(..) => "let",
        X::Other => "other",
    }
}

fn count_nodes(x: &X, out: &mut Out, sig: &mut String) {
    out.count(&format!("core-node:{}", shape(x)));
    sig.push_str(&shape(x)[..1]);
    match x {
        X::Tuple(es) => es.iter().for_each(|e| count_nodes(e, out, sig)),
        X::App(f, a) => {
            count_nodes(f, out, sig);
            a.iter().for_each(|e| count_nodes(e, out, sig));
        }
        X::Infix(l, _, r) => {
            count_nodes(l, out, sig);
            count_nodes(r, out, sig);
        }
        X::Lam(_, b) => count_nodes(b, out, sig),
        X::If(c, a, b) => {
            count_nodes(c, out, sig);
            count_nodes(a, out, sig);
            count_nodes(b, out, sig);
        }
        X::Let(_, _, r, b) => {
            count_nodes(r, out, sig);
            count_nodes(b, out, sig);
        }
        _ => {}
    }
}

pub fn one(out: &mut Out, x: &X, k: u64) {
    let text = text_of(x, k);
    let mut req = format!("pp {} ", k);
    request_tree(x, &mut req);
    let payload = match gv::catch(|| parse_only(&text)) {
        Err(p) => {
            out.oracle_fail(
                "panic:parse",
                &format!("the parser panicked: {}", p),
                serde_json::json!({"text": text}),
            );
            "panic".to_string()
        }
        Ok(Err(_)) => {
            out.oracle_fail(
                "roundtrip:core-unparsable",
                "an expression printed in the explicit style does not parse",
                serde_json::json!({"text": text, "request": req}),
            );
            format!("(text {}) parse-error", quote(&text))
        }
        Ok(Ok(root)) => {
            let mut o = String::new();
            let mut bad = None;
            let mut op_bad = None;
            let back = render(root.expr(), &text, &mut o, &mut bad, &mut op_bad);
            if let Some((kind, what)) = op_bad {
                out.oracle_fail(
                    &format!("span:operator:{}", kind),
                    &format!("an operator's source span does not delimit the operator: {}", what),
                    serde_json::json!({"text": text, "request": req}),
                );
            }
            if strip(&back) != strip(x) {
                out.oracle_fail(
                    "roundtrip:core-tree-differs",
                    "an expression printed in the explicit style parses to a different tree",
                    serde_json::json!({"text": text, "request": req, "parsed": o}),
                );
            } else if back != *x {
                out.oracle_fail(
                    "roundtrip:core-parens-differ",
                    "the parsed tree has other parenthesis (1-tuple) nodes than the printed one",
                    serde_json::json!({"text": text, "request": req, "parsed": o}),
                );
            }
            if let Some(b) = bad {
                out.oracle_fail(
                    "span:core-node",
                    &format!("span law broken: {}", b),
                    serde_json::json!({"text": text, "request": req}),
                );
            }
            format!(
                "(text {}) blocks-as-predicted legal same-tree {}",
                quote(&text),
                o
            )
        }
    };
    let mut sig = String::new();
    count_nodes(x, out, &mut sig);
    out.count("core:cases");
    if sig.len() >= 4 {
        out.class(format!("core:{}:{}", sig, k.min(1)));
    }
    if out.n_cases % 397 == 11 {
        out.sample(serde_json::json!({"text": text, "impl": payload}));
    }
    out.case(&req, &payload);
}

pub fn run(out: &mut Out, rng: &mut gv::rng::Rng, n: usize) {
    for i in 0..n {
        let d = 1 + (i % 4) as u32;
        let x = {
            let mut g = G { rng: &mut *rng };
            g.expr(d)
        };
        let k = if i % 3 == 0 { 0 } else { rng.range(1, 50) as u64 };
        one(out, &x, k);
    }
}

/// `--replay`: parse the text with the real parser and show the tree with all spans.
pub fn replay_text(text: &str) {
    match gv::catch(|| parse_only(text)) {
        Ok(Ok(root)) => {
            let mut o = String::new();
            let mut bad = None;
            let mut op_bad = None;
            // (the node span law needs the harness' own token words; only meaningful for texts
            // printed by `text_of`)
            let _ = render(root.expr(), text, &mut o, &mut bad, &mut op_bad);
            println!("=> tree with spans: {}", o);
            if let Some((kind, what)) = op_bad {
                println!("=> span:operator:{}: {}", kind, what);
            }
        }
        Ok(Err(_)) => println!("=> does not parse"),
        Err(p) => println!("=> PANIC {}", p),
    }
}
