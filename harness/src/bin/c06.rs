//! C06 — "Scripts cannot crash the host; errors are values and the VM stays usable".
//!
//! Part 1 (primitive sweep): every entry of the primitive tables extracted by
//! translate/prim_table.py × boundary argument tuples derived from the entry's *real Gluon type*
//! is called through Gluon source text.  Every call runs in its own forked process (fork server
//! child: the VM is built once, each case is a `fork()`), so a Rust panic inside the
//! `extern "C"` wrapper of `primitive!` (= process abort) is an *outcome*.
//!   correspondence: outcome class (+ canonical value) vs the Lean model `Prims.outcome`
//!   oracle (model-free): abort / signal / timeout  => `abort:<primitive name>`
//! Part 2 (histories): interleavings of failing and succeeding evaluations on one long-lived VM vs
//! each evaluation on a fresh VM; stack and memory back to baseline after the failures.
//!   correspondence: the Lean `Frames` model of the frame/value stack after every step
//!   oracle: follow-up result differs from fresh VM => `history-differs:<kind>`; values left on
//!   the stack / memory not reclaimed => `stack-leak:<kind>` / `memory-leak:<kind>`.
#[path = "c06/prims.rs"]
mod prims;
#[path = "c06/hist.rs"]
mod hist;
#[path = "c06/sys.rs"]
mod sys;

use gv::{Args, Out};

fn main() {
    let argv: Vec<String> = std::env::args().collect();
    if argv.len() >= 3 && argv[1] == "--child" {
        match argv[2].as_str() {
            "prims" => prims::child_main(),
            "hist" => hist::child_main(),
            _ => std::process::exit(3),
        }
        return;
    }
    let args = Args::parse();
    if let Some(r) = &args.replay {
        let v: serde_json::Value = serde_json::from_str(&std::fs::read_to_string(r).unwrap()).unwrap();
        let case = v.get("case").cloned().unwrap_or(v.clone());
        let mut out = Out::new(&args.out);
        match case.get("kind").and_then(|k| k.as_str()) {
            Some("prim") => prims::replay(&mut out, &case),
            Some("history") => hist::replay(&mut out, &case),
            _ => {
                eprintln!("unknown replay case");
                std::process::exit(2)
            }
        }
        out.finish();
        return;
    }
    let mut out = Out::new(&args.out);
    prims::run(&args, &mut out);
    hist::run(&args, &mut out);
    out.finish();
}
