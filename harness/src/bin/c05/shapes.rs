//! Value shapes shared by c05.rs and c13.rs: closed Gluon expressions that build a fresh value in
//! the heap of the thread that evaluates them (no implicit prelude; `run_io(true)`).
#![allow(dead_code)]
use gv::rng::Rng;

pub const PRE: &str = "let string = import! std.string\nlet { ref } = import! std.reference\nlet { lazy } = import! std.lazy\nlet io = import! std.io.prim\n";

/// how the reference of a `parent_cell` shape is made (on the parent thread)
pub fn parent_cell_program(r: &mut Rng) -> String {
    format!("{}ref {}", PRE, ints(r))
}

#[derive(Clone, Debug)]
pub struct Shape {
    pub family: &'static str,
    pub expr: String,
    /// the value is an `IO` action that must be run to get the value
    pub io: bool,
    pub has_closure: bool,
    /// object kinds by path of edge indices from the root (default: plain). `s` shallow string
    /// array, `c` mutable cell, `f` the bytecode function object of a closure
    pub kinds: Vec<(Vec<usize>, char)>,
    /// cells reached twice lose their sharing when copied (known finding)
    pub shared_cell: bool,
    pub string_array: bool,
    /// Gluon expression over `x` (the value) that denotes one reference cell inside it, and the
    /// path of edge indices to that cell's object (aliasing oracle of c13)
    pub cell0: Option<(&'static str, Vec<usize>)>,
    /// the cell is built in the PARENT of the source thread and `expr` is a function of it
    pub parent_cell: bool,
}

fn ints(r: &mut Rng) -> String {
    let n = r.range(0, 900);
    let k = r.range(1, 5);
    let v: Vec<String> = (0..k).map(|i| (n + i).to_string()).collect();
    format!("[{}]", v.join(", "))
}
fn rstr(r: &mut Rng) -> String {
    format!("(string.append \"s{}\" \"x{}\")", r.range(0, 99), r.range(0, 9))
}
fn rec2(r: &mut Rng) -> String {
    format!("{{ a = {}, b = {} }}", ints(r), rstr(r))
}

pub const FAMILIES: &[&str] = &[
    "ints", "rstr", "rec", "shared", "boxed-array", "nested-array", "string-array", "closure", "partial-app",
    "mutual-closures", "variant", "cyclic", "ref-cell", "shared-ref-cell", "lazy-cell", "byte-float-arrays",
    "literal-string", "deep-list",
    // arrays with the userdata element representation (value.rs:1711 `deep_clone_userdata`)
    "ref-array", "ref-array-shared", "lazy-array", "lazy-array-forced", "ref-array-nested", "rec-of-ref-array",
    "closure-of-ref-array", "parent-cell-array",
];

pub fn shape_of(family: &'static str, r: &mut Rng) -> Shape {
    let mut s = Shape {
        family,
        expr: String::new(),
        io: false,
        has_closure: false,
        kinds: vec![],
        shared_cell: false,
        string_array: false,
        cell0: None,
        parent_cell: false,
    };
    s.expr = match family {
        "ints" => ints(r),
        "rstr" => format!("{{ s = {} }}", rstr(r)),
        "rec" => rec2(r),
        "shared" => format!("let x = {} in {{ l = x, r = x, n = {}, d = {{ x }} }}", rec2(r), r.range(0, 50)),
        "boxed-array" => format!("[{}, {}, {}]", rec2(r), rec2(r), rec2(r)),
        "nested-array" => {
            s.kinds.push((vec![], 'a'));
            format!("[{}, {}]", ints(r), ints(r))
        }
        "ref-array" => {
            s.io = true;
            s.kinds.push((vec![], 'U'));
            s.kinds.push((vec![0], 'c'));
            s.kinds.push((vec![1], 'c'));
            s.cell0 = Some(("array.index x 0", vec![0]));
            format!("io.flat_map (\\a -> io.flat_map (\\b -> io.wrap [a, b]) (ref {})) (ref {})", ints(r), ints(r))
        }
        "ref-array-shared" => {
            s.io = true;
            s.shared_cell = true;
            s.kinds.push((vec![], 'U'));
            s.kinds.push((vec![0], 'c'));
            s.cell0 = Some(("array.index x 0", vec![0]));
            format!("io.flat_map (\\a -> io.wrap [a, a]) (ref {})", ints(r))
        }
        "lazy-array" => {
            s.has_closure = true;
            s.kinds.push((vec![], 'U'));
            s.kinds.push((vec![0], 'c'));
            s.kinds.push((vec![1], 'c'));
            s.kinds.push((vec![0, 0, 0], 'f'));
            s.kinds.push((vec![1, 0, 0], 'f'));
            format!("let v = {} in [lazy (\\u -> v), lazy (\\u -> {})]", ints(r), ints(r))
        }
        "lazy-array-forced" => {
            s.has_closure = true;
            s.kinds.push((vec![], 'U'));
            s.kinds.push((vec![0], 'c'));
            s.kinds.push((vec![1], 'c'));
            s.kinds.push((vec![1, 0, 0], 'f'));
            format!("let {{ force }} = import! std.lazy\nlet l = lazy (\\u -> {})\nlet w = force l\n[l, lazy (\\u -> w)]", ints(r))
        }
        "ref-array-nested" => {
            s.io = true;
            s.shared_cell = true;
            s.kinds.push((vec![], 'a'));
            s.kinds.push((vec![0], 'U'));
            s.kinds.push((vec![1], 'U'));
            s.kinds.push((vec![0, 0], 'c'));
            s.kinds.push((vec![0, 1], 'c'));
            s.cell0 = Some(("array.index (array.index x 0) 0", vec![0, 0]));
            format!("io.flat_map (\\a -> io.flat_map (\\b -> io.wrap [[a, b], [a]]) (ref {})) (ref {})", ints(r), ints(r))
        }
        "rec-of-ref-array" => {
            s.io = true;
            s.shared_cell = true;
            s.kinds.push((vec![0], 'U'));
            s.kinds.push((vec![1], 'U'));
            s.kinds.push((vec![0, 0], 'c'));
            s.kinds.push((vec![0, 1], 'c'));
            s.cell0 = Some(("array.index x.xs 0", vec![0, 0]));
            format!("io.flat_map (\\a -> io.flat_map (\\b -> io.wrap {{ xs = [a, b], ys = [a], n = 3 }}) (ref {})) (ref {})", ints(r), ints(r))
        }
        "closure-of-ref-array" => {
            s.io = true;
            s.has_closure = true;
            s.kinds.push((vec![0], 'f'));
            s.kinds.push((vec![1], 'U'));
            s.kinds.push((vec![1, 0], 'c'));
            s.cell0 = Some(("array.index (x 0) 0", vec![1, 0]));
            format!("io.flat_map (\\a -> io.wrap (let xs = [a] in \\u -> let z = u #Int+ 1 in xs)) (ref {})", ints(r))
        }
        "parent-cell-array" => {
            // `expr` is applied to a reference that lives in the heap of the source thread's parent
            s.parent_cell = true;
            s.shared_cell = true;
            s.kinds.push((vec![0], 'U'));
            s.kinds.push((vec![0, 0], 'c'));
            s.cell0 = Some(("array.index x.xs 0", vec![0, 0]));
            "\\r -> { xs = [r], direct = r }".to_string()
        }
        "string-array" => {
            s.string_array = true;
            s.kinds.push((vec![], 's'));
            format!("[{}, {}]", rstr(r), rstr(r))
        }
        "closure" => {
            s.has_closure = true;
            s.kinds.push((vec![0], 'f'));
            format!("let x = {} in \\y -> {{ x, y }}", rec2(r))
        }
        "partial-app" => {
            s.has_closure = true;
            s.kinds.push((vec![0, 0], 'f'));
            format!("let f a b c = {{ a, b, c }} in f {} {}", ints(r), rstr(r))
        }
        "mutual-closures" => {
            s.has_closure = true;
            s.kinds.push((vec![0, 0], 'f'));
            s.kinds.push((vec![1, 0], 'f'));
            format!(
                "let k = {}\nrec\nlet f x = if x #Int< 0 then g x else k\nlet g x = f (x #Int+ 1)\nin {{ f, g }}",
                ints(r)
            )
        }
        "variant" => format!(
            "type T = | A Int | B T T | C (Array Int)\nB (A {}) (B (C {}) (A {}))",
            r.range(0, 99),
            ints(r),
            r.range(0, 99)
        ),
        "cyclic" => {
            s.has_closure = true;
            s.kinds.push((vec![0, 0], 'f'));
            format!("type R = {{ next : () -> R, v : Array Int }}\nlet v = {}\nrec let r : R = {{ next = \\u -> r, v }}\nin r", ints(r))
        }
        "ref-cell" => {
            s.io = true;
            s.kinds.push((vec![], 'c'));
            format!("ref {}", rec2(r))
        }
        "shared-ref-cell" => {
            s.io = true;
            s.shared_cell = true;
            s.kinds.push((vec![0], 'c'));
            format!("io.flat_map (\\r -> io.wrap {{ a = r, b = r }}) (ref {})", ints(r))
        }
        "lazy-cell" => {
            s.has_closure = true;
            s.kinds.push((vec![], 'c'));
            s.kinds.push((vec![0, 0], 'f'));
            format!("let v = {} in lazy (\\u -> v)", ints(r))
        }
        "byte-float-arrays" => format!("{{ b = [1b, 2b, {}b], f = [1.5, {}.25], e = {} }}", r.range(0, 200), r.range(0, 99), ints(r)),
        "literal-string" => format!("{{ s = \"lit{}\", t = {} }}", r.range(0, 9), rstr(r)),
        "deep-list" => {
            let n = r.range(3, 12);
            let mut e = String::from("Nil");
            for i in 0..n {
                e = format!("(Cons {} {})", i, e);
            }
            format!("type L = | Nil | Cons Int L\n{}", e)
        }
        _ => unreachable!(),
    };
    s
}

pub fn gen_shape(r: &mut Rng) -> Shape {
    let f = *r.pick(FAMILIES);
    shape_of(f, r)
}

pub fn program(s: &Shape) -> String {
    format!("{}{}", PRE, s.expr)
}
