//! C05 wave 2 — host-held value handles.
//!
//! Histories of `create handle` (a fresh object of a chosen shape and CONTENT — contents repeat, so
//! several distinct objects look alike —, a clone of an existing handle, a handle to a field, a
//! `re_root` into another thread), `drop handle` (any order), `collect(t)`, `read handle` on one VM
//! with three threads. Two legs:
//!
//! * correspondence: after every handle operation the multiset of tracked objects in the root list
//!   of every thread (read through the snapshot hooks), after every collection the tracked objects
//!   of the swept heaps that are still in a heap list, go to the Lean machine
//!   (`GluonModel.GcHandles`), which must print the same;
//! * oracle (the harness's own bookkeeping of which handles it still holds, no model): after a
//!   collection every object below a handle the host still holds is in its heap and reads the
//!   content it was created with; every tracked object of a swept heap that no held handle reaches
//!   is gone.
use super::heapsnap::*;
use super::Any;
use gluon::vm::gc::verif::{self, Event};
use gluon::vm::gc::{Gc, Generation, Trace};
use gluon::{RootedThread, ThreadExt};
use gv::rng::Rng;
use gv::surf;
use gv::{Args, Out};
use serde_json::{json, Value as J};
use std::collections::{BTreeMap, BTreeSet, HashMap};
use std::time::Duration;

const PRE: &str = "let string = import! std.string.prim\nlet array = import! std.array.prim\n";
/// thread paths of every VM of this stream: root, two children
const PATHS: [&[usize]; 3] = [&[0], &[0, 0], &[0, 1]];
const SHAPES: [&str; 4] = ["string", "int-array", "record", "record-sharing-one-string"];

fn program(shape: usize, c: u64) -> String {
    let s = format!("string.append \"h\" \"{}\"", c);
    let a = format!("array.append [{}] [{}]", c, c + 1);
    match shape {
        0 => format!("{}{}", PRE, s),
        1 => format!("{}{}", PRE, a),
        2 => format!("{}{{ s = {}, a = {} }}", PRE, s, a),
        _ => format!("{}let s = {}\n{{ x = s, y = s }}", PRE, s),
    }
}

/// The object graph below a handle, through the real `Trace` impls (visitor installed: nothing is
/// marked): (addresses in discovery order, edges).
fn below(h: &Any) -> (Vec<usize>, Vec<(usize, usize)>, Option<usize>) {
    let mut gc = Gc::new(Generation::default(), usize::MAX);
    verif::begin();
    h.get_value().trace(&mut gc);
    let events = verif::end().events;
    let mut stack: Vec<usize> = vec![];
    let mut disc = vec![];
    let mut edges = vec![];
    let mut top = None;
    for e in &events {
        match e {
            Event::Ref(a, _, first) => {
                if *first {
                    disc.push(*a);
                }
                match stack.last() {
                    Some(p) => edges.push((*p, *a)),
                    None => top = top.or(Some(*a)),
                }
            }
            Event::Enter(a) => stack.push(*a),
            Event::Exit(_) => {
                stack.pop();
            }
        }
    }
    (disc, edges, top)
}

struct TObj {
    addr: usize,
    owner: usize,
    edges: Vec<usize>,
    kind: &'static str,
    dead: bool,
}

struct Vm {
    vm: RootedThread,
    threads: Vec<RootedThread>,
}

fn fresh_vm() -> Vm {
    let vm = gv::vm::new_vm();
    gv::vm::settings(&vm, false, false);
    let _ = vm.run_expr::<Any>("warm", &format!("{}0", PRE));
    let c0 = vm.new_thread().unwrap();
    let c1 = vm.new_thread().unwrap();
    Vm { vm: vm.clone(), threads: vec![vm, c0, c1] }
}

struct Hist<'a> {
    v: &'a Vm,
    handles: Vec<Option<(usize, usize, Any, String)>>,
    objs: BTreeMap<usize, TObj>,
    addr2id: HashMap<usize, usize>,
    next: usize,
    obs: Vec<String>,
    oracle: Vec<J>,
    log: Vec<String>,
    n: usize,
    /// tracked objects found freed by an automatic collection (address seen again)
    early: usize,
}

impl<'a> Hist<'a> {
    fn heap_owner(&self, addr: usize) -> Option<usize> {
        for (i, t) in self.v.threads.iter().enumerate() {
            if t.verif_heap().1.iter().any(|(a, _, _)| *a == addr) {
                return Some(i);
            }
        }
        None
    }

    fn held(&self) -> BTreeSet<usize> {
        let mut seen = BTreeSet::new();
        let mut w: Vec<usize> = self.handles.iter().flatten().map(|h| h.1).collect();
        while let Some(x) = w.pop() {
            if seen.insert(x) {
                if let Some(o) = self.objs.get(&x) {
                    w.extend(o.edges.iter().cloned());
                }
            }
        }
        seen
    }

    /// Give ids to the not yet tracked objects below `h`; `post` = children before parents (the
    /// order an expression allocates), else discovery order (the order the cloner allocates).
    fn track(&mut self, h: &Any, post: bool, kind: &'static str) -> Result<usize, String> {
        let (disc, edges, top) = below(h);
        let top = top.ok_or("handle-to-unboxed-value")?;
        let held = self.held();
        let mut fresh: Vec<usize> = vec![];
        for a in &disc {
            match self.addr2id.get(a).cloned() {
                None => fresh.push(*a),
                Some(id) => {
                    if self.objs[&id].dead {
                        fresh.push(*a);
                    } else if held.contains(&id) {
                        if post {
                            // a freshly evaluated value lies at the address of an object a held handle reaches
                            return Err(format!("HELD-REUSED:{}", id));
                        }
                        // an existing object shared with the new handle
                    } else {
                        // not reachable from any held handle: an automatic collection inside an evaluation
                        // freed it and the allocator handed the address out again
                        self.objs.get_mut(&id).unwrap().dead = true;
                        self.early += 1;
                        fresh.push(*a);
                    }
                }
            }
        }
        let order: Vec<usize> = if post {
            let mut out = vec![];
            let mut seen = BTreeSet::new();
            fn go(a: usize, edges: &[(usize, usize)], seen: &mut BTreeSet<usize>, out: &mut Vec<usize>) {
                if !seen.insert(a) {
                    return;
                }
                for (p, c) in edges {
                    if *p == a {
                        go(*c, edges, seen, out);
                    }
                }
                out.push(a);
            }
            go(top, &edges, &mut seen, &mut out);
            out.into_iter().filter(|a| fresh.contains(a)).collect()
        } else {
            fresh.clone()
        };
        for a in &order {
            let owner = self.heap_owner(*a).ok_or("object-in-no-thread-heap")?;
            let id = self.next;
            self.next += 1;
            self.addr2id.insert(*a, id);
            self.objs.insert(id, TObj { addr: *a, owner, edges: vec![], kind, dead: false });
        }
        for a in &order {
            let id = self.addr2id[a];
            let es: Vec<usize> = edges.iter().filter(|(p, _)| p == a).filter_map(|(_, c)| self.addr2id.get(c).cloned()).collect();
            self.objs.get_mut(&id).unwrap().edges = es;
        }
        self.addr2id.get(&top).cloned().ok_or_else(|| "untracked-top".to_string())
    }

    fn roots_obs(&mut self) {
        let snap = snapshot(&self.v.vm);
        let mut s = String::from("(roots");
        for p in PATHS.iter() {
            let mut ids: Vec<usize> = match snap.thread_obj(p).and_then(|a| snap.objs.get(&a)) {
                Some(o) => o.edges.iter().filter_map(|e| self.addr2id.get(e).cloned()).filter(|id| !self.objs[id].dead).collect(),
                None => vec![],
            };
            ids.sort();
            s.push_str(&format!(" ({})", ids.iter().map(|i| i.to_string()).collect::<Vec<_>>().join(" ")));
        }
        s.push(')');
        self.obs.push(s);
    }

    fn fail(&mut self, fp: String, what: String) {
        let log = self.log.join("; ");
        self.oracle.push(json!([fp, format!("{}; history: {}", what, log)]));
    }
}

/// One history on `v`; returns (json answer, memory may be corrupt).
fn history(v: &Vm, input: &str) -> (String, bool) {
    let inp: J = serde_json::from_str(input).unwrap();
    let ops = inp["ops"].as_array().unwrap().clone();
    let mut h = Hist { v, handles: vec![], objs: BTreeMap::new(), addr2id: HashMap::new(), next: 3, obs: vec![], oracle: vec![], log: vec![], n: 0, early: 0 };
    let mut req = String::from("handles (threads ((0) 0) ((0) 1)) (ops");
    let mut skipped: Option<String> = None;
    let mut corrupt = false;
    let num = |x: &J| x.as_u64().unwrap() as usize;
    'ops: for op in &ops {
        h.n += 1;
        let name = op[0].as_str().unwrap();
        match name {
            "mk" => {
                let (t, shape, c) = (num(&op[1]), num(&op[2]), op[3].as_u64().unwrap());
                h.log.push(format!("h{} = fresh {} with content {} on thread {:?}", h.handles.len(), SHAPES[shape], c, PATHS[t]));
                match v.threads[t].run_expr::<Any>(&format!("hm{}", h.n), &program(shape, c)) {
                    Ok((val, _)) => match h.track(&val, true, SHAPES[shape]) {
                        Ok(id) => {
                            let want = surf::canon_value(val.get_variant());
                            h.handles.push(Some((t, id, val, want)));
                        }
                        Err(e) if e.starts_with("HELD-REUSED:") => {
                            let id: usize = e["HELD-REUSED:".len()..].parse().unwrap_or(0);
                            let k = h.objs.get(&id).map(|o| o.kind).unwrap_or("?");
                            h.fail(format!("host-handle:held-value-freed:{}", k), format!("object #{} that a held handle reaches was freed by a collection inside an evaluation: its address was handed out to a new value", id));
                            corrupt = true;
                            break 'ops;
                        }
                        Err(e) => {
                            skipped = Some(e);
                            break 'ops;
                        }
                    },
                    Err(_) => {
                        skipped = Some("mk-eval-error".into());
                        break 'ops;
                    }
                }
                req.push_str(&format!(" (mk {} {})", path_sexp(PATHS[t]), shape));
                h.roots_obs();
            }
            "clone" | "field" | "reroot" => {
                let i = num(&op[1]);
                let (t, id, val, want) = match &h.handles[i] {
                    Some(x) => (x.0, x.1, x.2.clone(), x.3.clone()),
                    None => continue,
                };
                let kind = h.objs[&id].kind;
                match name {
                    "clone" => {
                        h.log.push(format!("h{} = clone of h{}", h.handles.len(), i));
                        h.handles.push(Some((t, id, val, want)));
                        req.push_str(&format!(" (clone {})", i));
                    }
                    "field" => {
                        let k = num(&op[2]);
                        h.log.push(format!("h{} = field {} of h{}", h.handles.len(), k, i));
                        let f = val.into_inner().get(k);
                        match f {
                            Some(f) => {
                                let f = Any::from_value(f);
                                match h.track(&f, false, kind) {
                                    Ok(fid) => {
                                        let w = surf::canon_value(f.get_variant());
                                        h.handles.push(Some((t, fid, f, w)));
                                    }
                                    Err(_) => {
                                        // an unboxed field (never generated)
                                        skipped = Some("field-unboxed".into());
                                        break 'ops;
                                    }
                                }
                            }
                            None => h.handles.push(None),
                        }
                        req.push_str(&format!(" (field {} {})", i, k));
                    }
                    _ => {
                        let d = num(&op[2]);
                        h.log.push(format!("h{} = h{} re-rooted into thread {:?}", h.handles.len(), i, PATHS[d]));
                        match val.into_inner().re_root(v.threads[d].clone()) {
                            Ok(w) => {
                                let w = Any::from_value(w);
                                match h.track(&w, false, kind) {
                                    Ok(wid) => h.handles.push(Some((d, wid, w, want))),
                                    Err(e) => {
                                        skipped = Some(e);
                                        break 'ops;
                                    }
                                }
                            }
                            Err(_) => h.handles.push(None),
                        }
                        req.push_str(&format!(" (reroot {} {})", i, path_sexp(PATHS[d])));
                    }
                }
                h.roots_obs();
            }
            "drop" => {
                let i = num(&op[1]);
                let x = match h.handles[i].take() {
                    Some(x) => x,
                    None => continue,
                };
                h.log.push(format!("drop h{}", i));
                let val = x.2;
                if let Err(e) = gv::catch(move || drop(val)) {
                    h.fail("host-handle:drop-panics".into(), format!("dropping a live handle panics: {}", e.chars().take(120).collect::<String>()));
                    corrupt = true;
                    break 'ops;
                }
                req.push_str(&format!(" (drop {})", i));
                h.roots_obs();
            }
            "collect" => {
                let t = num(&op[1]);
                let path = PATHS[t];
                h.log.push(format!("collect {:?}", path));
                v.threads[t].collect();
                let mut in_heap: BTreeSet<usize> = BTreeSet::new();
                let lists: Vec<BTreeSet<usize>> = v.threads.iter().map(|th| th.verif_heap().1.iter().map(|(a, _, _)| *a).collect()).collect();
                for (id, o) in &h.objs {
                    if !o.dead && lists[o.owner].contains(&o.addr) {
                        in_heap.insert(*id);
                    }
                }
                let held = h.held();
                let mut alive = vec![];
                let mut lost: Option<usize> = None;
                let mut kept: Option<usize> = None;
                let ids: Vec<usize> = h.objs.keys().cloned().collect();
                for id in ids {
                    let (dead, owner) = (h.objs[&id].dead, h.objs[&id].owner);
                    if dead {
                        continue;
                    }
                    let swept = is_prefix(path, PATHS[owner]);
                    let there = in_heap.contains(&id);
                    if held.contains(&id) && !there {
                        lost = lost.or(Some(id));
                    }
                    if !held.contains(&id) && swept && there {
                        kept = kept.or(Some(id));
                    }
                    if swept && there {
                        alive.push(id);
                    }
                    if !there {
                        let a = h.objs[&id].addr;
                        h.objs.get_mut(&id).unwrap().dead = true;
                        if h.addr2id.get(&a) == Some(&id) {
                            h.addr2id.remove(&a);
                        }
                    }
                }
                req.push_str(&format!(" (collect {})", path_sexp(path)));
                h.obs.push(format!("(alive{})", alive.iter().map(|i| format!(" {}", i)).collect::<String>()));
                if let Some(id) = kept {
                    let k = h.objs[&id].kind;
                    h.fail(format!("host-handle:dropped-value-survives:{}", k), format!("collect({:?}) kept object #{} although the host holds no handle that reaches it any more", path, id));
                }
                if let Some(id) = lost {
                    let k = h.objs[&id].kind;
                    h.fail(format!("host-handle:held-value-freed:{}", k), format!("collect({:?}) freed object #{} although the host still holds a handle that reaches it", path, id));
                    corrupt = true;
                    break 'ops;
                }
            }
            "churn" => {
                // garbage of the sizes of the tracked values: a wrongly freed block is reused
                let t = num(&op[1]);
                let r = v.threads[t].run_expr::<Any>(
                    &format!("hc{}", h.n),
                    &format!("{}rec let go n acc = if n #Int== 0 then acc else go (n #Int- 1) {{ s = string.append \"z\" \"9\", a = array.append [7] [8], r = acc.s }}\nin\n(go 12 {{ s = \"\", a = [0], r = \"\" }}).s", PRE),
                );
                if let Err(e) = r {
                    if std::env::var("C05_DEBUG").is_ok() {
                        eprintln!("churn error: {}", e);
                    }
                    skipped = Some("churn-eval-error".into());
                    break 'ops;
                }
            }
            "read" => {
                let i = num(&op[1]);
                let (id, got, want) = match &h.handles[i] {
                    Some(x) => (x.1, surf::canon_value(x.2.get_variant()), x.3.clone()),
                    None => continue,
                };
                req.push_str(&format!(" (read {})", i));
                if got == want {
                    h.obs.push(format!("(r {} same)", id));
                } else {
                    h.obs.push(format!("(r {} changed)", id));
                    let k = h.objs[&id].kind;
                    h.log.push(format!("read h{}", i));
                    h.fail(format!("host-handle:read-changed:{}", k), format!("a handle the host holds was created with {} and now reads {}", want, got.chars().take(80).collect::<String>()));
                    corrupt = true;
                    break 'ops;
                }
            }
            _ => {}
        }
    }
    req.push_str("))");
    let payload = format!("(h{})", h.obs.iter().map(|o| format!(" {}", o)).collect::<String>());
    let n_handles = h.handles.len();
    let n_objs = h.objs.len();
    let out = json!({"req": req, "impl": payload, "oracle": h.oracle, "skipped": skipped, "handles": n_handles, "objs": n_objs, "early": h.early, "log": h.log});
    if corrupt {
        std::mem::forget(h.handles);
    } else {
        // leave the VM clean for the next history
        h.handles.clear();
        v.vm.collect();
    }
    (out.to_string(), corrupt)
}

pub fn child() {
    let mut v = fresh_vm();
    gv::child::serve(|input| {
        let (out, corrupt) = history(&v, input);
        if corrupt {
            let old = std::mem::replace(&mut v, fresh_vm());
            std::mem::forget(old);
        }
        out
    });
    std::mem::forget(v);
}

// ------------------------------------------------------------------------------------------
// generation
// ------------------------------------------------------------------------------------------

fn perms(items: &[usize], k: usize) -> Vec<Vec<usize>> {
    if k == 0 {
        return vec![vec![]];
    }
    let mut out = vec![];
    for (i, x) in items.iter().enumerate() {
        let mut rest = items.to_vec();
        rest.remove(i);
        for mut p in perms(&rest, k - 1) {
            p.insert(0, *x);
            out.push(p);
        }
    }
    out
}

/// n handles on thread `t`: the first is fresh with content 0, every later one is fresh with the
/// SAME content (a distinct object that looks alike), fresh with another content, or a clone of an
/// earlier handle; then every ordered sequence of drops; after each drop a collection (of `ct`),
/// churn and a read of every surviving handle.
fn systematic(thorough: bool) -> Vec<(String, J)> {
    let mut out = vec![];
    let mut idx = 0usize;
    for n in 2..=3usize {
        let mut patterns: Vec<Vec<i64>> = vec![vec![-1]]; // -1 fresh same content, -2 fresh other content, k >= 0 clone of k
        for j in 1..n {
            let mut next = vec![];
            for p in &patterns {
                for c in (-2i64..0).chain(0..j as i64) {
                    let mut q = p.clone();
                    q.push(c);
                    next.push(q);
                }
            }
            patterns = next;
        }
        let all: Vec<usize> = (0..n).collect();
        for p in &patterns {
            for k in 1..=n {
                for seq in perms(&all, k) {
                    idx += 1;
                    for shape in 0..4usize {
                        if !thorough && (idx % 4) != shape {
                            continue;
                        }
                        let (t, ct) = match idx % 5 {
                            0 => (1usize, 0usize), // handle on a child, the parent collects
                            1 => (1, 1),
                            _ => (0, 0),
                        };
                        let mut ops: Vec<J> = vec![];
                        for c in p {
                            match *c {
                                -1 => ops.push(json!(["mk", t, shape, 0])),
                                -2 => ops.push(json!(["mk", t, shape, 1])),
                                k => ops.push(json!(["clone", k])),
                            }
                        }
                        let mut live: Vec<usize> = all.clone();
                        for d in &seq {
                            ops.push(json!(["drop", d]));
                            live.retain(|x| x != d);
                            ops.push(json!(["collect", ct]));
                            if !live.is_empty() {
                                ops.push(json!(["churn", t]));
                            }
                            for l in &live {
                                ops.push(json!(["read", l]));
                            }
                        }
                        for l in &live {
                            ops.push(json!(["drop", l]));
                        }
                        ops.push(json!(["collect", 0]));
                        let pat: Vec<String> = p.iter().map(|c| match *c { -1 => "same".to_string(), -2 => "other".to_string(), k => format!("clone{}", k) }).collect();
                        let class = format!("sys|{}|{}|drops{}|{}", SHAPES[shape], pat.join(","), seq.iter().map(|d| d.to_string()).collect::<String>(), if t == 0 { "root" } else if ct == 0 { "child-collected-by-parent" } else { "child" });
                        out.push((class, json!({"ops": ops})));
                    }
                }
            }
        }
    }
    out
}

fn random(rng: &mut Rng) -> (String, J) {
    let len = rng.range(10, 26) as usize;
    let mut ops: Vec<J> = vec![];
    let mut live: Vec<usize> = vec![];
    let mut threads_of: Vec<usize> = vec![];
    let mut n = 0usize;
    let mut kinds: BTreeSet<&str> = BTreeSet::new();
    for _ in 0..len {
        let w = rng.below(100);
        let t = if rng.chance(1, 2) { 0 } else { 1 + rng.below(2) as usize };
        if w < 28 || live.is_empty() {
            ops.push(json!(["mk", t, rng.below(4), rng.below(2)]));
            live.push(n);
            threads_of.push(t);
            n += 1;
            kinds.insert("mk");
        } else if w < 43 {
            let h = *rng.pick(&live);
            ops.push(json!(["clone", h]));
            live.push(n);
            threads_of.push(threads_of[h]);
            n += 1;
            kinds.insert("clone");
        } else if w < 66 {
            let i = rng.below(live.len() as u64) as usize;
            let h = live.remove(i);
            ops.push(json!(["drop", h]));
            kinds.insert("drop");
        } else if w < 73 {
            let h = *rng.pick(&live);
            ops.push(json!(["field", h, rng.below(2)]));
            // the harness pushes `None` for a handle to a leaf; never used again
            threads_of.push(threads_of[h]);
            n += 1;
            kinds.insert("field");
        } else if w < 80 {
            let h = *rng.pick(&live);
            let d = rng.below(3) as usize;
            ops.push(json!(["reroot", h, d]));
            live.push(n);
            threads_of.push(d);
            n += 1;
            kinds.insert("reroot");
        } else if w < 95 {
            let ct = if rng.chance(2, 3) { 0 } else { 1 + rng.below(2) as usize };
            ops.push(json!(["collect", ct]));
            ops.push(json!(["churn", ct]));
            for _ in 0..2 {
                if !live.is_empty() {
                    ops.push(json!(["read", *rng.pick(&live)]));
                }
            }
            kinds.insert("collect");
        } else {
            ops.push(json!(["read", *rng.pick(&live)]));
        }
    }
    ops.push(json!(["collect", 0]));
    for h in &live {
        ops.push(json!(["read", h]));
    }
    (format!("rand|{}", kinds.into_iter().collect::<Vec<_>>().join("+")), json!({"ops": ops}))
}

pub fn stream(args: &Args, out: &mut Out) {
    let thorough = args.thorough();
    let mut jobs = systematic(thorough);
    let mut rng = Rng::new(args.seed, 0x4A1D);
    for _ in 0..(if thorough { 1500 } else { 80 }) {
        jobs.push(random(&mut rng));
    }
    let inputs: Vec<String> = jobs.iter().map(|j| j.1.to_string()).collect();
    let results = gv::child::batch(&["--child", "handles"], &inputs, 150, Duration::from_secs(900));
    for ((class, job), r) in jobs.iter().zip(results.iter()) {
        match r {
            Err(c) => {
                out.oracle_fail(
                    &format!("crash:handles-history:{}", c),
                    &format!("the VM died ({}) during a history of handle creation / clone / drop / collect / read", c),
                    json!({"handles": job}),
                );
            }
            Ok(s) => {
                let v: J = serde_json::from_str(s).unwrap();
                if let Some(k) = v["skipped"].as_str() {
                    out.count(&format!("handles-skipped:{}", k));
                    continue;
                }
                out.case(v["req"].as_str().unwrap(), v["impl"].as_str().unwrap());
                out.count(if class.starts_with("sys") { "handles-histories:systematic" } else { "handles-histories:random" });
                out.add("handles-created", v["handles"].as_u64().unwrap_or(0));
                out.add("handles-objects-tracked", v["objs"].as_u64().unwrap_or(0));
                out.add("handles-objects-freed-by-automatic-collection", v["early"].as_u64().unwrap_or(0));
                out.class(format!("handles|{}", class));
                for o in v["oracle"].as_array().unwrap() {
                    out.oracle_fail(o[0].as_str().unwrap(), o[1].as_str().unwrap(), json!({"handles": job}));
                }
                if class.starts_with("rand") && out.samples.len() < 5 {
                    out.sample(json!({"stream": "handles", "ops": job["ops"], "log": v["log"]}));
                }
            }
        }
    }
}

pub fn replay(job: &J) {
    let r = gv::child::batch(&["--child", "handles"], &[job.to_string()], 1, Duration::from_secs(120));
    println!("handles history {} =>\n{:?}", job, r[0]);
}
