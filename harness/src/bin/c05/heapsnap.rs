//! Shared by c05.rs and c13.rs: heap snapshots through the cfg(gluon_verif) hooks.
//!
//! A snapshot is the object graph reachable from the ROOT thread's collection roots (its stack,
//! rooted host handles, child-thread list — and through the child `Thread` objects the roots of
//! every descendant thread) together with the object lists of every thread heap. Heaps are named
//! by their *path* in the thread tree: `[]` = the global heap (generation 0), `[0]` = the root
//! thread (generation 1), `[0,i]` = its i-th child (generation 2) …, so "ancestor-or-self" is
//! "is a prefix of" and generation = length.
#![allow(dead_code)]
use gluon::vm::gc::verif::Event;
use gluon::RootedThread;
use std::collections::{BTreeMap, BTreeSet, HashMap};

pub type Path = Vec<usize>;

pub struct ThreadInfo {
    pub path: Path,
    pub thread: RootedThread,
    pub addr: usize,
}

/// All threads of the VM, parents before children, children in slab order.
pub fn thread_tree(root: &RootedThread) -> Vec<ThreadInfo> {
    let mut out = vec![];
    fn go(t: &RootedThread, path: Path, out: &mut Vec<ThreadInfo>) {
        let (addr, children) = t.verif_children();
        out.push(ThreadInfo { path: path.clone(), thread: t.clone(), addr });
        for (i, c) in children.iter().enumerate() {
            let mut p = path.clone();
            p.push(i);
            go(c, p, out);
        }
    }
    go(root, vec![0], &mut out);
    out
}

#[derive(Clone, Debug)]
pub struct Obj {
    pub addr: usize,
    pub owner: Option<Path>,
    /// heap the out-edges are allowed to point into: the thread's own heap for a `Thread` object,
    /// otherwise the owner
    pub home: Option<Path>,
    pub size: usize,
    pub reached: bool,
    pub gen_header: Option<i32>,
    pub edges: Vec<usize>, // addresses, in trace order, duplicates kept
    pub is_thread: bool,
}

pub struct Snap {
    pub threads: Vec<(Path, usize)>,
    /// canonical order: reached objects in discovery order, then unreached objects of the thread
    /// heaps (heap path order, heap list order)
    pub order: Vec<usize>,
    pub objs: HashMap<usize, Obj>,
    /// thread-heap objects only (addr set per heap path)
    pub heap_lists: BTreeMap<Path, Vec<usize>>,
    pub global_count: usize,
    pub problems: Vec<String>,
    /// objects whose mark bit is set (heap path, address)
    pub marked: Vec<(Path, usize)>,
}

/// Split the events of `verif_trace_roots` into (top-level refs, edges).
fn digest(events: &[Event]) -> (Vec<(usize, i32, bool)>, Vec<(usize, usize)>, BTreeMap<usize, i32>, Vec<usize>) {
    let mut stack: Vec<usize> = vec![];
    let mut top = vec![];
    let mut edges = vec![];
    let mut gens = BTreeMap::new();
    let mut discovery = vec![];
    for e in events {
        match e {
            Event::Ref(a, g, first) => {
                gens.insert(*a, *g);
                if *first {
                    discovery.push(*a);
                }
                match stack.last() {
                    Some(p) => edges.push((*p, *a)),
                    None => top.push((*a, *g, *first)),
                }
            }
            Event::Enter(a) => stack.push(*a),
            Event::Exit(_) => {
                stack.pop();
            }
        }
    }
    (top, edges, gens, discovery)
}

pub fn snapshot(root: &RootedThread) -> Snap {
    let tree = thread_tree(root);
    let mut problems = vec![];
    let mut objs: HashMap<usize, Obj> = HashMap::new();
    let mut heap_lists = BTreeMap::new();
    let thread_addr: HashMap<usize, Path> = tree.iter().map(|t| (t.addr, t.path.clone())).collect();
    // heap lists
    let global = root.verif_global_heap();
    let mut owner_of: HashMap<usize, (Path, usize)> = HashMap::new();
    let mut marked: Vec<(Path, usize)> = vec![];
    for (a, s, _m) in &global {
        owner_of.insert(*a, (vec![], *s));
    }
    for t in &tree {
        let (g, list) = t.thread.verif_heap();
        if g as usize != t.path.len() {
            problems.push(format!("generation-number:{}-at-depth-{}", g, t.path.len()));
        }
        let mut l = vec![];
        for (a, s, m) in &list {
            if *m {
                problems.push("stale-mark-bit".to_string());
                marked.push((t.path.clone(), *a));
            }
            owner_of.insert(*a, (t.path.clone(), *s));
            l.push(*a);
        }
        heap_lists.insert(t.path.clone(), l);
    }
    // reachable graph from the root thread's roots
    let events = root.verif_trace_roots();
    let (top, edges, gens, discovery) = digest(&events);
    // `mark_child_roots` repeats, at top level and after the collecting thread's own roots, the
    // thread object and the own roots of the descendant threads it enumerates. The own roots of
    // the root thread are the top-level refs minus those repetitions; they are removed from the END,
    // one occurrence per occurrence in a descendant's nested trace, as far as they are present —
    // no assumption is made about WHICH descendants the real code enumerates there.
    let mut own_top: Vec<Option<usize>> = top.iter().map(|(a, _, _)| Some(*a)).collect();
    {
        let mut to_remove: HashMap<usize, usize> = HashMap::new();
        for t in tree.iter().skip(1) {
            *to_remove.entry(t.addr).or_insert(0) += 1;
        }
        for (p, c) in &edges {
            if thread_addr.contains_key(p) && *p != tree[0].addr {
                *to_remove.entry(*c).or_insert(0) += 1;
            }
        }
        for slot in own_top.iter_mut().rev() {
            if let Some(a) = *slot {
                if let Some(n) = to_remove.get_mut(&a) {
                    if *n > 0 {
                        *n -= 1;
                        *slot = None;
                    }
                }
            }
        }
        // direct children are own roots of the root thread (its child list)
        for t in tree.iter().skip(1) {
            if t.path.len() == 2 {
                own_top.push(Some(t.addr));
            }
        }
    }
    let root_addr = tree[0].addr;
    let mut order = vec![];
    let mk = |a: usize, reached: bool, gens: &BTreeMap<usize, i32>| -> Obj {
        let (owner, size) = match owner_of.get(&a) {
            Some((p, s)) => (Some(p.clone()), *s),
            None => (None, 0),
        };
        let is_thread = thread_addr.contains_key(&a);
        let home = if is_thread { thread_addr.get(&a).cloned() } else { owner.clone() };
        Obj { addr: a, owner, home, size, reached, gen_header: gens.get(&a).cloned(), edges: vec![], is_thread }
    };
    for a in &discovery {
        objs.insert(*a, mk(*a, true, &gens));
        order.push(*a);
    }
    for (p, c) in &edges {
        if let Some(o) = objs.get_mut(p) {
            o.edges.push(*c);
        }
    }
    // own roots of the root thread = phase-1 top-level refs (minus the thread object itself)
    if !objs.contains_key(&root_addr) {
        objs.insert(root_addr, mk(root_addr, true, &gens));
        order.push(root_addr);
    }
    {
        let o = objs.get_mut(&root_addr).unwrap();
        for a in own_top.iter().flatten() {
            if *a != root_addr {
                o.edges.push(*a);
            }
        }
    }
    for (path, list) in &heap_lists {
        let _ = path;
        for a in list {
            if !objs.contains_key(a) {
                objs.insert(*a, mk(*a, false, &gens));
                order.push(*a);
            }
        }
    }
    for o in objs.values() {
        if o.owner.is_none() {
            problems.push("reached-object-in-no-heap".into());
        }
        if let (Some(g), Some(ow)) = (o.gen_header, &o.owner) {
            if g as usize != ow.len() {
                problems.push(format!("header-generation:{}-owner-depth-{}", g, ow.len()));
            }
        }
    }
    problems.sort();
    problems.dedup();
    Snap {
        threads: tree.iter().map(|t| (t.path.clone(), t.addr)).collect(),
        order,
        objs,
        heap_lists,
        global_count: global.len(),
        problems,
        marked,
    }
}

pub fn is_prefix(a: &[usize], b: &[usize]) -> bool {
    a.len() <= b.len() && a == &b[..a.len()]
}

pub fn path_sexp(p: &[usize]) -> String {
    let v: Vec<String> = p.iter().map(|x| x.to_string()).collect();
    format!("({})", v.join(" "))
}

impl Snap {
    pub fn index(&self) -> HashMap<usize, usize> {
        self.order.iter().enumerate().map(|(i, a)| (*a, i)).collect()
    }
    /// `(objs (owner home (edges…))…)` in canonical numbering (object i is the i-th entry)
    pub fn sexp(&self) -> String {
        let idx = self.index();
        let mut s = String::from("(objs");
        for a in &self.order {
            let o = &self.objs[a];
            let es: Vec<String> = o.edges.iter().map(|e| idx[e].to_string()).collect();
            let ow = o.owner.clone().unwrap_or(vec![99]);
            let hm = o.home.clone().unwrap_or(vec![99]);
            s.push_str(&format!(" ({} {} ({}))", path_sexp(&ow), path_sexp(&hm), es.join(" ")));
        }
        s.push(')');
        s
    }
    pub fn thread_obj(&self, path: &[usize]) -> Option<usize> {
        self.threads.iter().find(|t| t.0 == path).map(|t| t.1)
    }
    pub fn reached(&self) -> BTreeSet<usize> {
        self.objs.values().filter(|o| o.reached).map(|o| o.addr).collect()
    }
    pub fn thread_heap_objects(&self) -> BTreeSet<usize> {
        self.heap_lists.values().flatten().cloned().collect()
    }
    /// Ownership oracle: edges o→p with owner(p) not an ancestor-or-self of home(o).
    pub fn bad_edges(&self) -> Vec<(usize, usize)> {
        let mut v = vec![];
        for a in &self.order {
            let o = &self.objs[a];
            if let Some(h) = &o.home {
                for e in &o.edges {
                    if let Some(Some(po)) = self.objs.get(e).map(|p| p.owner.clone()) {
                        if !is_prefix(&po, h) {
                            v.push((*a, *e));
                        }
                    }
                }
            }
        }
        v
    }
}
