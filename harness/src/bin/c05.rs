//! C05 (scratch probe stage)
#[path = "c05/heapsnap.rs"]
mod heapsnap;
use gluon::vm::api::{Hole, OpaqueValue};
use gluon::{RootedThread, ThreadExt};
use heapsnap::*;

type Any = OpaqueValue<RootedThread, Hole>;

fn dump(tag: &str, s: &Snap) {
    let idx = s.index();
    println!("== {} : {} objs, global {}, problems {:?}", tag, s.order.len(), s.global_count, s.problems);
    for a in &s.order {
        let o = &s.objs[a];
        println!(
            "  #{} owner={:?} home={:?} size={} reached={} thr={} edges={:?}",
            idx[a], o.owner, o.home, o.size, o.reached, o.is_thread,
            o.edges.iter().map(|e| idx[e]).collect::<Vec<_>>()
        );
    }
    println!("  bad edges: {:?}", s.bad_edges().iter().map(|(a, b)| (idx[a], idx[b])).collect::<Vec<_>>());
}

fn probe(mode: &str) {
    let vm = gv::vm::new_vm();
    gv::vm::settings(&vm, false, false);
    vm.get_database_mut().set_run_io(true);
    match mode {
        "basic" => {
            let s = snapshot(&vm);
            dump("fresh", &s);
            let c = vm.new_thread().unwrap();
            let v: Any = c.run_expr::<Any>("a", "let x = { a = [1,2,3], b = \"abc\" } in { x, y = x }").unwrap().0;
            let s = snapshot(&vm);
            dump("after eval in child", &s);
            let w = v.clone().into_inner().re_root(vm.clone()).unwrap();
            let s = snapshot(&vm);
            dump("after reroot", &s);
            drop(v);
            c.collect();
            let s = snapshot(&vm);
            dump("after drop+collect child", &s);
            drop(w);
            vm.collect();
            let s = snapshot(&vm);
            dump("after drop+collect root", &s);
        }
        "strarr" => {
            let c = vm.new_thread().unwrap();
            let v: Any = c
                .run_expr::<Any>("a", "let s = import! std.string in [s.append \"hello \" \"world\", s.append \"foo\" \"bar\"]")
                .unwrap()
                .0;
            let w = v.clone().into_inner().re_root(vm.clone()).unwrap();
            let s = snapshot(&vm);
            dump("after reroot", &s);
            drop(v);
            c.collect();
            let _ = c.run_expr::<Any>("junk", "let s = import! std.string in [s.append \"XXXXXX\" \"YYYYY\", s.append \"ZZZ\" \"WWW\"]");
            println!("value now: {:?}", w);
        }
        "sharedref" => {
            let c = vm.new_thread().unwrap();
            let v: Any = c
                .run_expr::<Any>("a", "let { ref } = import! std.reference\nlet { ? } = import! std.io\nlet { flat_map, wrap } = import! std.prim\n ref 1")
                .map(|x| x.0)
                .unwrap_or_else(|e| panic!("{}", e));
            println!("{:?}", v);
        }
        "sharedref2" => {
            gv::vm::settings(&vm, true, false);
            let c = vm.new_thread().unwrap();
            let v: Any = c
                .run_expr::<Any>("a", "let { ref } = import! std.reference\nlet { ? } = import! std.io\nlet { wrap } = import! std.applicative\ndo r = ref 1\nwrap { a = r, b = r }")
                .map(|x| x.0)
                .unwrap_or_else(|e| panic!("{}", e));
            let w: Any = Any::from_value(v.clone().into_inner().re_root(vm.clone()).unwrap());
            let mut f: gluon::vm::api::FunctionRef<fn(Any) -> gluon::vm::api::IO<i64>> = vm
                .run_expr("f", "let { Reference, ref, load, (<-) } = import! std.reference\nlet { ? } = import! std.io\nlet { wrap } = import! std.applicative\nlet f x : { a : _, b : Reference Int } -> _ =\n    seq x.a <- 7\n    load x.b\nf")
                .map(|x| x.0)
                .unwrap_or_else(|e| panic!("{}", e));
            println!("original in child: write a, read b = {:?}", c.run_expr::<i64>("zz", "1").is_ok());
            println!("copy in root: write a:=7, read b => {:?}", f.call(w));
            let mut g: gluon::vm::api::FunctionRef<fn(Any) -> gluon::vm::api::IO<i64>> = c
                .run_expr("f", "let { Reference, ref, load, (<-) } = import! std.reference\nlet { ? } = import! std.io\nlet { wrap } = import! std.applicative\nlet f x : { a : _, b : Reference Int } -> _ =\n    seq x.a <- 7\n    load x.b\nf")
                .map(|x| x.0)
                .unwrap_or_else(|e| panic!("{}", e));
            println!("original in child: write a:=7, read b => {:?}", g.call(v));
        }
        _ => {}
    }
}

fn main() {
    let a: Vec<String> = std::env::args().collect();
    if a.get(1).map(|s| s.as_str()) == Some("--probe") {
        probe(&a[2]);
        return;
    }
}
