//! C05 — garbage collection is transparent and never frees a reachable value.
//!
//! Two streams (both in child processes, because a collector defect corrupts memory):
//!
//! * **graph** (correspondence + address-set oracle): seeded op sequences on one VM with a tree of
//!   threads (depth ≤ 3), host handles, re-rooted values, module-level `ref`/`lazy` cells and
//!   stores of fresh values into them. At every `collect(t)` the heap is snapshotted through the
//!   cfg(gluon_verif) hooks before and after; the snapshot goes to the Lean model whose
//!   `collect` must free exactly the same objects; independently the oracle checks, on address
//!   sets only, `Freed ∩ ReachableFromAnyRoot = ∅` and "what survives in a swept heap was
//!   reachable".
//! * **transparency** (oracle): generated programs (the shared `gv::surf` stream, allocation-heavy
//!   programs, programs that store fresh values into module-level cells) are run with the
//!   collector forced at every k-th allocation check for several k; canonical outcomes must not
//!   depend on k, and a second run of the same program must not retain more memory than the first.
#[path = "c05/heapsnap.rs"]
mod heapsnap;
#[path = "c05/shapes.rs"]
mod shapes;
#[path = "c05/handles.rs"]
mod handles;

use gluon::vm::api::{Hole, OpaqueValue};
use gluon::vm::gc::verif::{COLLECTIONS, STRESS_INTERVAL};
use gluon::{RootedThread, ThreadExt};
use gv::rng::Rng;
use gv::surf;
use gv::{Args, Out};
use heapsnap::*;
use serde_json::{json, Value as J};
use std::collections::BTreeSet;
use std::sync::atomic::Ordering;
use std::time::Duration;

type Any = OpaqueValue<RootedThread, Hole>;

// ------------------------------------------------------------------------------------------
// graph stream
// ------------------------------------------------------------------------------------------

struct Sc {
    vm: RootedThread,
    threads: Vec<(Path, RootedThread)>,
    handles: Vec<(usize, Any, &'static str)>,
    cells: Vec<(String, &'static str)>,
    /// thread-local mutable cells: (thread, handle, kind, value it must hold now)
    local: Vec<(usize, Any, &'static str, Option<String>)>,
    n: usize,
}

fn relation(o_owner: &[usize], p_owner: &[usize]) -> &'static str {
    if o_owner.is_empty() {
        "global-cell-holds-thread-heap-value"
    } else if is_prefix(o_owner, p_owner) {
        "ancestor-heap-holds-descendant-heap-value"
    } else {
        "unrelated-heaps"
    }
}

fn collect_request(s: &Snap, t: &[usize]) -> String {
    let idx = s.index();
    let mut out = format!("collect {} (objs", path_sexp(t));
    for a in &s.order {
        let o = &s.objs[a];
        let es: Vec<String> = o.edges.iter().map(|e| idx[e].to_string()).collect();
        let ow = o.owner.clone().unwrap_or(vec![99]);
        let hm = o.home.clone().unwrap_or(vec![99]);
        out.push_str(&format!(
            " ({} {} {} ({}))",
            path_sexp(&ow),
            path_sexp(&hm),
            if o.is_thread { "t" } else { "p" },
            es.join(" ")
        ));
    }
    out.push_str("))");
    out
}

/// One scenario; returns JSON `{cases: [[request, impl]], oracle: [[fp, what]], counts: {..}}`.
fn graph_scenario(input: &str) -> String {
    let inp: J = serde_json::from_str(input).unwrap();
    let seed = inp["seed"].as_u64().unwrap();
    let mut steps = inp["steps"].as_u64().unwrap() as usize;
    let mut seen_bad: BTreeSet<usize> = BTreeSet::new();
    let only: Option<Vec<String>> = inp.get("ops").and_then(|o| o.as_array()).map(|a| a.iter().map(|x| x.as_str().unwrap().to_string()).collect());
    let mut rng = Rng::new(seed, 0xC05);
    let vm = gv::vm::new_vm();
    gv::vm::settings(&vm, false, false);
    vm.get_database_mut().set_run_io(true);
    // load what the shapes import once, so that scenarios mostly measure their own values
    let _ = vm.run_expr::<Any>("warm", &format!("{}0", shapes::PRE));
    let mut sc = Sc { vm: vm.clone(), threads: vec![(vec![0], vm.clone())], handles: vec![], cells: vec![], local: vec![], n: 0 };
    let mut cases: Vec<J> = vec![];
    let mut oracle: Vec<J> = vec![];
    let mut counts: std::collections::BTreeMap<String, u64> = Default::default();
    let mut log: Vec<String> = vec![];
    let mut bump = |k: &str, counts: &mut std::collections::BTreeMap<String, u64>| *counts.entry(k.to_string()).or_insert(0) += 1;
    let mut step = 0;
    // when an operation leaves a pointer that crosses heaps the wrong way, the very next step is a
    // collection of the heap that owns the pointee: the schedule "a collection lands between the
    // store and the next use"
    let mut forced: Option<usize> = None;
    let mut scripted = only.clone().unwrap_or_default().into_iter();
    'outer: while step < steps {
        step += 1;
        sc.n += 1;
        let op: String = if forced.is_some() {
            "collect".to_string()
        } else if only.is_some() {
            match scripted.next() {
                Some(o) => o,
                None => break,
            }
        } else {
            let w = rng.below(112);
            (if w >= 108 {
                "readcell"
            } else if w >= 104 {
                "storelocal"
            } else if w >= 100 {
                "evalcell"
            } else if w < 10 {
                "newthread"
            } else if w < 35 {
                "eval"
            } else if w < 45 {
                "drop"
            } else if w < 58 {
                "reroot"
            } else if w < 62 {
                "loadcell"
            } else if w < 74 {
                "storecell"
            } else {
                "collect"
            })
            .to_string()
        };
        if std::env::var("C05_DEBUG").is_ok() {
            eprintln!("op {} (log so far: {:?})", op, log.last());
        }
        // scripted form `name:arg:arg` (corpus scenarios): explicit thread / family / handle
        let parts: Vec<String> = op.split(':').map(|x| x.to_string()).collect();
        let op = parts[0].clone();
        let arg_n = |i: usize| -> Option<usize> { parts.get(i).and_then(|x| x.parse().ok()) };
        let arg_s = |i: usize| -> Option<&'static str> { parts.get(i).and_then(|x| shapes::FAMILIES.iter().find(|f| **f == x.as_str()).cloned()) };
        match op.as_str() {
            "newthread" => {
                if sc.threads.len() >= 7 {
                    continue;
                }
                let cands: Vec<usize> = (0..sc.threads.len()).filter(|i| sc.threads[*i].0.len() < 4).collect();
                let p = arg_n(1).unwrap_or_else(|| *rng.pick(&cands));
                let nchild = sc.threads.iter().filter(|t| t.0.len() == sc.threads[p].0.len() + 1 && is_prefix(&sc.threads[p].0, &t.0)).count();
                let t = sc.threads[p].1.new_thread().unwrap();
                let mut path = sc.threads[p].0.clone();
                path.push(nchild);
                log.push(format!("newthread {:?}", path));
                sc.threads.push((path, t));
                bump("op:newthread", &mut counts);
            }
            "eval" => {
                let t = arg_n(2).unwrap_or_else(|| rng.below(sc.threads.len() as u64) as usize);
                let sh = match arg_s(1) {
                    Some(f) => shapes::shape_of(f, &mut rng),
                    None => shapes::gen_shape(&mut rng),
                };
                let r = sc.threads[t].1.run_expr::<Any>(&format!("e{}", sc.n), &shapes::program(&sh));
                log.push(format!("eval {:?} {}", sc.threads[t].0, sh.family));
                match r {
                    Ok((v, _)) => {
                        sc.handles.push((t, v, sh.family));
                        bump(&format!("eval:{}", sh.family), &mut counts);
                    }
                    Err(e) => {
                        bump(&format!("eval-error:{}", sh.family), &mut counts);
                        if std::env::var("C05_DEBUG").is_ok() {
                            eprintln!("eval error {}: {}", sh.family, e);
                        }
                    }
                }
            }
            "drop" => {
                if sc.handles.is_empty() {
                    continue;
                }
                let i = arg_n(1).unwrap_or_else(|| rng.below(sc.handles.len() as u64) as usize);
                sc.handles.swap_remove(i);
                seen_bad.clear();
                log.push("drop".to_string());
                bump("op:drop", &mut counts);
            }
            "reroot" => {
                if sc.handles.is_empty() {
                    continue;
                }
                let i = arg_n(1).unwrap_or_else(|| rng.below(sc.handles.len() as u64) as usize);
                let t = arg_n(2).unwrap_or_else(|| rng.below(sc.threads.len() as u64) as usize);
                let fam = sc.handles[i].2;
                let from = sc.threads[sc.handles[i].0].0.clone();
                log.push(format!("reroot {} {:?} -> {:?}", fam, from, sc.threads[t].0));
                match sc.handles[i].1.clone().into_inner().re_root(sc.threads[t].1.clone()) {
                    Ok(w) => {
                        sc.handles.push((t, Any::from_value(w), fam));
                        bump("op:reroot", &mut counts);
                    }
                    Err(_) => bump("op:reroot-refused", &mut counts),
                }
            }
            "loadcell" => {
                let t = rng.below(sc.threads.len() as u64) as usize;
                let kind = if rng.chance(1, 2) { "ref" } else { "lazy" };
                let name = format!("cellmod{}", sc.n);
                let src = if kind == "ref" {
                    "let st = import! std.st.reference.prim\n{ r = st.ref { a = [0], b = \"\" } }".to_string()
                } else {
                    format!("{}let l = lazy (\\u -> {{ a = [{}, 2, 3], b = string.append \"p\" \"q\" }})\n{{ l }}", shapes::PRE, sc.n)
                };
                log.push(format!("loadcell {} on {:?}", kind, sc.threads[t].0));
                if sc.threads[t].1.load_script(&name, &src).is_ok() {
                    // host handle to the module value: makes the global cell visible to the walk
                    if let Ok((v, _)) = sc.threads[t].1.run_expr::<Any>(&format!("h{}", sc.n), &format!("import! {}", name)) {
                        sc.handles.push((t, v, "module-cell"));
                    }
                    sc.cells.push((name, kind));
                    bump(&format!("op:loadcell-{}", kind), &mut counts);
                } else {
                    bump("op:loadcell-error", &mut counts);
                }
            }
            "storecell" => {
                if sc.cells.is_empty() {
                    continue;
                }
                let t = rng.below(sc.threads.len() as u64) as usize;
                let c = rng.below(sc.cells.len() as u64) as usize;
                let (name, kind) = sc.cells[c].clone();
                let src = if kind == "ref" {
                    format!(
                        "{}let st = import! std.st.reference.prim\nlet m = import! {}\nlet u = st.(<-) m.r {{ a = [{}, 7], b = string.append \"k\" \"v\" }}\n(st.load m.r).a",
                        shapes::PRE,
                        name,
                        sc.n
                    )
                } else {
                    format!("{}let {{ force }} = import! std.lazy\nlet m = import! {}\n(force m.l).a", shapes::PRE, name)
                };
                log.push(format!("storecell {} from {:?}", kind, sc.threads[t].0));
                match sc.threads[t].1.run_expr::<Any>(&format!("st{}", sc.n), &src) {
                    Ok(_) => bump(&format!("op:storecell-{}", kind), &mut counts),
                    Err(e) => {
                        bump("op:storecell-error", &mut counts);
                        if std::env::var("C05_DEBUG").is_ok() {
                            eprintln!("store error: {}", e);
                        }
                    }
                }
            }
            "ballast" => {
                // enough live data that the few allocations that follow stay below the heap's
                // collection threshold: the explicit collections are the only ones
                let t = arg_n(1).unwrap_or_else(|| rng.below(sc.threads.len() as u64) as usize);
                let src = format!("{}let array = import! std.array.prim\nrec let go n acc = if n #Int== 0 then acc else go (n #Int- 1) (array.append acc [string.append \"ballast-0123456789\" \"x\"])\nin\ngo 300 []", shapes::PRE);
                if let Ok((v, _)) = sc.threads[t].1.run_expr::<Any>(&format!("b{}", sc.n), &src) {
                    sc.handles.push((t, v, "ballast"));
                    bump("op:ballast", &mut counts);
                }
                log.push(format!("ballast {:?}", sc.threads[t].0));
            }
            "evalcell" => {
                let kind: &'static str = match parts.get(1).map(|x| x.as_str()) {
                    Some("ref") => "ref",
                    Some("lazy") => "lazy",
                    _ => if rng.chance(1, 2) { "ref" } else { "lazy" },
                };
                let t = arg_n(2).unwrap_or_else(|| rng.below(sc.threads.len() as u64) as usize);
                let src = if kind == "ref" {
                    "let st = import! std.st.reference.prim\nst.ref { a = [0], b = \"\" }".to_string()
                } else {
                    format!("{}lazy (\\u -> {{ a = [{}, 2, 3], b = string.append \"p\" \"q\" }})", shapes::PRE, sc.n)
                };
                log.push(format!("evalcell {} {:?}", kind, sc.threads[t].0));
                if let Ok((v, _)) = sc.threads[t].1.run_expr::<Any>(&format!("c{}", sc.n), &src) {
                    let expect = if kind == "ref" { Some("(data 0 (arr (int 0)) (str \"\"))".to_string()) } else { None };
                    let pending = if kind == "lazy" { Some(format!("(data 0 (arr (int {}) (int 2) (int 3)) (str \"pq\"))", sc.n)) } else { None };
                    sc.local.push((t, v, kind, expect.or(pending.map(|p| format!("unforced {}", p)))));
                    bump(&format!("op:evalcell-{}", kind), &mut counts);
                }
            }
            "storelocal" | "readcell" => {
                if sc.local.is_empty() {
                    continue;
                }
                let i = arg_n(1).unwrap_or_else(|| rng.below(sc.local.len() as u64) as usize);
                let (t, h, kind, expect) = sc.local[i].clone();
                let store = op == "storelocal";
                let src = match (kind, store) {
                    ("ref", true) => format!(
                        "{}let st = import! std.st.reference.prim\n\\r -> let u = st.(<-) r {{ a = [{}, {}], b = string.append \"n\" \"m\" }} in st.load r",
                        shapes::PRE, sc.n, sc.n + 1
                    ),
                    ("ref", false) => "let st = import! std.st.reference.prim\n\\r -> st.load r".to_string(),
                    _ => "let { force } = import! std.lazy\n\\l -> force l".to_string(),
                };
                let want = match (kind, store) {
                    ("ref", true) => format!("(data 0 (arr (int {}) (int {})) (str \"nm\"))", sc.n, sc.n + 1),
                    _ => expect.clone().unwrap_or_default().trim_start_matches("unforced ").to_string(),
                };
                log.push(format!("{} {} of {:?}", op, kind, sc.threads[t].0));
                let f: Result<(gluon::vm::api::FunctionRef<fn(Any) -> Any>, _), _> = sc.threads[t].1.run_expr(&format!("f{}", sc.n), &src);
                match f {
                    Ok((mut f, _)) => match f.call(h.clone()) {
                        Ok(v) => {
                            let got = surf::canon_value(v.get_variant());
                            bump(&format!("op:{}-{}", op, kind), &mut counts);
                            if got != want {
                                oracle.push(json!([
                                    format!("cell-value-changed-across-collections:{}", kind),
                                    format!("a {} cell of thread {:?} must hold {} but reads {}; op log: {}", kind, sc.threads[t].0, want, got.chars().take(160).collect::<String>(), log.join("; ")),
                                ]));
                                break 'outer;
                            }
                            sc.local[i].3 = Some(want);
                        }
                        Err(_) => bump("op:localcell-call-error", &mut counts),
                    },
                    Err(e) => {
                        bump("op:localcell-eval-error", &mut counts);
                        if std::env::var("C05_DEBUG").is_ok() {
                            eprintln!("local cell fn error: {}", e);
                        }
                    }
                }
            }
            "collect" => {
                let was_forced = forced.is_some();
                let t = match forced.take() {
                    Some(t) => t,
                    None => arg_n(1).unwrap_or_else(|| rng.below(sc.threads.len() as u64) as usize),
                };
                if was_forced {
                    bump("op:collect-forced-after-cross-heap-pointer", &mut counts);
                }
                let path = sc.threads[t].0.clone();
                let before = snapshot(&sc.vm);
                for p in &before.problems {
                    bump(&format!("snapshot-problem:{}", p), &mut counts);
                }
                let mut req = collect_request(&before, &path);
                if !before.marked.is_empty() {
                    // mark bits that an earlier collection left behind are part of the state
                    let idx0 = before.index();
                    let mut ms: Vec<usize> = before.marked.iter().map(|(_, a)| idx0[a]).collect();
                    ms.sort();
                    req.push_str(&format!(" (marked{})", ms.iter().map(|m| format!(" {}", m)).collect::<String>()));
                    bump("collect-with-stale-marks-in-state", &mut counts);
                }
                let col0 = COLLECTIONS.load(Ordering::Relaxed);
                sc.threads[t].1.collect();
                let ncol = COLLECTIONS.load(Ordering::Relaxed) - col0;
                let mut marks_after: Vec<(Path, usize)> = vec![];
                let after_lists: BTreeSet<usize> = {
                    let mut s = BTreeSet::new();
                    for (tp, th) in &sc.threads {
                        for (a, _, m) in th.verif_heap().1 {
                            s.insert(a);
                            if m {
                                marks_after.push((tp.clone(), a));
                            }
                        }
                    }
                    s
                };
                let idx = before.index();
                let mut freed: Vec<usize> = before.thread_heap_objects().into_iter().filter(|a| !after_lists.contains(a)).collect();
                freed.sort_by_key(|a| idx[a]);
                let payload = format!("(freed{})", freed.iter().map(|a| format!(" {}", idx[a])).collect::<String>());
                log.push(format!("collect {:?} freed {}", path, freed.len()));
                bump("op:collect", &mut counts);
                bump(&format!("collect-at-depth:{}", path.len()), &mut counts);
                if ncol != 1 {
                    bump("collect-count-not-1", &mut counts);
                }
                let nthreads = sc.threads.len();
                let bad = before.bad_edges();
                let deepest_swept = sc.threads.iter().filter(|t| is_prefix(&path, &t.0)).map(|t| t.0.len() - path.len()).max().unwrap_or(0);
                bump(&format!("collect-with-descendants-to-depth:+{}", deepest_swept), &mut counts);
                let freed_below: BTreeSet<usize> = freed.iter().map(|a| before.objs[a].owner.as_ref().map(|o| o.len().saturating_sub(path.len())).unwrap_or(0)).collect();
                for d in &freed_below {
                    bump(&format!("collect-freed-garbage-at:+{}", d), &mut counts);
                }
                let shape_key = format!(
                    "thr{}|d{}+{}|objs{}|freed{}|bad{}|cells{}",
                    nthreads,
                    path.len(),
                    deepest_swept,
                    before.order.len() / 20,
                    (freed.len() + 9) / 10,
                    bad.len().min(2),
                    sc.cells.len().min(3)
                );
                // ---- oracle (addresses only) ----
                let reach = before.reached();
                let mut stop = false;
                let lost: Vec<usize> = freed.iter().cloned().filter(|a| reach.contains(a)).collect();
                if !lost.is_empty() {
                    // name the pointer that crosses heaps the wrong way, if there is one
                    let rel = match bad.first() {
                        Some((o, p)) => relation(before.objs[o].owner.as_deref().unwrap_or(&[]), before.objs[p].owner.as_deref().unwrap_or(&[])),
                        None => "no-cross-heap-pointer",
                    };
                    oracle.push(json!([
                        format!("freed-reachable:{}", rel),
                        format!("collect({:?}) freed {} object(s) still reachable from a root (first: #{} owned by {:?}); op log: {}", path, lost.len(), idx[&lost[0]], before.objs[&lost[0]].owner, log.join("; ")),
                    ]));
                    stop = true;
                }
                let swept_survivors: Vec<usize> = before
                    .thread_heap_objects()
                    .into_iter()
                    .filter(|a| after_lists.contains(a) && is_prefix(&path, before.objs[a].owner.as_deref().unwrap_or(&[99])) && !reach.contains(a))
                    .collect();
                if !swept_survivors.is_empty() {
                    oracle.push(json!([
                        "unreachable-survives-collection",
                        format!("collect({:?}) kept {} object(s) of a swept heap that no root reaches; op log: {}", path, swept_survivors.len(), log.join("; ")),
                    ]));
                }
                for a in &freed {
                    if !is_prefix(&path, before.objs[a].owner.as_deref().unwrap_or(&[99])) {
                        oracle.push(json!(["freed-outside-collected-heaps", format!("collect({:?}) freed an object of heap {:?}", path, before.objs[a].owner)]));
                        break;
                    }
                }
                // ---- mark bits: a collection must leave every heap it swept unmarked ----
                let was_marked: BTreeSet<usize> = before.marked.iter().map(|(_, a)| *a).collect();
                let mut reported: BTreeSet<String> = BTreeSet::new();
                for (hp, a) in &marks_after {
                    let fp = if is_prefix(&path, hp) {
                        format!("stale-mark-bit:swept-heap:collector+{}", hp.len() - path.len())
                    } else if was_marked.contains(a) {
                        continue; // left by an earlier collection, reported there
                    } else if !bad.is_empty() {
                        // gc.rs:1398 marks every object that is not OLDER than the collecting heap: an
                        // object of another heap of the same or a younger generation, reached through a
                        // cross-heap pointer, keeps the bit because that heap is not swept
                        "stale-mark-bit:unswept-heap:reached-through-cross-heap-pointer".to_string()
                    } else {
                        "stale-mark-bit:unswept-heap:no-cross-heap-pointer".to_string()
                    };
                    if reported.insert(fp.clone()) {
                        oracle.push(json!([
                            fp,
                            format!("after collect({:?}) an object of heap {:?} still has its mark bit set (the next collection of that heap will not look inside it); op log: {}", path, hp, log.join("; ")),
                        ]));
                    }
                }
                cases.push(json!([req, payload, shape_key]));
                if stop {
                    // memory is corrupt from here on
                    break 'outer;
                }
            }
            _ => {}
        }
        if op != "collect" {
            let snap = snapshot(&sc.vm);
            let bad = snap.bad_edges();
            if let Some((o, p)) = bad.first() {
                bump("cross-heap-pointer-seen", &mut counts);
                // marker for the parent: if the process dies from here on, it died while this
                // pointer existed
                println!("BAD {}", relation(snap.objs[o].owner.as_deref().unwrap_or(&[]), snap.objs[p].owner.as_deref().unwrap_or(&[])));
                use std::io::Write;
                let _ = std::io::stdout().flush();
            }
            for (_, p) in &bad {
                if seen_bad.contains(p) {
                    continue;
                }
                if let Some(ow) = snap.objs[p].owner.clone() {
                    if let Some(ti) = sc.threads.iter().position(|t| t.0 == ow) {
                        seen_bad.insert(*p);
                        forced = Some(ti);
                        steps += 1;
                        break;
                    }
                }
            }
        }
    }
    // leave without running destructors over a possibly corrupt heap
    let out = json!({"cases": cases, "oracle": oracle, "counts": counts, "log": log}).to_string();
    std::mem::forget(sc);
    out
}

// ------------------------------------------------------------------------------------------
// transparency stream
// ------------------------------------------------------------------------------------------

/// Child: one VM, collector forced at every k-th check; per program `{mods, main}` answer
/// `outcome \t m0 \t m1 \t m2` (memory after a collect before / after run 1 / after run 2).
fn trans_child(k: usize) {
    let vm = gv::vm::new_vm();
    gv::vm::settings(&vm, false, false);
    vm.get_database_mut().set_run_io(true);
    let mut i = 0;
    gv::child::serve(|input| {
        i += 1;
        let p: J = serde_json::from_str(input).unwrap();
        STRESS_INTERVAL.store(k, Ordering::Relaxed);
        let mut load_err = None;
        for m in p["mods"].as_array().unwrap() {
            let name = m[0].as_str().unwrap();
            if let Err(e) = vm.load_script(name, m[1].as_str().unwrap()) {
                load_err = Some(surf::classify_error(&format!("{}", e)));
            }
        }
        let main = p["main"].as_str().unwrap();
        STRESS_INTERVAL.store(0, Ordering::Relaxed);
        vm.collect();
        let m0 = vm.allocated_memory();
        STRESS_INTERVAL.store(k, Ordering::Relaxed);
        let r1 = match &load_err {
            Some(e) => e.clone(),
            None => surf::run_canon(&vm, &format!("t{}a", i), main),
        };
        STRESS_INTERVAL.store(0, Ordering::Relaxed);
        vm.collect();
        let m1 = vm.allocated_memory();
        STRESS_INTERVAL.store(k, Ordering::Relaxed);
        let r2 = if load_err.is_none() && p["twice"].as_bool().unwrap_or(false) {
            surf::run_canon(&vm, &format!("t{}b", i), main)
        } else {
            r1.clone()
        };
        STRESS_INTERVAL.store(0, Ordering::Relaxed);
        vm.collect();
        let m2 = vm.allocated_memory();
        format!("{}\t{}\t{}\t{}\t{}", r1, r2, m0, m1, m2)
    });
}

struct Prog {
    family: String,
    job: J,
}

fn alloc_heavy(rng: &mut Rng, i: usize) -> Prog {
    let n = rng.range(20, 120);
    let fams = ["list-build-sum", "array-append-loop", "string-concat-loop", "closure-chain", "record-churn", "tree-build"];
    let f = fams[i % fams.len()];
    let main = match f {
        "list-build-sum" => format!(
            "type L = | Nil | Cons Int L\nrec let build n acc = if n #Int== 0 then acc else build (n #Int- 1) (Cons n acc)\nin\nrec let sum l acc =\n    match l with\n    | Nil -> acc\n    | Cons x xs -> sum xs (acc #Int+ x)\nin\nsum (build {} Nil) 0",
            n
        ),
        "array-append-loop" => format!(
            "let array = import! std.array.prim\nrec let go n acc = if n #Int== 0 then acc else go (n #Int- 1) (array.append acc [n, n #Int* 2])\nin\ngo {} [0]",
            n
        ),
        "string-concat-loop" => format!(
            "let string = import! std.string.prim\nrec let go n acc = if n #Int== 0 then acc else go (n #Int- 1) (string.append acc \"ab\")\nin\n{{ s = go {} \"\" }}",
            n
        ),
        "closure-chain" => format!(
            "rec let mk n f = if n #Int== 0 then f else mk (n #Int- 1) (\\x -> f (x #Int+ n))\nin\n(mk {} (\\x -> x)) 1",
            n
        ),
        "record-churn" => format!(
            "rec let go n r = if n #Int== 0 then r else go (n #Int- 1) {{ a = r.b, b = [n, r.c], c = r.c #Int+ 1 }}\nin\ngo {} {{ a = [0], b = [1], c = 2 }}",
            n
        ),
        _ => format!(
            "type T = | Leaf | Node T Int T\nrec let build d = if d #Int== 0 then Leaf else Node (build (d #Int- 1)) d (build (d #Int- 1))\nin\nrec let size t =\n    match t with\n    | Leaf -> 0\n    | Node l _ r -> size l #Int+ 1 #Int+ size r\nin\n{{ n = size (build {}), t = build 3 }}",
            3 + n % 6
        ),
    };
    Prog { family: format!("alloc:{}", f), job: json!({"mods": [], "main": main, "twice": true}) }
}


/// A fresh value that stays alive across forced collections ONLY through one object of the
/// named kind (closure upvar, partial-application argument, each array representation, variant /
/// record field, lazy thunk and lazy value, reference, channel queue, stack of a suspended child
/// thread): if the `Trace` impl of that kind lost the pointer, the value is freed and overwritten
/// by the churn, and the outcome differs between k.
fn only_path(rng: &mut Rng, i: usize) -> Prog {
    let n = rng.range(1, 900);
    let kinds = [
        "closure-upvar", "partial-app-arg", "array-boxed", "array-of-arrays", "array-of-strings", "variant-field",
        "record-field", "lazy-thunk", "lazy-value", "reference", "channel-queue", "child-thread-stack", "nested-closure-in-array",
    ];
    let k = kinds[i % kinds.len()];
    let pre = "let array = import! std.array.prim\nlet string = import! std.string.prim\nlet io = import! std.io.prim\nrec let churn n acc = if n #Int== 0 then acc else churn (n #Int- 1) (array.append acc [n, n #Int+ 1])\nin\nlet fresh u = array.append [u, 1] [2, 3]\n";
    let body = match k {
        "closure-upvar" => format!("let f = (let x = fresh {n} in \\u -> x)\nlet j = churn 30 [0]\n{{ v = f (), j = array.len j }}", n = n),
        "partial-app-arg" => format!("let g a b c = {{ a, b }}\nlet p = g (fresh {n}) (fresh 7)\nlet j = churn 30 [0]\n{{ v = p 0, j = array.len j }}", n = n),
        "array-boxed" => format!("let arr = [{{ v = fresh {n} }}, {{ v = fresh 8 }}]\nlet j = churn 30 [0]\n{{ v = (array.index arr 0).v, w = (array.index arr 1).v, j = array.len j }}", n = n),
        "array-of-arrays" => format!("let arr = [fresh {n}, fresh 9]\nlet j = churn 30 [0]\n{{ v = array.index arr 0, w = array.index arr 1, j = array.len j }}", n = n),
        "array-of-strings" => format!("let arr = [string.append \"ab{n}\" \"cd\", string.append \"ef\" \"gh\"]\nlet j = churn 30 [0]\n{{ v = array.index arr 0, w = array.index arr 1, j = array.len j }}", n = n),
        "variant-field" => format!("type V = | A (Array Int) (Array Int) | B\nlet x = A (fresh {n}) (fresh 3)\nlet j = churn 30 [0]\nmatch x with\n| A p q -> {{ p, q, j = array.len j }}\n| B -> {{ p = [0], q = [0], j = 0 }}", n = n),
        "record-field" => format!("let r = {{ a = {{ b = {{ c = fresh {n} }} }}, d = fresh 4 }}\nlet j = churn 30 [0]\n{{ v = r.a.b.c, w = r.d, j = array.len j }}", n = n),
        "lazy-thunk" => format!("let {{ lazy, force }} = import! std.lazy\nlet l = (let x = fresh {n} in lazy (\\u -> x))\nlet j = churn 30 [0]\n{{ v = force l, j = array.len j }}", n = n),
        "lazy-value" => format!("let {{ lazy, force }} = import! std.lazy\nlet l = lazy (\\u -> fresh {n})\nlet a = array.len (force l)\nlet j = churn 30 [0]\n{{ v = force l, a, j = array.len j }}", n = n),
        "reference" => format!("let st = import! std.st.reference.prim\nlet r = st.ref (fresh {n})\nlet j = churn 30 [0]\nlet u = st.(<-) r (fresh {m})\nlet j2 = churn 30 [0]\n{{ v = st.load r, j = array.len j #Int+ array.len j2 }}", n = n, m = n + 1),
        "channel-queue" => format!("let {{ channel, send, recv }} = import! std.channel\nio.flat_map (\\c ->\n    io.flat_map (\\s1 ->\n        io.flat_map (\\s2 ->\n            let j = churn 30 [0]\n            io.flat_map (\\a -> io.flat_map (\\b -> io.wrap {{ a, b, j = array.len j }}) (recv c.receiver)) (recv c.receiver))\n            (send c.sender (fresh 5)))\n        (send c.sender (fresh {n})))\n    (channel [0])", n = n),
        "child-thread-stack" => format!("let {{ channel, send, recv }} = import! std.channel\nlet {{ spawn, resume }} = import! std.thread\nio.flat_map (\\c ->\n    io.flat_map (\\t ->\n        let j = churn 30 [0]\n        io.flat_map (\\r0 -> io.flat_map (\\got -> io.wrap {{ got, j = array.len j }}) (recv c.receiver)) (resume t))\n        (spawn (let x = fresh {n} in io.flat_map (\\r -> io.wrap ()) (send c.sender x))))\n    (channel [0])", n = n),
        _ => format!("let fs = [(let x = fresh {n} in \\u -> x), (let y = fresh 6 in \\u -> y)]\nlet j = churn 30 [0]\n{{ v = (array.index fs 0) (), w = (array.index fs 1) (), j = array.len j }}", n = n),
    };
    Prog { family: format!("only-path:{}", k), job: json!({"mods": [], "main": format!("{}{}", pre, body), "twice": true}) }
}

/// Programs that store a fresh (thread-heap) value into a cell owned by a loaded module and then
/// allocate before using it again.
fn module_cell(rng: &mut Rng, i: usize, uid: &str) -> Prog {
    let n = rng.range(1, 500);
    let churn = "let array = import! std.array.prim\nrec let go n acc = if n #Int== 0 then acc else go (n #Int- 1) (array.append acc [n, n])\nin\nlet junk = go 40 [0]\n";
    if i % 2 == 0 {
        let m = format!("lazymod_{}", uid);
        Prog {
            family: "module-cell:lazy".into(),
            job: json!({
                "mods": [[m, format!("let {{ lazy }} = import! std.lazy\nlet array = import! std.array.prim\nlet l = lazy (\\u -> array.append [{}, 50, 60] [70, 80, 90])\n{{ l }}", n)]],
                "main": format!("let {{ force }} = import! std.lazy\nlet {{ l }} = import! {}\nlet a = force l\n{}let b = force l\n{{ a, b, n = array.len junk }}", m, churn),
                "twice": true
            }),
        }
    } else {
        let m = format!("refmod_{}", uid);
        Prog {
            family: "module-cell:ref".into(),
            job: json!({
                "mods": [[m, "let st = import! std.st.reference.prim\n{ r = st.ref [0] }"]],
                "main": format!("let st = import! std.st.reference.prim\nlet {{ r }} = import! {}\nlet array = import! std.array.prim\nrec let go n acc = if n #Int== 0 then acc else go (n #Int- 1) (array.append acc [n, n])\nin\nlet u = st.(<-) r (array.append [{}, 1] [2, 3])\nlet junk = go 40 [0]\n{{ v = st.load r, n = array.len junk }}", m, n),
                "twice": true
            }),
        }
    }
}

/// addresses and symbol uniquifiers inside panic messages are not part of an outcome
fn norm_addr(s: &str) -> String {
    if !s.starts_with("panic") {
        return s.to_string();
    }
    let mut out = String::new();
    let mut prev_digit = false;
    for c in s.chars() {
        if c.is_ascii_digit() || (prev_digit && c.is_ascii_hexdigit()) {
            if !prev_digit {
                out.push('#');
            }
            prev_digit = true;
        } else {
            prev_digit = false;
            out.push(c);
        }
    }
    out
}

fn transparency(args: &Args, out: &mut Out) {
    let thorough = args.thorough();
    let ks: Vec<usize> = if thorough { vec![0, 1, 2, 3, 5, 8] } else { vec![0, 1, 3] };
    let n_surf = if thorough { 1200 } else { 110 };
    let n_alloc = if thorough { 300 } else { 24 };
    let n_cell = if thorough { 60 } else { 8 };
    let n_path = if thorough { 130 } else { 26 };
    let mut rng = Rng::new(args.seed, 0x7A);
    let mut progs: Vec<Prog> = vec![];
    for i in 0..n_surf {
        let mut g = surf::Gen::new(&mut rng);
        let (e, _) = g.program(2 + (i % 4) as u32);
        let cs = surf::constructs(&e);
        let fam = format!("surf:{}", cs.iter().take(3).cloned().collect::<Vec<_>>().join("+"));
        progs.push(Prog { family: fam, job: json!({"mods": [], "main": surf::program_text(&e), "twice": true}) });
    }
    for i in 0..n_alloc {
        progs.push(alloc_heavy(&mut rng, i));
    }
    for i in 0..n_cell {
        progs.push(module_cell(&mut rng, i, &format!("{}", i)));
    }
    for i in 0..n_path {
        progs.push(only_path(&mut rng, i));
    }
    let inputs: Vec<String> = progs.iter().map(|p| p.job.to_string()).collect();
    let mut results: Vec<Vec<Result<String, String>>> = vec![];
    for k in &ks {
        let ka = k.to_string();
        results.push(gv::child::batch(&["--child", "trans", &ka], &inputs, 60, Duration::from_secs(600)));
    }
    for (i, p) in progs.iter().enumerate() {
        let fam_top = p.family.split(':').take(2).collect::<Vec<_>>().join(":");
        let fam_fp = if p.family.starts_with("surf") { "surf".to_string() } else { fam_top.clone() };
        let base = &results[0][i];
        let parse = |r: &Result<String, String>| -> (String, String, i64, i64, i64) {
            match r {
                Ok(s) => {
                    let f: Vec<&str> = s.split('\t').collect();
                    if f.len() == 5 {
                        (norm_addr(f[0]), norm_addr(f[1]), f[2].parse().unwrap_or(0), f[3].parse().unwrap_or(0), f[4].parse().unwrap_or(0))
                    } else {
                        (format!("malformed {}", s), String::new(), 0, 0, 0)
                    }
                }
                Err(c) => (format!("crash {}", c), format!("crash {}", c), 0, 0, 0),
            }
        };
        let (b1, _b2, _, _, _) = parse(base);
        let oc = b1.split(' ').next().unwrap_or("").trim_matches(|c| c == '(' || c == ')').to_string();
        out.count(&format!("trans-outcome:{}", oc));
        out.count(&format!("trans-family:{}", fam_top));
        if oc == "err:static" {
            out.count("skipped:static-error");
            if !p.family.starts_with("surf") {
                out.count(&format!("skipped:static-error:{}", p.family));
                if std::env::var("C05_DEBUG").is_ok() {
                    eprintln!("{}: {}\n{}", p.family, b1, p.job["main"].as_str().unwrap_or(""));
                }
            }
            continue;
        }
        // An internal failure of the pipeline on a program of the shared generator (D15, D16, … listed
        // for C01/C02/C04) is an OUTCOME here: C05 only demands that it does not depend on k.
        if (oc == "panic" || oc == "crash") && p.family.starts_with("surf") {
            out.count("trans-internal-failure-without-gc-involvement");
        }
        let mut all_same = true;
        for (ki, k) in ks.iter().enumerate() {
            let (r1, r2, _m0, m1, m2) = parse(&results[ki][i]);
            out.add("trans-evaluations", 1);
            if r1 != b1 || r2 != b1 {
                all_same = false;
                let what = format!(
                    "outcome depends on when collections run: family {} with no forced collection gives {}; with a collection at every {}-th allocation check run 1 gives {}, run 2 gives {}",
                    p.family,
                    b1.chars().take(120).collect::<String>(),
                    k,
                    r1.chars().take(120).collect::<String>(),
                    r2.chars().take(120).collect::<String>()
                );
                out.oracle_fail(&format!("gc-changes-outcome:{}", fam_fp), &what, json!({"job": p.job, "k": k}));
            } else if oc == "ok" && m2 > m1 {
                // a program that spawns a thread: the finished thread is never reclaimed
                let fam_mem = if p.family.contains("child-thread") { "spawned-thread-never-reclaimed".to_string() } else { fam_fp.clone() };
                out.oracle_fail(
                    &format!("memory-grows-on-rerun:{}", fam_mem),
                    &format!("family {} k={}: allocated_memory after collect is {} after the first run and {} after the second run of the same program", p.family, k, m1, m2),
                    json!({"job": p.job, "k": k}),
                );
            }
            if oc == "ok" {
                out.count(&format!("trans-mem-delta-run2:{}", if m2 == m1 { "0" } else if m2 < m1 { "neg" } else { "pos" }));
            }
        }
        out.class(format!("trans|{}|{}|{}", p.family, oc, all_same));
        if i % 41 == 0 {
            out.sample(json!({"stream": "transparency", "family": p.family, "main": p.job["main"], "outcome_all_k": b1.chars().take(100).collect::<String>()}));
        }
    }
}

fn graph(args: &Args, out: &mut Out) {
    let n = if args.thorough() { 600 } else { 40 };
    let steps = if args.thorough() { 40 } else { 30 };
    let mut inputs = vec![];
    // corpus first: the module-level lazy / ref histories (D1) and a plain one
    let corpus: Vec<J> = vec![
        json!({"seed": 1, "steps": 10, "ops": ["loadcell", "storecell", "collect"]}),
        json!({"seed": 2, "steps": 10, "ops": ["loadcell", "storecell", "collect"]}),
        json!({"seed": 3, "steps": 10, "ops": ["newthread", "eval", "eval", "collect", "drop", "collect"]}),
        // an array of strings built in a child, re-rooted into the root thread, original dropped
        json!({"seed": 4, "steps": 10, "ops": ["newthread:0", "eval:string-array:1", "reroot:0:0", "drop:0", "collect:1", "collect:0"]}),
        json!({"seed": 5, "steps": 12, "ops": ["newthread:0", "newthread:1", "eval:shared:2", "reroot:0:1", "reroot:1:0", "drop:0", "collect:2", "drop:0", "collect:1", "collect:0"]}),
    ];
    for c in &corpus {
        inputs.push(c.to_string());
    }
    // ancestor collects -> fresh value stored into a descendant's pre-existing cell -> descendant
    // collects -> read; every (owner depth, collector depth) in trees of depth <= 4, both cell kinds
    for d in 1..=4usize {
        for a in 1..=d {
            for kind in ["ref", "lazy"] {
                let o = d - 1;
                let c = a - 1;
                let mut ops: Vec<String> = (0..d - 1).map(|i| format!("newthread:{}", i)).collect();
                for x in [
                    format!("ballast:{}", o),
                    format!("collect:{}", o),
                    format!("evalcell:{}:{}", kind, o),
                    format!("eval:rec:{}", o),
                    "drop:1".to_string(),
                    format!("collect:{}", c),
                    "storelocal:0".to_string(),
                    format!("collect:{}", o),
                    format!("eval:boxed-array:{}", o),
                    "readcell:0".to_string(),
                    format!("eval:shared:{}", o),
                    "drop:1".to_string(),
                    format!("collect:{}", c),
                    "storelocal:0".to_string(),
                    format!("collect:{}", o),
                    "readcell:0".to_string(),
                ] {
                    ops.push(x);
                }
                inputs.push(json!({"seed": 1000 + d * 10 + a, "steps": 60, "ops": ops}).to_string());
            }
        }
    }
    for i in 0..n {
        inputs.push(json!({"seed": args.seed * 100_000 + i as u64, "steps": steps}).to_string());
    }
    let results: Vec<Result<String, (String, String)>> = inputs
        .iter()
        .map(|inp| {
            let payload = format!("{}\n", serde_json::to_string(inp).unwrap());
            let exit = gv::child::run(&["--child", "graph"], payload.as_bytes(), Duration::from_secs(120));
            let (o, class) = match &exit {
                gv::child::Exit::Ok(o) => (o.clone(), None),
                gv::child::Exit::Code(_, o, _) | gv::child::Exit::Signal(_, o, _) | gv::child::Exit::Timeout(o) => (o.clone(), Some(exit.class())),
            };
            match o.lines().find_map(|l| l.strip_prefix("R ")) {
                Some(r) => Ok(serde_json::from_str::<String>(r).unwrap_or_default()),
                None => Err((class.unwrap_or_else(|| "exit:incomplete".into()), o.lines().filter_map(|l| l.strip_prefix("BAD ")).last().unwrap_or("").to_string())),
            }
        })
        .collect();
    for (inp, r) in inputs.iter().zip(results.iter()) {
        match r {
            Err((class, bad)) if !bad.is_empty() => {
                out.count(&format!("graph-crash-with-cross-heap-pointer:{}", class));
                out.oracle_fail(
                    &format!("crash-while-cross-heap-pointer-present:{}", bad),
                    &format!("the VM died ({}) during a history of thread / handle / cell operations while a pointer into a non-ancestor heap existed ({}) and before the forced collection could be observed", class, bad),
                    json!({"scenario": serde_json::from_str::<J>(inp).unwrap()}),
                );
            }
            Err((class, _)) => {
                out.oracle_fail(
                    &format!("crash:graph-scenario:{}", class),
                    &format!("the VM died ({}) during a history of thread / handle / cell operations; no cross-heap pointer had been seen", class),
                    json!({"scenario": serde_json::from_str::<J>(inp).unwrap()}),
                );
            }
            Ok(s) => {
                let v: J = serde_json::from_str(s).unwrap();
                for (k, c) in v["counts"].as_object().unwrap() {
                    out.add(&format!("graph-{}", k), c.as_u64().unwrap());
                }
                for c in v["cases"].as_array().unwrap() {
                    out.case(c[0].as_str().unwrap(), c[1].as_str().unwrap());
                    out.class(format!("graph|{}", c[2].as_str().unwrap()));
                }
                for o in v["oracle"].as_array().unwrap() {
                    out.oracle_fail(o[0].as_str().unwrap(), o[1].as_str().unwrap(), json!({"scenario": serde_json::from_str::<J>(inp).unwrap()}));
                }
                if out.samples.len() < 3 && !v["cases"].as_array().unwrap().is_empty() {
                    out.sample(json!({"stream": "graph", "scenario": serde_json::from_str::<J>(inp).unwrap(), "log": v["log"]}));
                }
            }
        }
    }
}

fn main() {
    if std::env::var("C05_DEBUG").is_err() {
        gv::quiet_panics();
    }
    let a: Vec<String> = std::env::args().collect();
    if a.get(1).map(|s| s.as_str()) == Some("--child") {
        match a[2].as_str() {
            "graph" => gv::child::serve(graph_scenario),
            "trans" => trans_child(a[3].parse().unwrap()),
            "handles" => handles::child(),
            _ => {}
        }
        return;
    }
    let args = Args::parse();
    let mut out = Out::new(&args.out);
    if let Some(rp) = &args.replay {
        let v: J = serde_json::from_str(&std::fs::read_to_string(rp).unwrap()).unwrap();
        let case = &v["case"];
        if let Some(sc) = case.get("scenario") {
            let r = gv::child::batch(&["--child", "graph"], &[sc.to_string()], 1, Duration::from_secs(120));
            println!("scenario {} =>\n{:?}", sc, r[0]);
        } else if let Some(job) = case.get("handles") {
            handles::replay(job);
        } else if let Some(job) = case.get("job") {
            for k in [0u64, case["k"].as_u64().unwrap_or(1)] {
                let ka = k.to_string();
                let r = gv::child::batch(&["--child", "trans", &ka], &[job.to_string()], 1, Duration::from_secs(120));
                println!("k={} => {:?}", k, r[0]);
            }
        }
        out.finish();
        return;
    }
    // C05_ONLY=handles|graph|trans: development aid (one stream only)
    let only = std::env::var("C05_ONLY").ok();
    let want = |s: &str| only.as_deref().map(|o| o == s).unwrap_or(true);
    if want("handles") {
        handles::stream(&args, &mut out);
    }
    if want("graph") {
        graph(&args, &mut out);
    }
    if want("trans") {
        transparency(&args, &mut out);
    }
    out.finish();
}
