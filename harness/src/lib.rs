//! Shared pieces of the correspondence harness: PRNG, S-expression output, output files,
//! child-process isolation, VM construction.
use std::fmt::Write as _;
use std::fs::File;
use std::io::{BufWriter, Write};
use std::path::{Path, PathBuf};

pub mod surf;

pub mod rng {
    /// xorshift64* — every random choice of a run derives from one of these, seeded from
    /// VERIF_SEED (and a per-stream salt), so a disagreement replays exactly.
    #[derive(Clone)]
    pub struct Rng(pub u64);
    impl Rng {
        pub fn new(seed: u64, salt: u64) -> Rng {
            let mut s = seed ^ salt.wrapping_mul(0x9E3779B97F4A7C15) ^ 0xD1B54A32D192ED03;
            if s == 0 {
                s = 0x2545F4914F6CDD1D;
            }
            let mut r = Rng(s);
            for _ in 0..4 {
                r.next();
            }
            r
        }
        pub fn next(&mut self) -> u64 {
            let mut x = self.0;
            x ^= x >> 12;
            x ^= x << 25;
            x ^= x >> 27;
            self.0 = x;
            x.wrapping_mul(0x2545F4914F6CDD1D)
        }
        pub fn below(&mut self, n: u64) -> u64 {
            if n == 0 {
                0
            } else {
                self.next() % n
            }
        }
        pub fn range(&mut self, lo: i64, hi: i64) -> i64 {
            lo + self.below((hi - lo + 1) as u64) as i64
        }
        pub fn chance(&mut self, num: u64, den: u64) -> bool {
            self.below(den) < num
        }
        pub fn pick<'a, T>(&mut self, xs: &'a [T]) -> &'a T {
            &xs[self.below(xs.len() as u64) as usize]
        }
    }
}

/// Quote a string for the line protocol (matches `GluonModel.Sexp.quote`/`parseStr`).
pub fn quote(s: &str) -> String {
    let mut out = String::with_capacity(s.len() + 2);
    out.push('"');
    for c in s.chars() {
        match c {
            '"' => out.push_str("\\\""),
            '\\' => out.push_str("\\\\"),
            '\n' => out.push_str("\\n"),
            '\t' => out.push_str("\\t"),
            '\r' => out.push_str("\\r"),
            c if (c as u32) < 32 || c as u32 == 127 => {
                let _ = write!(out, "\\x{:02x}", c as u32);
            }
            c if (c as u32) > 126 => {
                let _ = write!(out, "\\u{{{:x}}}", c as u32);
            }
            c => out.push(c),
        }
    }
    out.push('"');
    out
}

/// Quote raw bytes (each byte as the code point of the same number).
pub fn quote_bytes(b: &[u8]) -> String {
    let mut out = String::with_capacity(b.len() + 2);
    out.push('"');
    for &c in b {
        match c {
            b'"' => out.push_str("\\\""),
            b'\\' => out.push_str("\\\\"),
            b'\n' => out.push_str("\\n"),
            b'\t' => out.push_str("\\t"),
            b'\r' => out.push_str("\\r"),
            c if c < 32 || c >= 127 => {
                let _ = write!(out, "\\x{:02x}", c);
            }
            c => out.push(c as char),
        }
    }
    out.push('"');
    out
}

/// Command line shared by all harness binaries:
/// `--tier quick|thorough --seed N --out DIR [--replay FILE]`
pub struct Args {
    pub tier: String,
    pub seed: u64,
    pub out: PathBuf,
    pub replay: Option<PathBuf>,
    pub extra: Vec<String>,
}

impl Args {
    pub fn parse() -> Args {
        let mut a = Args {
            tier: "quick".into(),
            seed: 1,
            out: PathBuf::from("."),
            replay: None,
            extra: vec![],
        };
        let mut it = std::env::args().skip(1);
        while let Some(x) = it.next() {
            match x.as_str() {
                "--tier" => a.tier = it.next().unwrap(),
                "--seed" => a.seed = it.next().unwrap().parse().unwrap(),
                "--out" => a.out = PathBuf::from(it.next().unwrap()),
                "--replay" => a.replay = Some(PathBuf::from(it.next().unwrap())),
                _ => a.extra.push(x),
            }
        }
        std::fs::create_dir_all(&a.out).unwrap();
        a
    }
    pub fn thorough(&self) -> bool {
        self.tier == "thorough"
    }
}

/// The output files of one harness run.
///
/// * `cases.txt`  – one request per line for the Lean driver: `(<id> <model-op> …)`
/// * `impl.txt`   – the implementation's canonical answer in the driver's answer format:
///                  `(<id> <payload>)`; the check diffs it against the driver's output
/// * `oracle.jsonl` – one JSON object per *property-oracle* failure observed on the
///                  implementation (independent of the model): `{fingerprint, what, replay}`
/// * `stats.json` – generator distribution, counts
pub struct Out {
    pub cases: BufWriter<File>,
    pub imp: BufWriter<File>,
    pub oracle: BufWriter<File>,
    pub dir: PathBuf,
    pub n_cases: u64,
    pub n_oracle_fail: u64,
    pub stats: serde_json::Map<String, serde_json::Value>,
    pub samples: Vec<serde_json::Value>,
    pub classes: std::collections::BTreeSet<String>,
}

impl Out {
    pub fn new(dir: &Path) -> Out {
        let f = |n: &str| BufWriter::new(File::create(dir.join(n)).unwrap());
        Out {
            cases: f("cases.txt"),
            imp: f("impl.txt"),
            oracle: f("oracle.jsonl"),
            dir: dir.to_path_buf(),
            n_cases: 0,
            n_oracle_fail: 0,
            stats: Default::default(),
            samples: vec![],
            classes: Default::default(),
        }
    }
    /// Emit one correspondence case: the request (without id) and the implementation's payload.
    pub fn case(&mut self, request: &str, impl_payload: &str) -> u64 {
        self.n_cases += 1;
        let id = self.n_cases;
        writeln!(self.cases, "({} {})", id, request).unwrap();
        writeln!(self.imp, "({} {})", id, impl_payload).unwrap();
        id
    }
    /// Record a property-oracle failure observed on the implementation.
    pub fn oracle_fail(&mut self, fingerprint: &str, what: &str, replay: serde_json::Value) {
        self.n_oracle_fail += 1;
        let v = serde_json::json!({"fingerprint": fingerprint, "what": what, "replay": replay});
        writeln!(self.oracle, "{}", v).unwrap();
    }
    pub fn count(&mut self, key: &str) {
        self.add(key, 1);
    }
    pub fn add(&mut self, key: &str, n: u64) {
        let e = self
            .stats
            .entry(key.to_string())
            .or_insert(serde_json::Value::from(0u64));
        *e = serde_json::Value::from(e.as_u64().unwrap_or(0) + n);
    }
    /// Register the (shape, outcome) class of a non-trivial case; `distinct_nontrivial` is the
    /// size of this set.
    pub fn class(&mut self, c: String) {
        self.classes.insert(c);
    }
    pub fn sample(&mut self, v: serde_json::Value) {
        if self.samples.len() < 8 {
            self.samples.push(v);
        }
    }
    pub fn finish(mut self) {
        self.cases.flush().unwrap();
        self.imp.flush().unwrap();
        self.oracle.flush().unwrap();
        let mut m = serde_json::Map::new();
        m.insert("evaluations".into(), self.n_cases.into());
        m.insert("oracle_failures".into(), self.n_oracle_fail.into());
        m.insert("distinct_nontrivial".into(), (self.classes.len() as u64).into());
        m.insert("samples".into(), serde_json::Value::Array(self.samples.clone()));
        m.insert("distribution".into(), serde_json::Value::Object(self.stats.clone()));
        let mut f = File::create(self.dir.join("stats.json")).unwrap();
        f.write_all(serde_json::to_string_pretty(&serde_json::Value::Object(m)).unwrap().as_bytes())
            .unwrap();
    }
}

pub mod child {
    //! Run one case in a child process (the same binary re-invoked with `--child <mode>`),
    //! so that abort / SIGSEGV / hang become *outcomes*.
    use std::io::{Read, Write};
    use std::process::{Command, Stdio};
    use std::time::{Duration, Instant};

    #[derive(Debug, Clone, PartialEq)]
    pub enum Exit {
        Ok(String),
        /// non-zero exit code, stdout, stderr tail
        Code(i32, String, String),
        Signal(i32, String, String),
        Timeout(String),
    }

    impl Exit {
        pub fn class(&self) -> String {
            match self {
                Exit::Ok(_) => "ok".into(),
                Exit::Code(c, _, _) => format!("exit:{}", c),
                Exit::Signal(s, _, _) => format!("signal:{}", s),
                Exit::Timeout(_) => "timeout".into(),
            }
        }
    }

    /// Re-invoke the current executable with `args`, feed `input` on stdin, wait at most
    /// `timeout`.
    pub fn run(args: &[&str], input: &[u8], timeout: Duration) -> Exit {
        let exe = std::env::current_exe().unwrap();
        let mut ch = Command::new(exe)
            .args(args)
            .stdin(Stdio::piped())
            .stdout(Stdio::piped())
            .stderr(Stdio::piped())
            .spawn()
            .expect("spawn child");
        // readers are started before stdin is fed (from its own thread), so a child that answers
        // while it is still reading cannot dead-lock on full pipes
        let mut si = ch.stdin.take().unwrap();
        let input_owned = input.to_vec();
        let t_in = std::thread::spawn(move || {
            let _ = si.write_all(&input_owned);
        });
        let mut so = ch.stdout.take().unwrap();
        let mut se = ch.stderr.take().unwrap();
        let t_out = std::thread::spawn(move || {
            let mut s = Vec::new();
            let _ = so.read_to_end(&mut s);
            String::from_utf8_lossy(&s).into_owned()
        });
        let t_err = std::thread::spawn(move || {
            let mut s = Vec::new();
            let _ = se.read_to_end(&mut s);
            let s = String::from_utf8_lossy(&s).into_owned();
            let n = s.len();
            if n > 2000 {
                let mut i = n - 2000;
                while !s.is_char_boundary(i) {
                    i += 1;
                }
                s[i..].to_string()
            } else {
                s
            }
        });
        let _detached = t_in;
        let start = Instant::now();
        loop {
            match ch.try_wait().unwrap() {
                Some(st) => {
                    let out = t_out.join().unwrap();
                    let err = t_err.join().unwrap();
                    use std::os::unix::process::ExitStatusExt;
                    if let Some(sig) = st.signal() {
                        return Exit::Signal(sig, out, err);
                    }
                    return match st.code() {
                        Some(0) => Exit::Ok(out),
                        Some(c) => Exit::Code(c, out, err),
                        None => Exit::Signal(-1, out, err),
                    };
                }
                None => {
                    if start.elapsed() > timeout {
                        let _ = ch.kill();
                        let _ = ch.wait();
                        let out = t_out.join().unwrap();
                        let _ = t_err.join();
                        return Exit::Timeout(out);
                    }
                    std::thread::sleep(Duration::from_millis(2));
                }
            }
        }
    }
    /// Run `inputs` through a child (`args`, usually `["--child", mode]`) that reads one JSON
    /// string per line on stdin and prints one line `R <json string>` per input, in order. When
    /// the child dies or hangs at some input that input's result is `Err(class)` and a new child
    /// continues with the next one. `timeout` is per batch.
    pub fn batch(args: &[&str], inputs: &[String], chunk: usize, timeout: Duration) -> Vec<Result<String, String>> {
        let mut results: Vec<Result<String, String>> = Vec::with_capacity(inputs.len());
        let mut start = 0;
        while start < inputs.len() {
            let end = (start + chunk).min(inputs.len());
            let mut payload = String::new();
            for i in &inputs[start..end] {
                payload.push_str(&serde_json::to_string(i).unwrap());
                payload.push('\n');
            }
            let exit = run(args, payload.as_bytes(), timeout);
            let (out, class) = match &exit {
                Exit::Ok(o) => (o.clone(), None),
                Exit::Code(_, o, _) | Exit::Signal(_, o, _) => (o.clone(), Some(exit.class())),
                Exit::Timeout(o) => (o.clone(), Some(exit.class())),
            };
            let mut n = 0;
            for line in out.lines() {
                if let Some(rest) = line.strip_prefix("R ") {
                    if start + n < end {
                        results.push(Ok(serde_json::from_str::<String>(rest).unwrap_or_else(|_| rest.to_string())));
                        n += 1;
                    }
                }
            }
            if start + n < end {
                // the child stopped before answering input `start + n`
                results.push(Err(class.unwrap_or_else(|| "exit:incomplete".to_string())));
                n += 1;
            }
            start += n;
        }
        results
    }

    /// Child side of `batch`: calls `f` for every input line and prints the answers.
    pub fn serve(mut f: impl FnMut(&str) -> String) {
        use std::io::BufRead;
        let stdin = std::io::stdin();
        let stdout = std::io::stdout();
        for line in stdin.lock().lines() {
            let line = match line {
                Ok(l) => l,
                Err(_) => break,
            };
            if line.is_empty() {
                continue;
            }
            let input: String = serde_json::from_str(&line).unwrap_or(line);
            let r = f(&input);
            let mut o = stdout.lock();
            let _ = writeln!(o, "R {}", serde_json::to_string(&r).unwrap());
            let _ = o.flush();
        }
    }
}

pub mod vm {
    use gluon::{Thread, RootedThread, ThreadExt, VmBuilder};
    #[allow(unused_imports)]
    use gluon::ThreadExt as _;

    /// A fresh VM that finds `std` in /repo.
    pub fn new_vm() -> RootedThread {
        let vm = VmBuilder::new()
            .import_paths(Some(vec!["/repo".into()]))
            .build();
        vm
    }

    pub fn new_vm_no_prelude() -> RootedThread {
        let vm = new_vm();
        vm.get_database_mut().set_implicit_prelude(false);
        vm
    }

    pub fn settings(vm: &Thread, implicit_prelude: bool, optimize: bool) {
        let mut db = vm.get_database_mut();
        db.set_implicit_prelude(implicit_prelude);
        db.set_optimize(optimize);
    }
    pub use gluon::vm::api::{Hole, OpaqueValue};
    pub type AnyValue = OpaqueValue<RootedThread, Hole>;
}

/// Catch a panic of the implementation inside the harness process and turn it into a message.
pub fn catch<T>(f: impl FnOnce() -> T) -> Result<T, String> {
    let r = std::panic::catch_unwind(std::panic::AssertUnwindSafe(f));
    r.map_err(|e| {
        if let Some(s) = e.downcast_ref::<String>() {
            s.clone()
        } else if let Some(s) = e.downcast_ref::<&str>() {
            s.to_string()
        } else {
            "panic".to_string()
        }
    })
}

thread_local! {
    static LAST_PANIC_LOC: std::cell::RefCell<Option<String>> = std::cell::RefCell::new(None);
}

/// Silence panics but remember where the last one on this thread happened (`file:line` with
/// the `/repo/` prefix removed): the *call site* is what identifies a defect in a fingerprint.
pub fn capture_panics() {
    std::panic::set_hook(Box::new(|info| {
        let loc = info
            .location()
            .map(|l| format!("{}:{}", l.file().trim_start_matches("/repo/"), l.line()));
        LAST_PANIC_LOC.with(|c| *c.borrow_mut() = loc);
    }));
}

pub fn last_panic_location() -> Option<String> {
    LAST_PANIC_LOC.with(|c| c.borrow_mut().take())
}

pub fn quiet_panics() {
    std::panic::set_hook(Box::new(|_| {}));
}
